"""C02 - operators and expressions compute their documented value at run time.

One case = one generated design: up to 8 expression trees over shared input ports, each driving an output port
declared with the type the reference model predicts, once from a `std.concurrent` context (o<i>) and once from a
clocked `std.sequential` context (q<i>).  The emitted VHDL is simulated with cv.vhdl for every operand valuation
(all of them when the operands have <= `exh` bits) and compared with cv.ref.values(_ext); the result type cohdl
computed is observed through a `cohdl.pyeval` probe in both contexts.
"""
from __future__ import annotations

import builtins
import contextlib
import io
import json

from cv.gen import c02_expr as G
from cv.harness.runner import Outcome
from cv.ref import values as rv
from cv.ref import values_ext as vx
from cv.ref.values import UNSPEC

_enum = builtins.enumerate

PROPERTY = "C02"
TECHNIQUE = ("complete enumeration of 1- and 2-operator expression cells over operand kinds and widths with ALL "
             "operand valuations, plus Hypothesis-generated depth<=3 expression trees (widths 1..8 and 16/31/32/33/64); "
             "differential comparison of the simulated emitted VHDL (concurrent and clocked context) and of the "
             "compile-time result type (pyeval probe) against a reference model of the documented value semantics")
RULE = (
    "case = a design of up to 8 expression trees (operators + - * truncdiv // % rem & | ^ ~ == != < <= > >= << >> @ "
    "x[i] x[h:l] x[run-time idx] .signed .unsigned .bitvector resize abs neg and/or/not chained comparison "
    "if-expression select_with any/all bool(), constant Signed/Unsigned operands folded by the tracer (plus a "
    "Python-level exhaustive fold of every binary operator on constant Signed/Unsigned pairs of widths 1..4 x 1..4) "
    "and local conversions Signal[T](x) / Temporary[T](x) / std.Value[T](x), operands Bit bool BitVector Unsigned Signed Integer enum, array "
    "elements, Python int literals in either position) over shared input ports; every valuation of the ports is "
    "simulated when they have <= 12 bits (enumerated cells) / <= 10 bits (random trees), else corner values and "
    "Hypothesis-drawn values; non-trivial = at least one expression with >= 1 operator and >= 1 run-time operand "
    "was compared with a model-determined value on >= 2 distinct expected values; distinct = case hash (ports, "
    "trees); expression-level counts are in `counters`"
)
ASSUMPTIONS = [
    "reference = cv.ref.values (+ values_ext): +,- max width; * sum of widths; truncdiv dividend width; mod/rem "
    "divisor width; an int operand adopts kind and width of the other operand; shifts keep the left operand's type, "
    ">> logical for Unsigned, arithmetic for Signed, counts >= width shift everything out; @ gives a BitVector with "
    "the left operand most significant; comparisons, and/or/not, any/all give bool; truth value of Bit is '1', of a "
    "vector any bit set; if-expression / select_with select among operands of one and the same type",
    "skipped as unspecified (counted): mixed Signed/Unsigned and BitVector arithmetic, bitwise operators between "
    "different types, x/0, x mod 0, int literals not representable in the width they adopt, negative shift counts, "
    "run-time index outside the indexed object, select_with without default when no key matches, Integer results "
    "outside 32 bits, if-expression branches of different types (owned by C05)",
    "a compile-time rejection by cohdl is never a violation; static errors of the emitted VHDL are reported as "
    "blocked_by_static (owned by C06), constructs outside the cv.vhdl subset as blocked",
    "enum operands are Signals decoded from a BitVector input through select_with, enum results are encoded "
    "through select_with (enum-typed ports are not emitted as legal VHDL by cohdl)",
    "VHDL run-time errors (range check, division by zero, index) on valuations where the model leaves some "
    "expression of the design undetermined are skipped and counted",
    "a VHDL run-time error where the model determines the value is reported only if it is independent of the "
    "simulation history (every predecessor / start valuation tried) and also occurs when the expression is evaluated "
    "in a clocked process alone: delta-cycle glitches of the chained concurrent temporaries (transient zero divisor "
    "through a with-select) are not judged",
    "cv.vhdl is the trusted simulator (calibrated on the upstream cocotb benches)",
]
EXHAUSTIVE = {"quick": False, "thorough": False}

CTX = {"c": "concurrent", "s": "sequential"}
_MAX_REBUILD = 600


# ----------------------------------------------------------------------------- plan / enumerate / strategy
_ENUM_PLAN = {
    # name: (tier set, builder, shards quick, shards thorough)
    "op1": (lambda tier: G.cells_1op([1, 2, 3] if tier == "quick" else [1, 2, 3, 4])),
    "special": (lambda tier: G.cells_special([1, 2, 3] if tier == "quick" else [1, 2, 3, 4])
                + G.cells_const_mix(full=tier != "quick") + G.cells_const_fold(full=tier != "quick")),
    "op2": (lambda tier: G.cells_2op([1, 2, 3], "repn") if tier == "quick" else G.cells_2op([1, 2, 3, 4], "rep")),
    "op2all": (lambda tier: G.cells_2op([1, 2], "all")),
}
_NSHARDS = {"quick": {"op1": 4, "special": 4, "op2": 32, "fold": 2},
            "thorough": {"op1": 8, "special": 6, "op2": 160, "op2all": 160, "fold": 8}}
_HYP = {"quick": (12, 32, 4, 24), "thorough": (96, 170, 24, 100)}  # narrow shards, examples each, wide shards, examples


def plan(tier):
    shards = []
    for fam, n in _NSHARDS[tier].items():
        for i in range(n):
            shards.append({"kind": "enum", "name": f"{fam}-{i}", "fam": fam, "tier": tier, "rem": i, "mod": n})
    nn, ne, wn, we = _HYP[tier]
    for i in range(nn):
        shards.append({"kind": "hyp", "name": f"tree-{i}", "examples": ne, "wide": False})
    for i in range(wn):
        shards.append({"kind": "hyp", "name": f"wide-{i}", "examples": we, "wide": True})
    return shards


def enumerate(shard):  # noqa: A001 - name fixed by the module contract
    if shard["fam"] == "fold":
        W = (1, 2, 3, 4) if shard["tier"] == "quick" else (1, 2, 3, 4, 5, 6)
        for i, c in _enum(G.fold_cells(W)):
            if i % shard["mod"] == shard["rem"]:
                yield {"fold": c}
        return
    cases = G.pack(_ENUM_PLAN[shard["fam"]](shard["tier"]))
    for i, c in _enum(cases):
        if i % shard["mod"] == shard["rem"]:
            yield c


def strategy(shard):
    return G.case_strategy(wide=bool(shard.get("wide")))


# ----------------------------------------------------------------------------- observation of cohdl's result type
def _observe_type(v):
    """probe argument -> (kind, width) in the model's terms, or ('other', type name)."""
    import cohdl
    from cohdl import Bit, BitVector, Signed, Unsigned
    from cohdl._core._boolean import _Boolean, _BooleanLiteral
    from cohdl._core._integer import Integer
    from cohdl._core._type_qualifier import TypeQualifier

    if isinstance(v, TypeQualifier):
        T = type(v)._Wrapped
    else:
        T = type(v)
    if T is bool or T is _Boolean or T is _BooleanLiteral:
        return ("bool", None)
    if T is int or T is Integer:
        return ("int", None)
    if T is Bit:
        return ("bit", None)
    if isinstance(T, type) and issubclass(T, BitVector):
        k = "s" if issubclass(T, Signed) else "u" if issubclass(T, Unsigned) else "bv"
        return (k, T.width)
    if isinstance(T, type) and issubclass(T, cohdl.enum.Enum):
        return ("enum", len(T))
    return ("other", getattr(T, "__name__", str(T)))


def _kind_name(ty):
    if ty is None:
        return "unspec"
    return "Int" if ty[0] == "int" else ty[0]


# ----------------------------------------------------------------------------- one design
class _Res:
    __slots__ = ("status", "findings", "n_cmp", "n_skip", "values", "why", "labels")

    def __init__(self, status="pending"):
        self.status, self.findings, self.n_cmp, self.n_skip = status, [], 0, 0
        self.values, self.why, self.labels = set(), "", []


class _Run:
    """evaluation of a case: model table, designs, comparison."""

    def __init__(self, case, localize=True):
        self.case = case
        self.R = G.Renderer(case)
        self.slots = G.port_slots(case)
        self.vals, self.exhaustive = G.valuations(case)
        self.do_localize = localize
        self.counters = {}
        self.static_notes = []
        ep = [G.env_of(case, self.slots, v) for v in self.vals]
        self.envs = [e for e, _ in ep]
        self.pokes = [p for _, p in ep]
        self.types = {}
        self.M = {}
        for i, t in _enum(case["exprs"]):
            ty = self.R.stype(t)
            self.types[i] = ty
            if ty is not None:
                col = []
                for env in self.envs:
                    m = vx.evaluate(t, env)
                    col.append(None if (m is UNSPEC or m.value is None) else m.value)
                self.M[i] = col

    def count(self, k, n=1):
        self.counters[k] = self.counters.get(k, 0) + n

    # -- compile one design for the expressions idxs
    def _compile(self, idxs):
        from cv.harness import loader

        src = self.R.design(idxs, self.types)
        buf = io.StringIO()
        try:
            with contextlib.redirect_stdout(buf), contextlib.redirect_stderr(buf):
                mod = loader.load_module(src)
        except (KeyboardInterrupt, SystemExit):
            raise
        except SyntaxError:
            raise
        self.count("compilations")
        try:
            try:
                vhdl = loader.compile_entity(mod.Top)
                rej = None
            except loader.Rejected as r:
                vhdl, rej = None, r
            sink = list(mod.SINK)
        finally:
            loader.unload_module(mod)
        return src, vhdl, rej, sink

    def _check_types(self, res, sink, idxs):
        seen = set()
        for ctx, i, v in sink:
            if i not in idxs or (ctx, i) in seen:
                continue
            seen.add((ctx, i))
            obs = _observe_type(v)
            exp = self.types[i]
            if obs == ("other", "NotImplementedType"):
                continue  # operator not implemented for the operands: cohdl goes on to reject the design
            if obs[0] == "other":
                res[i].findings.append((ctx, "kind", f"result is a {obs[1]}, documented {exp}"))
            elif obs[0] != exp[0]:
                res[i].findings.append((ctx, "kind", f"result type {obs}, documented {exp}"))
            elif obs[1] != exp[1]:
                res[i].findings.append((ctx, "width", f"result type {obs}, documented {exp}"))
        return seen

    def run(self, idxs, simulate=True):
        """-> {i: _Res} for the expressions idxs (all with a static model type)."""
        from cv.vhdl.analyze import analyse
        from cv.vhdl.sim import Blocked, Sim
        from cv.vhdl.values import SimError

        res = {i: _Res() for i in idxs}
        if not idxs:
            return res
        src, vhdl, rej, sink = self._compile(idxs)
        self._check_types(res, sink, idxs)
        if rej is not None:
            if len(idxs) > 1:
                return self._split(idxs, self._culprits_rejected(idxs, sink), simulate)
            r = res[idxs[0]]
            r.status, r.why = "rejected", str(rej)[:200]
            return res
        # inputs start from a valuation for which the model determines every expression (instead of 'U'): a VHDL
        # run-time error at time 0 caused by undefined inputs (to_integer("UUU") = 0 as a divisor ...) is not judged
        clean_vals = [j for j in range(len(self.pokes)) if all(self.M[i][j] is not None for i in idxs)]
        vhdl0 = vhdl
        if simulate and clean_vals:
            vhdl = _with_input_defaults(vhdl0, self.slots, self.pokes[clean_vals[0]])
        d = analyse(vhdl)
        if d.unsupported or d.errors:
            if len(idxs) > 1:
                return self._split(idxs, self._culprits_static(idxs, vhdl, d), simulate)
            r = res[idxs[0]]
            if d.errors:
                r.status = "static"
                for e in d.errors[:3]:
                    r.labels.append(e.rule)
                    self.static_notes.append((e.rule, e.msg, self.R.rx(self.case["exprs"][idxs[0]]), _line(vhdl, e.line)))
                r.why = "; ".join(f"{e.rule}: {e.msg}" for e in d.errors[:3])
            else:
                r.status, r.why = "blocked", str(d.unsupported)[:200]
            return res
        if not simulate:
            for i in idxs:
                res[i].status = "typeonly"
            return res
        def fresh():
            sm = Sim(d, top="Top")
            sm.poke(clk=0)
            return sm

        # initialisation transients: at time 0 the boolean temporaries of an if-expression are still `false`, so the
        # else-operand is selected for one delta whatever the condition is (a zero there is a division by zero at
        # 0 ns in any simulator).  Try a few other start valuations before giving up.
        if clean_vals and not d.errors and not d.unsupported:
            step = max(1, len(clean_vals) // 7)
            for j0 in clean_vals[::step][:8]:
                dj = d if j0 == clean_vals[0] else analyse(_with_input_defaults(vhdl0, self.slots, self.pokes[j0]))
                try:
                    sm0 = Sim(dj, top="Top")
                    sm0.poke(clk=0)
                except (SimError, Blocked):
                    self.count("start_valuations_with_sim_error_at_time_0")
                    continue
                d = dj
                break

        mism = {}  # (i, ctx) -> [first mismatch text, count]

        def compare(sm, j):
            for i in idxs:
                exp = self.M[i][j]
                r = res[i]
                if exp is None:
                    r.n_skip += 1
                    continue
                r.n_cmp += 1
                r.values.add(exp)
                for ctx, port in (("c", f"o{i}"), ("s", f"q{i}")):
                    got = sm.get(port)
                    if isinstance(got, bool):
                        got = int(got)
                    if got != exp:
                        m = mism.setdefault((i, ctx), [None, 0])
                        m[1] += 1
                        if m[0] is None:
                            m[0] = (f"{self._valtxt(j)}: port {port} = "
                                    f"{'undefined (' + str(sm.get_str(port)) + ')' if got is None else got}, "
                                    f"documented {exp}")

        sim, rebuilds, ok_vals, pending, elab_err = None, 0, [], [], None
        for j, poke in _enum(self.pokes):
            clean = all(self.M[i][j] is not None for i in idxs)
            try:
                if sim is None:
                    sim = fresh()
                sim.clock("clk", **poke)
            except Blocked as b:
                if len(idxs) > 1:
                    return self._singles(idxs, simulate, res)
                res[idxs[0]].status, res[idxs[0]].why = "blocked", str(b)[:200]
                return res
            except SimError as e:
                sim = None
                rebuilds += 1
                if clean:
                    pending.append((j, e))
                else:
                    self.count("valuations_sim_error_where_model_undetermined")
                if rebuilds > _MAX_REBUILD:
                    self.count("valuations_dropped_after_many_sim_errors", len(self.pokes) - j - 1)
                    break
                continue
            ok_vals.append(j)
            compare(sim, j)
        # a run-time error on a valuation where the model determines every value: transient (a delta-cycle glitch of
        # the concurrent temporaries that depends on the previous valuation) or independent of the history?
        genuine = []
        for j, e in pending:
            step = max(1, len(ok_vals) // 80)
            routes = ok_vals[::step][:80]
            done = False
            for r_ in routes:
                try:
                    sm = fresh()
                    sm.clock("clk", **self.pokes[r_])
                    sm.clock("clk", **self.pokes[j])
                except SimError:
                    continue
                compare(sm, j)
                done = True
                break
            if done:
                self.count("valuations_transient_sim_error")
            else:
                genuine.append((j, e))
        if genuine:
            if len(idxs) > 1:
                return self._singles(idxs, simulate, res)
            if not self._confirmed_in_process(idxs[0], genuine[0][0]):
                # only the concurrent statements fault: a glitch of the chained temporaries cannot be excluded
                self.count("valuations_sim_error_concurrent_only_not_judged", len(genuine))
                genuine = []
        if genuine:
            r = res[idxs[0]]
            j, e = genuine[0]
            r.findings.append(("c", f"sim_error:{e.kind}",
                               f"{self._valtxt(j)}: VHDL run-time error {e}; model value {self.M[idxs[0]][j]} "
                               f"[{len(genuine)} of {len(self.pokes)} valuations; reached from "
                               f"{min(80, len(ok_vals)) + 1} different previous valuations]"))
            r.n_cmp += len(genuine)
        for (i, ctx), m in mism.items():
            res[i].findings.append((ctx, "value", f"{m[0]}  [{m[1]} of {res[i].n_cmp} valuations differ]"))
        for i in idxs:
            res[i].status = "compared" if res[i].n_cmp else "typeonly"
        return res

    def _confirmed_in_process(self, i, j):
        """does valuation j also fault in a design that evaluates expression i in the clocked process only (variables,
        program order: no delta-cycle glitches)?  True when that cannot be refuted."""
        from cv.harness import loader
        from cv.vhdl.analyze import analyse
        from cv.vhdl.sim import Blocked, Sim
        from cv.vhdl.values import SimError

        src = self.R.design([i], self.types, contexts=("s",))
        self.count("compilations")
        try:
            vhdl = loader.compile_source(src)
        except loader.Rejected:
            return True
        d = analyse(_with_input_defaults(vhdl, self.slots, self.pokes[j]))
        if d.errors or d.unsupported:
            return True
        try:
            sm = Sim(d, top="Top")
            sm.poke(clk=0)
            sm.clock("clk", **self.pokes[j])
            sm.clock("clk", **self.pokes[j])
        except SimError:
            return True
        except Blocked:
            return True
        return False

    def _singles(self, idxs, simulate, res0=None):
        self.count("packed_designs_split_into_singles")
        out = {}
        for i in idxs:
            out[i] = self.run([i], simulate)[i]
        return out

    def _split(self, idxs, culprits, simulate):
        """re-run a packed design that was rejected / has static errors: the suspected expressions alone, the
        others together (recursively); all alone when no suspect could be determined."""
        culprits = [i for i in idxs if i in culprits]
        if not culprits or len(culprits) == len(idxs):
            return self._singles(idxs, simulate)
        self.count("packed_designs_split")
        out = {}
        for i in culprits:
            out[i] = self.run([i], simulate)[i]
        out.update(self.run([i for i in idxs if i not in culprits], simulate))
        return out

    @staticmethod
    def _culprits_rejected(idxs, sink):
        """the probe of expression i runs after its evaluation and before its assignment; tracing is in order."""
        for ctx in ("c", "s"):
            done = [i for c, i, _ in sink if c == ctx]
            if len(done) < len(idxs):
                k = len(done)  # idxs[k] was being evaluated, idxs[k-1] possibly being assigned
                return set(idxs[max(0, k - 1):k + 1])
        return {idxs[-1]}

    @staticmethod
    def _culprits_static(idxs, vhdl, d):
        lines = vhdl.splitlines()
        out = set()
        if d.unsupported:
            return out
        for e in d.errors:
            n = (e.line or 0) - 1
            while n >= 0 and not lines[n].strip().startswith("-- X"):
                if lines[n].strip().startswith("-- CONCURRENT BLOCK") or lines[n].strip().startswith("begin"):
                    n = -1
                    break
                n -= 1
            if n < 0:
                return set()
            try:
                out.add(int(lines[n].strip()[4:]))
            except ValueError:
                return set()
        return out

    def _valtxt(self, j):
        return "inputs " + ", ".join(f"{k}={v}" for k, v in self.pokes[j].items())

    # -- the whole case
    def evaluate(self):
        n = len(self.case["exprs"])
        unspec = [i for i in range(n) if self.types[i] is None]
        simable = [i for i in range(n) if i not in unspec and any(v is not None for v in self.M[i])]
        typeonly = [i for i in range(n) if i not in unspec and i not in simable]
        res = {i: _Res("unspec") for i in unspec}
        res.update(self.run(simable, True))
        res.update(self.run(typeonly, False))
        return res


def _with_input_defaults(vhdl, slots, poke):
    """add `:= value` to the input ports of entity Top."""
    import re

    out, inside = [], False
    widths = {s[0]: s[2] for s in slots}
    for ln in vhdl.split("\n"):
        st = ln.strip()
        if st.startswith("entity Top is"):
            inside = True
        elif inside and st.startswith("end"):
            inside = False
        elif inside:
            m = re.match(r"^(\s*)(\w+) : in (\w+)(\([^)]*\))?(;?)\s*$", ln)
            if m and m.group(2) in poke:
                v, ty = poke[m.group(2)], m.group(3)
                if ty == "std_logic":
                    lit = f"'{int(v) & 1}'"
                elif ty == "boolean":
                    lit = "true" if v else "false"
                else:
                    lit = '"' + format(int(v), f"0{widths[m.group(2)]}b") + '"'
                ln = f"{m.group(1)}{m.group(2)} : in {ty}{m.group(4) or ''} := {lit}{m.group(5)}"
        out.append(ln)
    return "\n".join(out)


def _line(vhdl, n):
    ls = vhdl.splitlines()
    return ls[n - 1].strip() if n and 0 < n <= len(ls) else ""


# ----------------------------------------------------------------------------- signatures
def _int_side(t):
    if len(t) == 3 and t[0] in rv.BINARY:
        a, b = t[1][0] == "lit", t[2][0] == "lit"
        return {(False, False): "none", (True, False): "lhs", (False, True): "rhs", (True, True): "both"}[(a, b)]
    return "some" if any(c[0] in ("lit", "kb", "kbit") for c in G.children(t)) else "none"


def _signature(R, t, ctx, div):
    kids = G.children(t)
    kinds, widths = [], []
    for c in kids:
        if c[0] in ("lit", "kb", "kbit"):
            kinds.append({"lit": "int", "kb": "const_bool", "kbit": "const_bit"}[c[0]])
            widths.append(None)
        elif c[0] == "kv":
            kinds.append("const_" + c[1])
            widths.append(c[2])
        else:
            ty = R.stype(c)
            kinds.append(_kind_name(ty))
            widths.append(ty[1] if ty and ty[0] in rv.VEC else None)
    if t[0] in ("aconst", "aidx"):
        p = R.ptypes[t[1]]
        kinds.insert(0, f"arr:{p[1]}")
    if t[0] in G.NARY:
        kinds = sorted(set(kinds))  # one root cause, not one signature per operand arrangement
    sig = {"op": t[0], "kinds": kinds, "int_side": _int_side(t), "ctx": CTX[ctx], "divergence": div}
    if len(kids) == 2 and None not in widths:
        sig["wrel"] = "eq" if widths[0] == widths[1] else "lt" if widths[0] < widths[1] else "gt"
    if any(not G.is_leaf(c) for c in kids):
        sig["operands"] = ["leaf" if G.is_leaf(c) else c[0] for c in kids]
    if div.startswith("sim_error") and any(not -(1 << 31) <= n < (1 << 31) for n in G._tree_lits(t)):
        sig["big_literal"] = True  # int literal outside the 32 bit range of VHDL INTEGER
    return sig


def _localize(case, t, ctx, div):
    """smallest sub-expression of t that diverges on its own (same context), else t."""
    subs, seen = [], set()
    for s in G.subtrees_postorder(t):
        k = json.dumps(s)
        if s is t or k in seen or not G.has_runtime(s):
            continue
        seen.add(k)
        subs.append(s)
    if not subs:
        return t, None
    sub_case = dict(case, exprs=subs)
    run = _Run(sub_case, localize=False)
    res = run.evaluate()
    for i, s in _enum(subs):
        for c, dv, detail in res[i].findings:
            if c == ctx and dv.split(":")[0] == div.split(":")[0]:
                return s, detail
    return t, None


# ----------------------------------------------------------------------------- check
_FOLD_EXPR = {"add": "a + b", "sub": "a - b", "mul": "a * b", "truncdiv": "op.truncdiv(a, b)", "mod": "a % b",
              "rem": "op.rem(a, b)", "eq": "a == b", "ne": "a != b", "lt": "a < b", "le": "a <= b", "gt": "a > b",
              "ge": "a >= b", "concat": "a @ b", "and": "a & b", "or": "a | b", "xor": "a ^ b"}


def _check_fold(cell):
    """Python-level constant folding of `op` on two constant Signed / Unsigned objects of widths wa, wb for ALL
    value pairs, against two's complement arithmetic on the extended operands with the documented result width."""
    from cohdl import Signed, Unsigned, op as cop

    o, kind, wa, wb = cell
    out = Outcome()
    T = {"s": Signed, "u": Unsigned}[kind]
    code = compile(_FOLD_EXPR[o], f"<c02-fold:{o}>", "eval")
    name = f"fold:{o}({kind}[{wa}],{kind}[{wb}])"
    n_cmp = n_rej = n_skip = 0
    seen = set()
    wrel = "eq" if wa == wb else "lt" if wa < wb else "gt"
    (la, ha), (lb, hb) = rv.value_range(kind, wa), rv.value_range(kind, wb)
    for x in range(la, ha + 1):
        for y in range(lb, hb + 1):
            m = rv.apply(o, [rv.make(kind, wa, x), rv.make(kind, wb, y)])
            if m is UNSPEC or m.value is None:
                n_skip += 1
                continue
            try:
                with contextlib.redirect_stdout(io.StringIO()):
                    r = eval(code, {"a": T[wa](x), "b": T[wb](y), "op": cop, "__builtins__": {}})
            except (KeyboardInterrupt, SystemExit):
                raise
            except Exception:  # noqa: BLE001 - a rejection by cohdl is never a violation
                n_rej += 1
                continue
            obs = _observe_type(r)
            if obs[0] != m.kind:
                div, got = "kind", obs
            elif obs[1] != m.width:
                div, got = "width", obs
            else:
                if obs[0] == "bool":
                    got = int(bool(r))
                else:
                    bits = str(r.bitvector)
                    got = rv.wrap(obs[0], obs[1], int(bits, 2)) if set(bits) <= {"0", "1"} else bits
                div = None if got == m.value else "value"
            n_cmp += 1
            if div and div not in seen:
                seen.add(div)
                out.add({"op": o, "kinds": [f"const_{kind}", f"const_{kind}"], "int_side": "none", "ctx": "python",
                         "divergence": div, "wrel": wrel},
                        f"{T.__name__}[{wa}]({x}) {_FOLD_EXPR[o]} {T.__name__}[{wb}]({y}) folds to {got}, documented {m}")
    out.counters.update({"fold_values_compared": n_cmp, "fold_rejected": n_rej, "fold_model_undetermined": n_skip})
    out.labels += [f"fold:{o}", "fold_level_python"]
    out.status = "ok" if n_cmp else ("rejected" if n_rej else "unspecified")
    out.nontrivial = n_cmp >= 2
    out.identity = name
    if n_cmp:
        out.exhaustive_cell = name
    return out


def check(case):
    if "fold" in case:
        return _check_fold(case["fold"])
    out = Outcome()
    run = _Run(case)
    res = run.evaluate()
    R = run.R
    exprs = case["exprs"]
    st = {}
    done_sigs = set()
    for i, t in _enum(exprs):
        r = res[i]
        st[r.status] = st.get(r.status, 0) + 1
        root = t[0]
        out.labels.append(f"{root}:{r.status}")
        for l in r.labels:
            out.labels.append(f"static:{l}:{root}")
        if r.status == "compared":
            out.counters["exprs_compared"] = out.counters.get("exprs_compared", 0) + 1
            out.counters["values_compared"] = out.counters.get("values_compared", 0) + 2 * r.n_cmp
            out.counters["values_skipped_model_undetermined"] = out.counters.get(
                "values_skipped_model_undetermined", 0) + r.n_skip
            if len(r.values) >= 2 and G.has_runtime(t):
                out.nontrivial = True
                out.counters["exprs_nontrivial"] = out.counters.get("exprs_nontrivial", 0) + 1
            for o in set(G.ops_of(t)):
                out.labels.append(f"op:{o}")
        else:
            out.counters["exprs_" + r.status] = out.counters.get("exprs_" + r.status, 0) + 1
            if r.status == "blocked":
                k = "blocked:" + r.why[:90]
                out.counters[k] = out.counters.get(k, 0) + 1
            elif r.status == "static":
                for l in set(r.labels):
                    k = f"static:{l}:{root}"
                    out.counters[k] = out.counters.get(k, 0) + 1
        for ctx, div, detail in r.findings:
            bt, bdetail = t, None
            if G.n_ops(t) > 1 and run.do_localize and div not in ("kind", "width"):
                bt, bdetail = _localize(case, t, ctx, div)
            elif G.n_ops(t) > 1 and div in ("kind", "width"):
                bt, bdetail = _localize(case, t, ctx, div)
            sig = _signature(R, bt, ctx, div)
            key = json.dumps(sig, sort_keys=True)
            if key in done_sigs:
                continue
            done_sigs.add(key)
            txt = f"{R.rx(t)}  [{CTX[ctx]} context]\n  ports: {G.rv_key(case['ports'])}\n  {detail}"
            if bt is not t:
                txt += f"\n  smallest diverging sub-expression: {R.rx(bt)}\n  {bdetail}"
            if r.why:
                txt += f"\n  ({r.why})"
            out.add(sig, txt)
    for k, v in run.counters.items():
        out.counters[k] = out.counters.get(k, 0) + v
    out.counters["valuations"] = len(run.vals)
    if run.static_notes:
        out.counters["static_errors"] = len(run.static_notes)
    out._static_notes = run.static_notes  # not serialised; used by tools / debugging
    if st.get("compared"):
        out.status = "ok"
        if run.exhaustive:
            out.exhaustive_cell = G.rv_key(case["ports"]) + "#" + "+".join(sorted({t[0] for t in exprs}))
    elif st.get("static"):
        out.status = "blocked_by_static"
    elif st.get("blocked"):
        out.status = "blocked"
    elif st.get("rejected"):
        out.status = "rejected"
    elif st.get("typeonly"):
        out.status = "ok"
    else:
        out.status = "unspecified"
    out.labels.append("exhaustive" if run.exhaustive else "sampled")
    return out


def view(case):
    if "fold" in case:
        return {"fold": case["fold"]}
    R = G.Renderer(case)
    return {"ports": G.rv_key(case["ports"]), "exprs": [R.rx(t) for t in case["exprs"]],
            "valuations": "all" if G.total_bits(case) <= case.get("exh", 10) else "corners+drawn"}


def selfcheck():
    rv.selfcheck()
    vx.selfcheck()
