"""C03 - sequential and concurrent contexts obey hardware assignment semantics.

Generated bodies of clocked sequential contexts, combinational (`std.sequential` without
clock) contexts and concurrent contexts in the statement language of cv/gen/stmt.py are
compiled by cohdl, the emitted VHDL is simulated by cv.vhdl, and after every step every
output port and internal signal is compared with the reference interpreter cv/ref/seq.py
run on the same spec."""
from __future__ import annotations

from hypothesis import strategies as st

from cv.gen import stmt as G
from cv.props import _stmt as S

PROPERTY = "C03"
TECHNIQUE = "grammar-based program generation (Hypothesis) + differential simulation against a reference interpreter"
RULE = (
    "case = generated body (if/elif/else, match, for-break[-else], helper calls with returns in branches, <<=, .next, @=, "
    ".value, ^=/.push, slice and bit targets, local Signal/Variable declarations, cohdl.always) of a clocked / combinational / "
    "concurrent context + drawn input sequence (24 steps); compared after every step on every output and internal signal. "
    "non-trivial = on the executed path the reference recorded at least one of: two writes to one signal in a step, a signal "
    "holding its value, a push followed by a default step, a taken for-else / match default / no-branch if, a helper return "
    "in a nested branch, an always expression, a locally declared signal; distinct = hash of the spec"
)
ASSUMPTIONS = [
    "VHDL semantics as implemented by cv.vhdl (calibrated on 254 upstream ghdl benches)",
    "a Signal declared inside a body reads, for the rest of that activation, as the value it was constructed with",
    "push targets are only assigned with ^= / .push (mixing <<= and ^= on one signal is not generated)",
    "objects without default are compared only once the reference defines their value",
]

NT = {"double_write", "hold", "push_default_step", "for_else", "match_default", "if_no_branch", "helper_return", "always",
      "local_signal", "match_none"}


def plan(tier):
    per = 40 if tier == "quick" else 400
    n = {"quick": (8, 4, 4), "thorough": (24, 12, 12)}[tier]
    shards = []
    for fl, cnt in zip(("seq", "comb", "conc"), n):
        for i in range(cnt):
            shards.append({"kind": "hyp", "name": f"{fl}{i}", "examples": per, "flavor": fl})
    return shards


@st.composite
def _case(draw, flavor):
    spec = draw(G.design(flavor, max_stmts=5, depth=2))
    stim = draw(G.stimulus(spec, 24 if flavor == "seq" else 12))
    return {"spec": spec, "stim": stim}


def strategy(shard):
    return _case(shard["flavor"])


def _nontrivial(spec, m, info):
    return bool(NT & m.labels) and info.get("steps", 0) >= 3


def check(case):
    return S.check_design(case, PROPERTY, explore_cap=0, nontrivial_rule=_nontrivial)


view = S.view
