"""C17 - serialisation round-trips with the documented bit layout.

A case is a TypeSpec (cv/ref/layout.py) plus drawn bit patterns.  The cohdl types are
built at run time from rendered source (cv/gen/c17_types.py); the expected values come
from cv.ref.layout only (first record field / array element 0 in the least significant
bits).  Observation levels (DESIGN.md, note for C17-C19):

  P  plain Python on constants           - every pattern when width <= 10
  T  traced in `@std.concurrent`, results captured by a `@cohdl.pyeval` probe
  S  simulated emitted logic (cv.vhdl): the round-trip entity of `render_sim_entity` is compiled,
     analysed and simulated over the same pattern list as level P: o1 == i and every leaf
     output == its reference slice; BitField entity: field reads r<k>, and w<k> = copy of i with
     field k overwritten by input v<k>.  A finding at S carries the level name "S!=P" / "S!=T"
     when that level had the right value for the same pattern, plain "S" otherwise.

Laws, for a type T of reference width w and a pattern b:
  count      count_bits(T) == w == count_bits(instance)
  tf         to_bits(from_bits[T](b)) == b, width(to_bits(..)) == count_bits(T)
  from_layout the leaf members of from_bits[T](b) are the reference slices of b
  to_layout  to_bits(make(unpack(b))) == b   (value built through the constructors)
  ft         leaves(from_bits[T](to_bits(x))) == leaves(x)
BitField: every field reads `bits[hi:lo]` of the wrapped vector; assigning a field
changes exactly `bits[hi:lo]`.
"""
from __future__ import annotations

import builtins
import contextlib
import functools
import io
import itertools
import operator
import re

from hypothesis import strategies as st

from cv.gen import c17_types as G
from cv.harness.loader import Rejected, compile_entity, load_module, unload_module
from cv.harness.runner import Outcome, case_id
from cv.ref import layout as L

PROPERTY = "C17"
TECHNIQUE = (
    "property-based testing: Hypothesis-generated type compositions (plus an enumerated catalogue of depth<=2 "
    "compositions) x exhaustive/corner/drawn bit patterns against an independent bit-layout reference model; "
    "round-trip laws; three observation levels (plain Python, traced constants, simulated emitted VHDL)"
)
RULE = (
    "case = TypeSpec of composite depth <= 3 over Bit | bool | bv/u/s[1..5] | cohdl.Array | std.Array | "
    "std.Record (plain, inherited, templated by width / TemplateArg pair / TemplateArg.Type) | std.Enum/FlagEnum | "
    "SFixed/UFixed | Serialized, or a BitField[1..12] with Bit/vector/sub-bitfield members, plus drawn bit "
    "patterns (all 2^w patterns when w <= 10, else corners + walking one/zero + draws); non-trivial = cohdl "
    "accepted the type at level P and (type case) composite depth >= 2 with some record/array of uneven member "
    "widths, (bitfield case) >= 2 fields of which one is a vector or sub-bitfield not starting at bit 0; "
    "distinct = hash of the TypeSpec"
)
ASSUMPTIONS = [
    "documented layout = first record field (inherited fields first) and array element 0 in the least "
    "significant bits, members packed without gaps; Enum = its underlying value; SFixed/UFixed = raw bits; "
    "Serialized[T] holds to_bits(T) (its own API from_raw/bits/value is used, it has no _to_bits_ protocol)",
    "plain-Python level: a Signal assigned with <<= outside a context takes the value immediately (used only to "
    "observe BitField writes)",
    "level S: cv.vhdl is the trusted simulator; static errors of the emitted VHDL are blocked_by_static (owned by C06), "
    "constructs outside its subset are blocked; a VHDL run-time error or an undefined ('U'/'X') output for a defined "
    "input is a violation with its own signature",
    "levels T and S are sampled (a quarter / half of the generated types with <= 30/24 leaf members, an eighth / "
    "a fifth of the catalogue, every BitField and template pair) because one traced compile costs 0.3-5 s; level P runs on every case",
    "a cohdl exception at any step is `rejected` for that step, never a violation",
]
LEVEL = "exploration"

T_BUDGET = 12  # leaf-observations budget per traced compile (tracing costs 0.1-0.7 s per leaf and pattern)


# ---------------------------------------------------------------------------------- plan
def plan(tier):
    if tier == "quick":
        n_t, per_t, n_b, per_b, n_c = 11, 32, 2, 16, 3
    else:
        n_t, per_t, n_b, per_b, n_c = 56, 260, 8, 400, 8
    shards = [{"kind": "hyp", "name": f"type{i}", "examples": per_t, "what": "type"} for i in range(n_t)]
    shards += [{"kind": "hyp", "name": f"bf{i}", "examples": per_b, "what": "bitfield"} for i in range(n_b)]
    n_p, per_p = (1, 10) if tier == "quick" else (4, 200)
    shards += [{"kind": "hyp", "name": f"pair{i}", "examples": per_p, "what": "tmplpair"} for i in range(n_p)]
    n_h, per_h = (1, 12) if tier == "quick" else (4, 250)
    shards += [{"kind": "hyp", "name": f"hist{i}", "examples": per_h, "what": "inherit_hist"} for i in range(n_h)]
    shards += [{"kind": "enum", "name": f"catalog{i}", "part": i, "parts": n_c, "tier": tier} for i in range(n_c)]
    return shards


def strategy(shard):
    if shard["what"] == "bitfield":
        return G.bitfield_case()
    if shard["what"] == "tmplpair":
        return G.tmplpair_case()
    if shard["what"] == "inherit_hist":
        return G.inherit_hist_case()
    return G.type_case(depth=3)


# -- enumerated catalogue: every depth-1 composite over the leaf alphabet and the depth-2
#    "array of record with uneven fields" / "record of arrays" family, all patterns.
def _catalog():
    bit, boo = {"k": "bit"}, {"k": "bool"}
    vecs = [{"k": k, "w": w} for k in ("bv", "u", "s") for w in (1, 2, 3, 5)]
    fx = [{"k": "sfix", "l": 1, "r": -1}, {"k": "ufix", "l": 3, "r": 2}, {"k": "sfix", "l": -1, "r": -2}]
    en = [{"k": "enum", "u": {"k": "u", "w": 2}, "members": [1, 2]},
          {"k": "flag", "u": {"k": "bv", "w": 3}, "members": [1, 2, 4]}]
    builtin = [bit] + vecs
    leaves = [bit, boo] + vecs + fx + en
    small = [bit, boo, {"k": "bv", "w": 2}, {"k": "u", "w": 3}, {"k": "s", "w": 1}, fx[0], en[0]]
    out = list(leaves)
    for n in (1, 2, 3):
        out += [{"k": "carr", "e": e, "n": n} for e in builtin]
        out += [{"k": "sarr", "e": e, "n": n} for e in leaves]
    recs = []
    for a in small:
        for b in small:
            recs.append(G._mkrec([], [a, b], None))
    out += recs
    for a in small:
        out.append(G._mkrec([a], [], None))
        out.append(G._mkrec([a], [{"k": "u", "w": 2}], None))
        out.append(G._mkrec([], [dict(a, via="t"), bit], {"kind": "type", "arg": a}))
        out.append(G._mkrec([], [bit, dict(a, via="a1"), dict(bit, via="a0")], {"kind": "pair", "args": [bit, a]}))
    for w in (1, 2, 3):
        out.append(G._mkrec([], [bit, {"k": "u", "w": w, "via": "w"}, {"k": "s", "w": w, "via": "w"}],
                            {"kind": "width", "w": w}))
    # depth 2: arrays of uneven records, records of arrays, nested arrays
    for r in recs:
        if L.width(r) <= 5:
            out.append({"k": "sarr", "e": r, "n": 2})
        if L.width(r) <= 3:
            out.append({"k": "sarr", "e": r, "n": 3})
    for e in (bit, {"k": "bv", "w": 2}, {"k": "s", "w": 3}):
        for n in (2, 3):
            inner_c = {"k": "carr", "e": e, "n": n}
            inner_s = {"k": "sarr", "e": e, "n": n}
            out.append({"k": "carr", "e": inner_c, "n": 2})
            out.append({"k": "sarr", "e": inner_c, "n": 2})
            out.append({"k": "sarr", "e": inner_s, "n": 2})
            out.append(G._mkrec([], [bit, inner_c, inner_s], None))
            out.append(G._mkrec([inner_s], [{"k": "u", "w": 2}], None))
            out.append({"k": "ser", "e": inner_s})
    for r in recs[:14]:
        out.append({"k": "ser", "e": r})
        out.append(G._mkrec([], [r, {"k": "bv", "w": 1}], None))
    return [s for s in out if L.width(s) <= 10]


def enumerate(shard):
    # quick tier: the catalogue entries of at most 8 bits (256 patterns each); thorough: all (<= 10 bits)
    cat = [s for s in _catalog() if shard.get("tier") != "quick" or L.width(s) <= 8]
    for i, spec in builtins.enumerate(cat):
        if i % shard["parts"] == shard["part"]:
            yield {"kind": "type", "spec": spec, "draws": [], "catalog": True}


# ---------------------------------------------------------------------------------- helpers
@contextlib.contextmanager
def _quiet():
    buf = io.StringIO()
    with contextlib.redirect_stdout(buf), contextlib.redirect_stderr(buf):
        yield


class _Rej(Exception):
    def __init__(self, step, exc):
        super().__init__(f"{step}: {type(exc).__name__}: {exc}")
        self.step = step
        self.exc_type = type(exc).__name__


def _call(step, fn, *a):
    """call into cohdl; any exception is a rejection of that step"""
    try:
        return fn(*a)  # stdout is redirected once around the whole check (see check())
    except (KeyboardInterrupt, SystemExit, RecursionError, MemoryError):
        raise
    except Exception as e:  # noqa: BLE001
        raise _Rej(step, e) from None


class _Co:
    """cohdl names, imported once (function-level imports cost ~1 us each, millions of calls)"""

    ready = False

    @classmethod
    def load(cls):
        if not cls.ready:
            import cohdl
            from cohdl import Bit, BitVector, Signed, Unsigned
            from cohdl._core._type_qualifier import TypeQualifierBase

            cls.Bit, cls.BitVector, cls.Signed, cls.Unsigned = Bit, BitVector, Signed, Unsigned
            cls.Boolean = cohdl.Boolean
            cls.TQB = TypeQualifierBase
            cls.std = cohdl.std
            cls.ready = True
        return cls


def _bits(w, value):
    return _Co.load().BitVector[w](format(value, f"0{w}b"))


def _signed(raw, w):
    return raw - (1 << w) if raw >> (w - 1) else raw


def _const_leaf(leaf, raw):
    c = _Co.load()
    Bit, Signed, Unsigned = c.Bit, c.Signed, c.Unsigned
    k = leaf["k"]
    if k == "bit":
        return Bit(bool(raw))
    if k == "bool":
        return bool(raw)
    w = L.width(leaf)
    if k == "bv":
        return _bits(w, raw)
    if k in ("u", "ufix"):
        return Unsigned[w](raw)
    if k in ("s", "sfix"):
        return Signed[w](_signed(raw, w))
    raise ValueError(k)


def _const_tree(spec, value):
    k = spec["k"]
    if k in L.LEAF_KINDS:
        return _const_leaf(spec, value)
    if k in ("carr", "sarr"):
        return [_const_tree(spec["e"], v) for v in value]
    if k == "rec":
        return [_const_tree(s, v) for (_, s), v in zip(L.rec_fields(spec), value)]
    if k in ("enum", "flag"):
        return _const_tree(spec["u"], value)
    if k == "ser":
        return _const_tree(spec["e"], value)
    raise ValueError(k)


class _NonConst(Exception):
    pass


def _norm(obj, leaf, allow_qualified=False):
    """(raw unsigned value, type_ok) of an observed leaf"""
    c = _Co.load()
    Bit, BitVector, Signed, Unsigned, TypeQualifierBase = c.Bit, c.BitVector, c.Signed, c.Unsigned, c.TQB
    if isinstance(obj, TypeQualifierBase) and not allow_qualified:
        raise _NonConst()
    d = TypeQualifierBase.decay(obj)
    k = leaf["k"]
    if k == "bit":
        if not isinstance(d, Bit):
            return None, False
        return int(bool(d)), True
    if k == "bool":
        if not isinstance(d, (bool, c.Boolean)):
            return None, False
        return int(bool(d)), True
    w = L.width(leaf)
    cls = {"bv": BitVector, "u": Unsigned, "s": Signed}.get(k, BitVector)[w]
    if not isinstance(d, BitVector):
        return None, False
    if d.width != w:
        return None, False
    return d.bitvector.unsigned.to_int(), isinstance(d, cls)


def _vec_value(obj, allow_qualified=False):
    c = _Co.load()
    BitVector, TypeQualifierBase = c.BitVector, c.TQB

    if isinstance(obj, TypeQualifierBase) and not allow_qualified:
        raise _NonConst()
    d = TypeQualifierBase.decay(obj)
    if not isinstance(d, BitVector):
        return None, None
    return d.bitvector.unsigned.to_int(), d.width


def _path_kinds(path, leaf):
    kinds = []
    for kind, _ in path:
        if not kinds or kinds[-1] != kind:
            kinds.append(kind)
    return "/".join(kinds + [leaf["k"]])


def _top(spec):
    k = spec["k"]
    if k == "rec":
        if spec.get("ext"):
            if spec["ext"]["expr"].startswith("C"):
                return "rec:chain_derived" if spec.get("base") else "rec:chain_base"
            return "rec:tmpl_derived" if spec.get("base") else "rec:tmpl_base"
        tm = spec.get("tmpl")
        return "rec:" + (tm["kind"] if tm else ("inherit" if spec.get("base") else "plain"))
    return k


# ---------------------------------------------------------------------------------- type cases
class _TypeChecker:
    def __init__(self, case, out: Outcome):
        self.case = case
        self.spec = case["spec"]
        self.out = out
        self.w = L.width(self.spec)
        self.table = L.leaf_table(self.spec)
        self.rejected_steps = set()
        self.cur_b = None
        self.seen = {"P": set(), "T": set()}  # patterns observed at a level
        self.bad = {"P": set(), "T": set()}  # patterns with a finding at that level
        self.s_status = None

    def count(self, name, n=1):
        self.out.counters[name] = self.out.counters.get(name, 0) + n

    def finding(self, law, level, where, detail):
        # provisional signature; _blame() below replaces law/top/where by the root-cause triple
        # (level, direction, smallest sub-type that fails on its own)
        if level in self.bad:
            self.bad[level].add(self.cur_b)
        self.out.add({"law": law, "level": level, "top": _top(self.spec), "where": where},
                     f"[{law} at {where}] " + detail)

    # compare one observation bundle against the reference for pattern b
    def cmp_leaves(self, law, level, lv, b, tag=""):
        exp = L.flat_leaves(self.spec, L.unpack(self.spec, b))
        if len(lv) != len(exp):
            raise AssertionError("renderer/reference leaf count mismatch")
        for obj, e, (path, leaf, off, lw) in zip(lv, exp, self.table):
            obs_leaf = leaf if leaf["k"] not in ("sfix", "ufix") else {"k": "bv", "w": lw}
            got, tok = _norm(obj, obs_leaf)
            self.count(f"{level}_leaf_checks")
            if got is None or not tok:
                self.finding(law + "_type", level, _path_kinds(path, leaf),
                             f"{tag}pattern {b:0{self.w}b}: leaf {path} is {type(obj).__name__} {obj!r}, expected {leaf}")
            elif got != e:
                self.finding(law, level, _path_kinds(path, leaf),
                             f"{tag}pattern {b:0{self.w}b}: leaf {path} (bits {off + lw - 1}:{off}) = {got:0{lw}b}, "
                             f"reference {e:0{lw}b}")

    def cmp_bits(self, law, level, obj, b, nbits, tag=""):
        got, gw = _vec_value(obj)
        self.count(f"{level}_bits_checks")
        if got is None:
            self.finding(law + "_type", level, "result", f"{tag}to_bits returned {type(obj).__name__}")
            return
        if gw != nbits:
            self.finding("width", level, "result", f"{tag}to_bits width {gw}, count_bits {nbits}")
        if gw != self.w:
            self.finding("width", level, "reference", f"{tag}to_bits width {gw}, reference width {self.w}")
            return
        if got != b:
            self.finding(law, level, L.blame(self.spec, b, got),
                         f"{tag}to_bits = {got:0{self.w}b}, expected {b:0{self.w}b}")

    def step(self, name, fn, *a):
        """returns (ok, value); records a rejection of this step once"""
        try:
            return True, _call(name, fn, *a)
        except _Rej as r:
            if name not in self.rejected_steps:
                self.rejected_steps.add(name)
                self.out.labels.append(f"rejected:{name}:{r.exc_type}")
            return False, None

    # ------------------------------------------------------------------ level P
    def level_p(self, mod, pats):
        out = self.out
        ok, n = self.step("count_bits", mod.nbits)
        if not ok:
            return False
        if n != self.w:
            self.finding("count", "P", "type", f"count_bits = {n}, reference width {self.w}")
            return True  # patterns of the reference width cannot be fed
        has_sarr = "sarr" in L.kinds(self.spec)
        tail = set(pats[-48:])
        # the classes behind FlagEnum / Enum members are what the TypeSpec says (a FlagEnum specialisation must
        # not be the cached Enum specialisation of the same underlying type, or vice versa)
        fe = _Co.load().std.FlagEnum
        for cls in getattr(mod, "FLAGS", []):
            if not issubclass(cls, fe):
                self.finding("class_identity", "P", "flag", f"{cls.__name__}(std.FlagEnum[U]) is not a subclass of "
                             f"std.FlagEnum: mro {[c.__name__ for c in cls.__mro__[:4]]}")
        for cls in getattr(mod, "ENUMS", []):
            if issubclass(cls, fe):
                self.finding("class_identity", "P", "enum", f"{cls.__name__}(std.Enum[U]) is a subclass of std.FlagEnum: "
                             f"mro {[c.__name__ for c in cls.__mro__[:4]]}")
        done = 0
        for b in pats:
            self.cur_b = b
            ok, x = self.step("from_bits", mod.frombits, _bits(self.w, b))
            if not ok:
                break
            done += 1
            self.seen["P"].add(b)
            ok, tb = self.step("to_bits", mod.tobits, x)
            if ok:
                self.cmp_bits("tf", "P", tb, b, n)
            ok, ni = self.step("count_bits_inst", mod.nbits_inst, x)
            if ok and ni != self.w:
                self.finding("count", "P", "instance", f"count_bits(instance) = {ni}, reference width {self.w}")
            ok, lv = self.step("leaves", mod.leaves, x)
            if ok:
                self.cmp_leaves("from_layout", "P", lv, b)
            if has_sarr:
                ok, lv = self.step("leaves_idx", mod.leaves_idx, x)
                if ok:
                    self.cmp_leaves("from_layout", "P", lv, b, tag="[] access: ")
            consts = _const_tree(self.spec, L.unpack(self.spec, b))
            # the value built through the public constructors, in every construction style (keywords in
            # declaration order, all positional, keywords reversed, positional + keywords, copy of reversed)
            styles = getattr(mod, "STYLES", ["kw"])
            if len(pats) > 48 and b not in tail:
                styles = ["kw"]  # the other construction styles on the last 48 patterns (incl. all draws) only
            for style in styles:
                mk = mod.make if style == "kw" else getattr(mod, "make_" + style)
                tag = "" if style == "kw" else f"[constructed {style}] "
                sfx = "" if style == "kw" else "_" + style
                ok, y = self.step("make" + sfx, mk, consts)
                if not ok:
                    continue
                self.count("P_made_" + style)
                ok, by = self.step("to_bits_made" + sfx, mod.tobits, y)
                if ok:
                    self.cmp_bits("to_layout", "P", by, b, n, tag=tag)
                    ok, z = self.step("from_bits_made" + sfx, mod.frombits, by)
                    if ok:
                        ok, lv = self.step("leaves", mod.leaves, z)
                        if ok:
                            # from_bits(to_bits(y)) == y, observed on the leaves (y was built from them)
                            got_by, _ = _vec_value(by)
                            if got_by is not None:
                                self.cmp_leaves("ft", "P", lv, got_by, tag=tag + "from_bits(to_bits(made)): ")
                ok, lv = self.step("leaves_made" + sfx, mod.leaves, y)
                if ok:
                    self.cmp_leaves("make_leaves", "P", lv, b, tag=tag + "leaves of constructed value: ")
            if True:
                ok, eqs = self.step("fixed_eq", mod.fixed_eq, x, consts)
                if ok:
                    for e in eqs:
                        self.count("P_fixed_eq")
                        if not bool(e):
                            self.finding("from_layout", "P", "fixed==", f"pattern {b:0{self.w}b}: fixed-point member "
                                         "of from_bits result does not compare equal to T(raw=reference bits)")
        self.count("P_patterns", done)
        return done > 0

    # ------------------------------------------------------------------ level T
    def level_t(self, mod, pats):
        nleaf = max(1, len(self.table))
        k = max(1, min(len(pats), T_BUDGET // nleaf, 3))
        # spread over the pattern list, always keeping drawn patterns (at the end)
        sel = pats[-k:] if len(pats) > k else pats
        mod.PATS[:] = [_bits(self.w, b) for b in sel]
        mod.VALS[:] = [_const_tree(self.spec, L.unpack(self.spec, b)) for b in sel]
        mod.RES[:] = []
        try:
            compile_entity(mod.TopT)
        except Rejected as r:
            self.out.labels.append(f"T_rejected:{r.exc_type}")
            return False
        res_a = {r[1]: r for r in mod.RES if r[0] == "a"}
        res_b = {r[1]: r for r in mod.RES if r[0] == "b"}
        if len(res_a) != len(sel) or len(res_b) != len(sel):
            self.out.labels.append("T_probe_incomplete")
            return False
        try:
            for i, b in builtins.enumerate(sel):
                self.cur_b = b
                self.seen["T"].add(b)
                _, _, n, tb, lv = res_a[i]
                if n != self.w:
                    self.finding("count", "T", "type", f"count_bits = {n}, reference width {self.w}")
                self.cmp_bits("tf", "T", tb, b, n)
                self.cmp_leaves("from_layout", "T", lv, b)
                _, _, by, eqs = res_b[i]
                self.cmp_bits("to_layout", "T", by, b, n)
                for e in eqs:
                    if not bool(e):
                        self.finding("from_layout", "T", "fixed==", f"pattern {b:0{self.w}b}: fixed-point member != raw")
        except _NonConst:
            self.out.labels.append("T_nonconst")
            return False
        self.count("T_patterns", len(sel))
        return True

    # ------------------------------------------------------------------ level S (simulated)
    def _s_level(self, b):
        """name of the level for a finding at pattern b: which other levels had the right value there"""
        # "S!=P": the plain-Python level had the right value for this pattern (root cause is in tracing /
        # lowering / the VHDL backend, not in the type composition); "S!=T": only the traced level had
        for lv in ("P", "T"):
            if b in self.seen[lv] and b not in self.bad[lv]:
                return "S!=" + lv
        return "S"

    def level_s(self, mod, pats):
        nleaf = len(self.table)
        use2 = hasattr(mod, "Sim2") and nleaf <= 10  # the rebuilds more than double the tracing cost
        has_mix = use2 and nleaf >= 2
        has_o2 = use2 and G.has_multi_record(self.spec) and not has_mix  # m1 already uses reversed keywords
        # compile-time constants for the mixed values m0 / m1 (even / odd leaves constant, the others run-time)
        draws = self.case.get("draws") or []
        cpat = (draws[0] if draws else 0) ^ int(("10" * self.w)[:self.w], 2)
        cflat = L.flat_leaves(self.spec, L.unpack(self.spec, cpat))
        if has_mix:
            mod.MIX[:] = [_const_leaf(leaf, v) for v, (_, leaf, _, _) in zip(cflat, self.table)]
        vhdl = None
        if use2:
            try:
                vhdl = compile_entity(mod.Sim2)
            except Rejected as r:  # the constructor path does not accept signals for this type
                self.out.labels.append(f"S_rebuild_rejected:{r.exc_type}")
                has_o2 = has_mix = False
        if vhdl is None:
            try:
                vhdl = compile_entity(mod.Sim)
            except Rejected as r:
                self.out.labels.append(f"S_rejected:{r.exc_type}")
                return False
        self.count("S_compiled")
        if has_o2:
            self.count("S_rebuild")
        if has_mix:
            self.count("S_mixed")
        sim = _open_sim(self.out, vhdl, {"i": 0}, self, "S")
        if sim is None:
            return False
        npat = 0
        for b in pats:
            self.cur_b = b
            try:
                sim.poke(i=b)
            except _sim_error() as e:
                self.finding("sim_error", self._s_level(b), "sim",
                             f"pattern {b:0{self.w}b}: VHDL run-time error {e}")
                break
            npat += 1
            lvl = self._s_level(b)
            o1 = sim.get("o1")
            if o1 is None:
                self.finding("tf", lvl, "undefined", f"pattern {b:0{self.w}b}: o1 = {sim.get_str('o1')}")
            elif o1 != b:
                self.finding("tf", lvl, L.blame(self.spec, b, o1),
                             f"pattern {b:0{self.w}b}: simulated to_bits(from_bits[T](i)) = {o1:0{self.w}b}")
            if has_o2:
                o2 = sim.get("o2")
                if o2 is None:
                    self.finding("to_layout", lvl, "undefined", f"pattern {b:0{self.w}b}: o2 = {sim.get_str('o2')}")
                elif o2 != b:
                    self.finding("to_layout", lvl, L.blame(self.spec, b, o2),
                                 f"pattern {b:0{self.w}b}: simulated to_bits(value rebuilt with keywords in reversed "
                                 f"order) = {o2:0{self.w}b}")
            exp = L.flat_leaves(self.spec, L.unpack(self.spec, b))
            if has_mix:
                for port, par in (("m0", 0), ("m1", 1)):
                    flat = [cflat[j] if j % 2 == par else e for j, e in builtins.enumerate(exp)]
                    want = L.pack(self.spec, L.unflatten(self.spec, flat))
                    got = sim.get(port)
                    if got is None:
                        self.finding("to_layout", lvl, "undefined", f"pattern {b:0{self.w}b}: {port} = {sim.get_str(port)}")
                    elif got != want:
                        self.finding("to_layout", lvl, L.blame(self.spec, want, got),
                                     f"pattern {b:0{self.w}b}: simulated to_bits(value with the {'even' if par == 0 else 'odd'} "
                                     f"leaf members compile-time constants, the others run-time) = {got:0{self.w}b}, "
                                     f"reference {want:0{self.w}b}")
            for k, (e, (path, leaf, off, lw)) in builtins.enumerate(zip(exp, self.table)):
                got = sim.get(f"l{k}")
                self.count("S_leaf_checks")
                if got is None:
                    self.finding("from_layout", lvl, _path_kinds(path, leaf),
                                 f"pattern {b:0{self.w}b}: leaf {path} = {sim.get_str(f'l{k}')} (undefined)")
                    continue
                got = int(got) % (1 << lw)
                if got != e:
                    self.finding("from_layout", lvl, _path_kinds(path, leaf),
                                 f"pattern {b:0{self.w}b}: simulated leaf {path} (bits {off + lw - 1}:{off}) = {got:0{lw}b}, "
                                 f"reference {e:0{lw}b}")
        self.count("S_patterns", npat)
        return npat > 0


def _sim_error():
    from cv.vhdl.values import SimError

    return SimError


def _open_sim(out, vhdl, inputs, chk=None, level="S"):
    """analyse + elaborate; classifies static errors / unsupported constructs (never violations).
    Returns a Sim or None; sets out.status for the blocked classes."""
    from cv.vhdl.analyze import analyse
    from cv.vhdl.sim import Blocked, Sim
    from cv.vhdl.values import SimError

    d = analyse(vhdl)
    if d.errors:
        out.status = "blocked_by_static"
        for e in d.errors[:3]:
            out.labels.append(f"static:{e.rule}:{str(e.msg)[:70]}")
        return None
    if d.unsupported:
        out.status = "blocked"
        out.labels.append(f"blocked:{str(d.unsupported)[:80]}")
        return None
    try:
        return Sim(d, top=next(iter(d.entities)) if len(d.entities) == 1 else "Sim", inputs=inputs)
    except Blocked as b:
        out.status = "blocked"
        out.labels.append(f"blocked:{str(b)[:80]}")
        return None
    except SimError as e:
        sig = {"law": "sim_error", "level": level, "top": "init", "where": "sim"}
        out.add(sig, f"VHDL run-time error while elaborating / settling with all-zero inputs: {e}")
        return None


_DIR = {"count": "count", "tf": "to_bits", "tf_type": "to_bits", "to_layout": "to_bits", "to_layout_type": "to_bits",
        "width": "to_bits", "from_layout": "from_bits", "from_layout_type": "from_bits", "ft": "from_bits",
        "ft_type": "from_bits", "make_leaves": "construct", "make_leaves_type": "construct", "sim_error": "sim_error",
        "class_identity": "class_identity"}


def _children(spec):
    k = spec["k"]
    if k in ("carr", "sarr", "ser"):
        return [spec["e"]]
    if k == "rec":
        return [{kk: vv for kk, vv in fs.items() if kk != "via"} for _, fs in L.rec_fields(spec)]
    if k in ("enum", "flag"):
        return [spec["u"]]
    return []


def _p_fail_dirs(spec):
    """directions in which `spec` on its own violates a law at level P (few patterns)"""
    out = Outcome()
    try:
        mod = load_module(G.render_type_module(spec))
    except (KeyboardInterrupt, SystemExit, RecursionError, MemoryError, SyntaxError):
        raise
    except Exception:  # noqa: BLE001
        return set()
    try:
        chk = _TypeChecker({"spec": spec}, out)
        w = L.width(spec)
        pats = list(range(1 << w)) if w <= 5 else G.patterns_for(w, [])[:28]
        chk.level_p(mod, pats)
    finally:
        unload_module(mod)
    return {_DIR.get(f["signature"]["law"], f["signature"]["law"]) for f in out.findings}


def _minimal_node(spec, direction, depth=0):
    """kind of the smallest sub-type that fails in `direction` by itself (root-cause locator)"""
    for ch in _children(spec):
        if depth < 6 and direction in _p_fail_dirs(ch):
            return _minimal_node(ch, direction, depth + 1)
    return spec["k"]


def _blame(spec, out):
    """rewrite provisional signatures into (level, direction, node)"""
    cache = {}
    p_dirs = {_DIR.get(f["signature"]["law"], f["signature"]["law"]) for f in out.findings
              if f["signature"].get("level") == "P" and "law" in f["signature"]}
    for f in out.findings:
        sig = f["signature"]
        if "law" not in sig:
            continue
        d = _DIR.get(sig["law"], sig["law"])
        if sig["level"] == "P" or d in p_dirs:
            if d not in cache:
                cache[d] = _minimal_node(spec, d)
            node = cache[d]
        else:
            # only the traced / simulated level disagrees: innermost composite on the path of the first
            # wrong leaf / bit (no per-child re-compilation)
            if sig["level"].startswith("S!="):
                node = "emitted"  # another level is right on the same pattern: not a property of the type
            elif sig["level"] == "T":
                node = "traced"  # plain Python is right in this direction: the tracer's evaluation differs
            else:
                parts = str(sig.get("where", "")).split("/")
                node = "in:" + (parts[-2] if len(parts) >= 2 else spec["k"])
        f["signature"] = {"level": sig["level"], "dir": d, "node": node}


def _check_type(case):
    out = _check_type_inner(case)
    if out.findings:
        _blame(case["spec"], out)
    return out


def _check_type_inner(case):
    out = Outcome()
    spec = case["spec"]
    kinds = L.kinds(spec)
    depth = L.depth(spec)
    w = L.width(spec)
    out.identity = case_id(spec)
    out.labels.append("top:" + _top(spec))
    out.labels.append(f"depth:{depth}")
    for k in sorted(kinds - {"bit", "bool", "bv", "u", "s"}):
        out.labels.append("has:" + k)
    out.labels.append("uneven" if L.uneven(spec) else "even")
    out.counters["cases.all." + _top(spec)] = 1
    src = G.render_type_module(spec)
    try:
        with _quiet():
            mod = load_module(src)
    except (KeyboardInterrupt, SystemExit, RecursionError, MemoryError):
        raise
    except SyntaxError:
        raise
    except Exception as e:  # noqa: BLE001 - cohdl refused the type definitions
        out.status = "rejected"
        out.labels.append(f"rejected:define:{type(e).__name__}")
        return out
    try:
        chk = _TypeChecker(case, out)
        if w <= 10:
            pats = list(range(1 << w))
            # drawn patterns last (level T takes the tail)
            pats = [p for p in pats if p not in case["draws"]] + [d for i, d in builtins.enumerate(case["draws"])
                                                                   if d not in case["draws"][:i]]
            out.exhaustive_cell = "P:" + out.identity if case.get("catalog") else None
        else:
            pats = G.patterns_for(w, case["draws"])
        p_ok = chk.level_p(mod, pats)
        if not p_ok:
            out.status = "rejected"
            return out
        out.labels.append("P_ok")
        chk.count("cases.P." + _top(spec))
        # tracing costs 0.1-0.7 s per leaf member and pattern (level P: ~1 ms): level T runs on a
        # hash-selected quarter of the generated types (an eighth of the catalogue), level S (one compile,
        # simulation itself is cheap: every pattern of the P list) on half of them (a fifth)
        nleaf = len(chk.table)
        h = int(out.identity, 16)
        do_t = nleaf <= 30 and (h % 8 == 0 if case.get("catalog") else h % 4 == 0)
        do_s = nleaf <= 24 and (h % 5 == 0 if case.get("catalog") else h % 2 == 0)
        if case.get("force_ts"):
            do_s = nleaf <= 40 and case["force_ts"] in ("s", "ts")
            do_t = do_s and case["force_ts"] == "ts"
        if do_t:
            chk.count("cases.T_tried." + _top(spec))
            if chk.level_t(mod, pats):
                out.labels.append("T_ok")
                chk.count("cases.T." + _top(spec))
        if do_s:
            chk.count("cases.S_tried." + _top(spec))
            if chk.level_s(mod, pats):
                out.labels.append("S_ok")
                chk.count("cases.S." + _top(spec))
        if not do_t and not do_s:
            out.labels.append("T_S_skipped")
        out.nontrivial = depth >= 2 and L.uneven(spec)
        return out
    finally:
        unload_module(mod)


# ---------------------------------------------------------------------------------- BitField cases
def _check_bitfield(case):
    from cohdl import BitVector, Signal
    from cohdl import std

    out = Outcome()
    spec = case["spec"]
    W = spec["w"]
    out.identity = case_id(spec)
    leaves = L.bf_leaves(spec)
    subs = L.bf_subs(spec)
    out.labels.append("top:bf")
    out.labels.append("bf_nested" if subs else "bf_flat")
    src = G.render_bitfield_module(spec)
    try:
        with _quiet():
            mod = load_module(src)
    except (KeyboardInterrupt, SystemExit, RecursionError, MemoryError, SyntaxError):
        raise
    except Exception as e:  # noqa: BLE001
        out.status = "rejected"
        out.labels.append(f"rejected:define:{type(e).__name__}")
        return out

    def cnt(name, n=1):
        out.counters[name] = out.counters.get(name, 0) + n

    _LAW = {"bf_from_bits": "bf_read", "bf_from_bits_type": "bf_read_type", "bf_to_bits": "bf_vector",
            "bf_roundtrip": "bf_vector"}

    state = {"b": None, "bad": {"P": set(), "T": set()}, "seen": {"P": set(), "T": set()}}

    def finding(law, level, ftype, nested, detail):
        # root cause = (read / write / whole-vector path, level, directly declared or inside a sub-bitfield)
        if level in state["bad"]:
            state["bad"][level].add(state["b"])
        out.add({"law": _LAW.get(law, law), "level": level, "nested": nested}, f"[{law}, field kind {ftype}] " + detail)

    def s_level(b):
        for lv in ("P", "T"):
            if b in state["seen"][lv] and b not in state["bad"][lv]:
                return "S!=" + lv
        return "S"

    def cmp_fields(level, law, objs, b, allow_q=False):
        for obj, (path, t, hi, lo) in zip(objs, leaves):
            leaf = {"k": "bit"} if t == "bit" else {"k": t, "w": hi - lo + 1}
            got, tok = _norm(obj, leaf, allow_qualified=allow_q)
            exp = L.field_read(b, hi, lo)
            cnt(f"{level}_field_reads")
            if got is None or not tok:
                finding(law + "_type", level, t, len(path) > 1,
                        f"field {'.'.join(path)} [{hi}:{lo}] is {obj!r}, expected kind {t} width {hi - lo + 1}")
            elif got != exp:
                finding(law, level, t, len(path) > 1,
                        f"vector {b:0{W}b}: field {'.'.join(path)} [{hi}:{lo}] reads {got:b}, expected {exp:b}")

    def cmp_vec(level, law, obj, b, what):
        got, gw = _vec_value(obj, allow_qualified=(level == "P"))
        if got is None or gw != W or got != b:
            finding(law, level, "vec", False, f"{what} = {obj!r}, expected {b:0{W}b}")

    try:
        try:
            n = _call("count_bits", std.count_bits, mod.T)
        except _Rej as r:
            out.status = "rejected"
            out.labels.append(f"rejected:count_bits:{r.exc_type}")
            return out
        if n != W:
            finding("count", "P", "vec", False, f"count_bits = {n}, declared width {W}")
        pats = list(range(1 << W)) if W <= 10 else G.patterns_for(W, case["draws"])
        if W <= 10:
            pats = [p for p in pats if p not in case["draws"]] + [d for i, d in builtins.enumerate(case["draws"])
                                                                   if d not in case["draws"][:i]]
        # ---- reads, level P
        nread = 0
        rejected = set()

        def step(name, fn, *a):
            try:
                return True, _call(name, fn, *a)
            except _Rej as r:
                if name not in rejected:
                    rejected.add(name)
                    out.labels.append(f"rejected:{name}:{r.exc_type}")
                return False, None

        for b in pats:
            state["b"] = b
            state["seen"]["P"].add(b)
            ok, x = step("construct", mod.T, _bits(W, b))
            if not ok:
                break
            nread += 1
            ok, fs = step("fields", mod.fields, x)
            if ok:
                cmp_fields("P", "bf_read", fs, b)
            ok, tb = step("to_bits", std.to_bits, x)
            if ok:
                cmp_vec("P", "bf_to_bits", tb, b, "to_bits(bitfield)")
            ok, y = step("from_bits", std.from_bits[mod.T], _bits(W, b))
            if ok:
                ok, fs = step("fields", mod.fields, y)
                if ok:
                    cmp_fields("P", "bf_from_bits", fs, b)
                ok, tb = step("to_bits", std.to_bits, y)
                if ok:
                    cmp_vec("P", "bf_roundtrip", tb, b, "to_bits(from_bits[BF](b))")
            ok, sf = step("subfields", mod.subfields, x)
            if ok:
                for obj, (path, hi, lo) in zip(sf, subs):
                    ok2, tb = step("to_bits_sub", std.to_bits, obj)
                    if ok2:
                        got, gw = _vec_value(tb, allow_qualified=True)
                        exp = L.field_read(b, hi, lo)
                        if got is None or gw != hi - lo + 1 or got != exp:
                            finding("bf_read", "P", "sub", True,
                                    f"vector {b:0{W}b}: sub-bitfield {'.'.join(path)} [{hi}:{lo}] = {tb!r}, "
                                    f"expected {exp:b}")
        if nread == 0:
            out.status = "rejected"
            return out
        cnt("P_patterns", nread)
        out.labels.append("P_ok")

        # ---- writes, level P (Signal wrapped by the bitfield, <<= on the field)
        wpats = pats[-40:]
        wvals = case["wvals"]
        nwrite = 0
        for bi, b in builtins.enumerate(wpats):
            state["b"] = b
            for li, (path, t, hi, lo) in builtins.enumerate(leaves):
                fw = hi - lo + 1
                cur = L.field_read(b, hi, lo)
                vals = [cur ^ ((1 << fw) - 1), wvals[(bi + li) % len(wvals)] & ((1 << fw) - 1)]
                for mode, val in zip(("ilshift", "next"), vals):
                    leaf = {"k": "bit"} if t == "bit" else {"k": t, "w": fw}
                    c = _const_leaf(leaf, val)

                    def do_write(b=b, path=path, c=c, mode=mode):
                        sig = Signal[BitVector[W]](_bits(W, b))
                        bf = mod.T(sig)
                        owner = functools.reduce(getattr, path[:-1], bf)
                        if mode == "ilshift":
                            target = getattr(owner, path[-1])
                            operator.ilshift(target, c)
                        else:
                            getattr(owner, path[-1]).next = c
                        return sig

                    ok, sig = step("write", do_write)
                    if not ok:
                        continue
                    nwrite += 1
                    got, gw = _vec_value(sig, allow_qualified=True)
                    exp = L.field_write(b, hi, lo, val)
                    if got != exp:
                        outside = (got ^ exp) & ~(((1 << fw) - 1) << lo) if got is not None else 1
                        finding("bf_write", "P", t, len(path) > 1,
                                f"vector {b:0{W}b}, field {'.'.join(path)} [{hi}:{lo}] <<= {val:0{fw}b}: vector becomes "
                                f"{got if got is None else format(got, f'0{W}b')}, expected {exp:0{W}b}"
                                + (" (bits outside the declared range changed)" if outside else ""))
            # whole sub-bitfield assignment from a vector
            for path, hi, lo in subs:
                fw = hi - lo + 1
                val = L.field_read(b, hi, lo) ^ ((1 << fw) - 1)

                def do_sub(b=b, path=path, val=val, fw=fw):
                    sig = Signal[BitVector[W]](_bits(W, b))
                    bf = mod.T(sig)
                    target = functools.reduce(getattr, path, bf)
                    operator.ilshift(target, _bits(fw, val))
                    return sig

                ok, sig = step("write_sub", do_sub)
                if ok:
                    nwrite += 1
                    got, _ = _vec_value(sig, allow_qualified=True)
                    exp = L.field_write(b, hi, lo, val)
                    if got != exp:
                        finding("bf_write", "P", "sub", True,
                                f"vector {b:0{W}b}, sub-bitfield {'.'.join(path)} [{hi}:{lo}] <<= {val:0{fw}b}: "
                                f"vector becomes {got if got is None else format(got, f'0{W}b')}, expected {exp:0{W}b}")
        cnt("P_writes", nwrite)

        # ---- reads, level T
        nleaf = max(1, len(leaves))
        k = max(1, min(len(pats), T_BUDGET // nleaf, 8))
        sel = pats[-k:]
        mod.PATS[:] = [_bits(W, b) for b in sel]
        mod.RES[:] = []
        try:
            compile_entity(mod.TopT)
            t_ok = True
        except Rejected as r:
            out.labels.append(f"T_rejected:{r.exc_type}")
            t_ok = False
        if t_ok and len(mod.RES) == len(sel):
            nonconst = set()

            def guarded(what, fn, *a, **kw):
                try:
                    fn(*a, **kw)
                except _NonConst:
                    # e.g. to_bits(bitfield) builds a Temporary: a run-time object inside a traced
                    # context, not observable without a simulator
                    nonconst.add(what)

            for (i, n_t, tb, fx, fy, tby), b in zip(mod.RES, sel):
                state["b"] = b
                state["seen"]["T"].add(b)
                if n_t != W:
                    finding("count", "T", "vec", False, f"count_bits = {n_t}, declared width {W}")
                guarded("fields", cmp_fields, "T", "bf_read", fx, b, allow_q=False)
                guarded("fields_from_bits", cmp_fields, "T", "bf_from_bits", fy, b, allow_q=False)
                guarded("to_bits", cmp_vec, "T", "bf_to_bits", tb, b, "to_bits(bitfield)")
                guarded("to_bits", cmp_vec, "T", "bf_roundtrip", tby, b, "to_bits(from_bits[BF](b))")
            for what in sorted(nonconst):
                out.labels.append(f"T_nonconst:{what}")
            if "fields" not in nonconst:
                out.labels.append("T_ok")
            cnt("T_patterns", len(sel))
        elif t_ok:
            out.labels.append("T_probe_incomplete")

        # ---- level S: field reads r<k> of input i, field writes w<k> = copy of i with field k := v<k>
        try:
            vhdl = compile_entity(mod.Sim)
        except Rejected as r:
            vhdl = None
            out.labels.append(f"S_rejected:{r.exc_type}")
        if vhdl is not None:
            out.labels.append("S_compiled")
            zero = {"i": 0}
            zero.update({f"v{k}": 0 for k in range(len(leaves))})
            sim = _open_sim(out, vhdl, zero, None, "S")
            if sim is not None:
                ns = 0
                spats = pats if len(pats) <= 256 else pats[-256:]
                for bi, b in builtins.enumerate(spats):
                    state["b"] = b
                    lvl = s_level(b)
                    for rnd in (0, 1):
                        vals = {}
                        for k, (path, t, hi, lo) in builtins.enumerate(leaves):
                            fw = hi - lo + 1
                            m = (1 << fw) - 1
                            vals[k] = (L.field_read(b, hi, lo) ^ m) if rnd == 0 else (wvals[(bi + k) % len(wvals)] & m)
                        try:
                            sim.poke(i=b, **{f"v{k}": v for k, v in vals.items()})
                        except _sim_error() as e:
                            finding("sim_error", lvl, "vec", False, f"vector {b:0{W}b}: VHDL run-time error {e}")
                            sim = None
                            break
                        ns += 1
                        o1 = sim.get("o1")
                        if o1 != b:
                            finding("bf_roundtrip", lvl, "vec", False,
                                    f"vector {b:0{W}b}: simulated to_bits(from_bits[BF](i)) = {sim.get_str('o1')}")
                        for k, (path, t, hi, lo) in builtins.enumerate(leaves):
                            fw = hi - lo + 1
                            r = sim.get(f"r{k}")
                            wv = sim.get(f"w{k}")
                            cnt("S_field_checks")
                            exp_r = L.field_read(b, hi, lo)
                            exp_w = L.field_write(b, hi, lo, vals[k])
                            if r is None or int(r) % (1 << fw) != exp_r:
                                finding("bf_read", lvl, t, len(path) > 1,
                                        f"vector {b:0{W}b}: simulated field {'.'.join(path)} [{hi}:{lo}] reads "
                                        f"{sim.get_str(f'r{k}')}, expected {exp_r:0{fw}b}")
                            if wv is None or wv != exp_w:
                                finding("bf_write", lvl, t, len(path) > 1,
                                        f"vector {b:0{W}b}, field {'.'.join(path)} [{hi}:{lo}] @= {vals[k]:0{fw}b}: simulated "
                                        f"vector becomes {sim.get_str(f'w{k}')}, expected {exp_w:0{W}b}")
                    if sim is None:
                        break
                cnt("S_pokes", ns)
                if ns:
                    out.labels.append("S_ok")

        out.nontrivial = len(leaves) >= 2 and any(lo > 0 and (t != "bit" or len(p) > 1) for p, t, hi, lo in leaves)
        return out
    finally:
        unload_module(mod)


# ---------------------------------------------------------------------------------- template base / derived pairs
_pair_counter = itertools.count()


def _check_tmplpair(case):
    """`class PB(std.Record[ARG])`, `class PE(PB)` with extra members, both specialised with the same
    argument (order drawn), and an Enum + a FlagEnum over one underlying type (order drawn): each of the
    four types must have its own layout (the derived record includes the extra members)."""
    out = Outcome()
    out.identity = case_id({k: v for k, v in case.items() if k != "draws"})
    out.labels.append("top:tmplpair")
    out.labels.append("first:" + case["first"])
    name = f"cvpre_{next(_pair_counter)}"
    try:
        pre = load_module(G.render_pair_prelude(case), name=name)
    except (KeyboardInterrupt, SystemExit, RecursionError, MemoryError, SyntaxError):
        raise
    except Exception as e:  # noqa: BLE001
        out.status = "rejected"
        out.labels.append(f"rejected:define:{type(e).__name__}")
        return out
    try:
        strip = lambda fields: [[n, dict(fs)] for n, fs in fields]  # noqa: E731
        spec_b = {"k": "rec", "base": [], "fields": strip(case["base"]), "tmpl": case["tmpl"],
                  "ext": {"module": name, "expr": "TB"}}
        spec_e = {"k": "rec", "base": strip(case["base"]), "fields": strip(case["ext"]), "tmpl": case["tmpl"],
                  "ext": {"module": name, "expr": "TE"}}
        en = case["enum"]
        e_spec = {"k": "enum", "u": en["u"], "members": en["members"]}
        f_spec = {"k": "flag", "u": en["u"], "members": en["members"]}
        pair = [["f0", e_spec], ["f1", f_spec]] if en["first"] == "enum" else [["f0", f_spec], ["f1", e_spec]]
        spec_ef = {"k": "rec", "base": [], "fields": pair, "tmpl": None}
        subs = [spec_b, spec_e] if case["first"] == "base" else [spec_e, spec_b]
        n_ok = 0
        for sp in subs + [spec_ef]:
            w = L.width(sp)
            sub = _check_type({"kind": "type", "spec": sp, "draws": [d & ((1 << w) - 1) for d in case["draws"]],
                               "force_ts": "ts" if sp is spec_e else ("s" if sp is spec_b else None)})
            out.findings += sub.findings
            out.labels += [l for l in sub.labels if not l.startswith(("top:", "depth:", "has:", "even", "uneven"))]
            for k, v in sub.counters.items():
                out.counters[k] = out.counters.get(k, 0) + v
            if sub.status in ("blocked", "blocked_by_static"):
                out.status = sub.status
            n_ok += sub.status != "rejected"
        if n_ok == 0:
            out.status = "rejected"
        out.nontrivial = n_ok == 3
        return out
    finally:
        unload_module(pre)


# ---------------------------------------------------------------------------------- inheritance chains, serialisation history
def _check_inherit_hist(case):
    """C0 <- C1 (<- C2) and an aggregate of two chain classes; the classes are serialised for the first
    time in the drawn order (directly, or as members of the aggregate).  Record layouts are cached lazily per
    class: whatever the history, every class must have the width / layout of its own (inherited + own) members."""
    out = Outcome()
    out.identity = case_id({k: v for k, v in case.items() if k != "draws"})
    out.labels.append("top:inherit_hist")
    out.labels.append("first:" + case["order"][0])
    name = f"cvpre_{next(_pair_counter)}"
    try:
        pre = load_module(G.render_inherit_prelude(case), name=name)
    except (KeyboardInterrupt, SystemExit, RecursionError, MemoryError, SyntaxError):
        raise
    except Exception as e:  # noqa: BLE001
        out.status = "rejected"
        out.labels.append(f"rejected:define:{type(e).__name__}")
        return out
    try:
        def chain_spec(k):
            inherited = [[n, dict(fs)] for lv in case["levels"][:k] for n, fs in lv]
            own = [[n, dict(fs)] for n, fs in case["levels"][k]]
            return {"k": "rec", "base": inherited, "fields": own, "tmpl": None, "ext": {"module": name, "expr": f"C{k}"}}

        specs = {f"c{k}": chain_spec(k) for k in range(len(case["levels"]))}
        i, j = case["agg"]
        specs["agg"] = {"k": "rec", "base": [], "fields": [["a", chain_spec(i)], ["b", chain_spec(j)]], "tmpl": None}
        n_ok = 0
        last = case["order"][-1]
        for item in case["order"]:
            sp = specs[item]
            w = L.width(sp)
            sub = _check_type({"kind": "type", "spec": sp, "draws": [d & ((1 << w) - 1) for d in case["draws"]],
                               "force_ts": "s" if item == last else "none"})
            out.findings += sub.findings
            out.labels += [l for l in sub.labels if not l.startswith(("top:", "depth:", "has:", "even", "uneven"))]
            for k, v in sub.counters.items():
                out.counters[k] = out.counters.get(k, 0) + v
            if sub.status in ("blocked", "blocked_by_static"):
                out.status = sub.status
            n_ok += sub.status != "rejected"
        if n_ok == 0:
            out.status = "rejected"
        out.nontrivial = n_ok == len(case["order"])
        return out
    finally:
        unload_module(pre)


# ---------------------------------------------------------------------------------- entry points
def check(case):
    with _quiet():  # cohdl prints diagnostics when it rejects something
        if case["kind"] == "bitfield":
            return _check_bitfield(case)
        if case["kind"] == "tmplpair":
            return _check_tmplpair(case)
        if case["kind"] == "inherit_hist":
            return _check_inherit_hist(case)
        return _check_type(case)


def render_sim_entity(typespec):
    """source text of the round-trip entity for the simulated level (see cv.gen.c17_types)"""
    return G.render_sim_entity(typespec)


def selfcheck():
    L.selfcheck()


def view(case):
    if case["kind"] == "tmplpair":
        src = G.render_pair_prelude(case)
        return {"kind": "tmplpair", "types": src[len(G.HEADER):].strip().splitlines(), "enum": case["enum"],
                "draws": case.get("draws")}
    if case["kind"] == "inherit_hist":
        src = G.render_inherit_prelude(case)
        return {"kind": "inherit_hist", "types": src[len(G.HEADER):].strip().splitlines(), "aggregate": case["agg"],
                "first_serialisation_order": case["order"], "draws": case.get("draws")}
    spec = case["spec"]
    if case["kind"] == "bitfield":
        src = G.render_bitfield_module(spec)
    else:
        src = G.render_type_module(spec)
    head = src.split("def frombits")[0] if "def frombits" in src else src.split("def fields")[0]
    return {"kind": case["kind"], "width": L.width(spec), "types": head[len(G.HEADER):].strip().splitlines(),
            "draws": case.get("draws")}
