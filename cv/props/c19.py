"""C19 - fixed-point arithmetic is exact and resize follows the selected styles.

Enumerated cells (one case = one cell, every raw value / raw pair inside the case):

  resize  (signedness, src [l:r], dst [l:r], round style, overflow style)  x all raws
  binop   (signedness, + - *, fmt a, fmt b)  (width <= 4)                  x all raw pairs
  ctor    (signedness, source kind int/float/Signed[n]/Unsigned[n]/fixed, dst[, src])
  eq      (signedness, fmt, compared with same fmt / other fmt / int / float)

Oracle: cv.ref.fixed (fractions.Fraction).  Observation levels

  P  plain Python objects on constants, outside any context      (all cells)
  T  the same call traced inside a `std.concurrent` context on constants, result
     captured by a `cohdl.pyeval` probe                          (sampled cells)
  S  emitted VHDL (`render_resize_entity` / `render_binop_entity`, raw bits on ports) simulated with
     cv.vhdl for ALL raw values of a deterministic sample of cells; compared with the reference and with P
     ("div": "level_disagree", "levels": "P-S").  A design cohdl rejects is `rejected`, static errors of the
     emitted VHDL `blocked_by_static`, engine limits `blocked`.

Any exception raised by cohdl is `rejected` (never a violation); classes of cells that
are always rejected show up in the label histogram.
"""
from __future__ import annotations

import builtins
import contextlib
import io
from fractions import Fraction

from cv.harness.runner import Outcome
from cv.ref import fixed as rf
from cv.ref.fixed import Fmt

_enum = builtins.enumerate  # the module contract names a function `enumerate`

PROPERTY = "C19"
TECHNIQUE = ("complete enumeration of small format/style/raw-value spaces against an exact "
             "rational (Fraction) reference model; observation at Python level (P), through a traced context "
             "with a pyeval probe (T) and on the simulated emitted VHDL (S)")
RULE = (
    "case = one cell: resize (SFixed|UFixed, source [l:r], target [l:r], round style, overflow style) with ALL "
    "raw source values; binop (+,-,*) over a format pair of width<=4 with ALL raw pairs; constructor cells "
    "(int / float / Signed[n] / Unsigned[n] / other fixed format -> format) and equality cells; levels P (all "
    "cells), T and S (deterministic samples, still ALL raw values per cell). "
    "Formats: -3 <= r <= l <= 4. non-trivial = cohdl produced a value for at least one point of the cell AND "
    "(resize: the target drops bits on at least one side; binop: the two formats differ; ctor: a representable "
    "number was accepted; eq: both outcomes True and False were expected); distinct = cell name"
)
ASSUMPTIONS = [
    "value of a fixed object = two's-complement/unsigned integer of its raw vector (`_val`) times 2**right(); "
    "the raw vector is read through the `_val` attribute exactly as SFixed.__repr__/_to_bits_ do",
    "TRUNCATE = floor, ROUND = nearest with ties to the even target raw, WRAP = modulo 2**width of the target, "
    "SATURATE = clamp to the target raw range; quantisation happens before range handling (statement: 'and then')",
    "for + - * only the represented number is checked against the exact result (any result format is accepted); "
    "a negative UFixed difference must equal the exact value modulo 2**(left+1) of the result format cohdl chose",
    "constructor from a number that lies inside the range but is not a multiple of 2**right, and equality with "
    "such a number, are not determined by the statement: counted as unspecified points, never reported",
    "any exception from cohdl (assertions included) is a rejection, never a violation",
    "level S trusts the VHDL engine cv.vhdl; operands are driven as raw bit vectors on ports",
]
EXHAUSTIVE = {"quick": False, "thorough": True}

LO, HI = -3, 4  # -3 <= r <= l <= 4
BINOP_MAXW = 4
T_MAXW = 4      # traced level only for source widths <= 4 (16 ms per traced call)
_S_SHARDS: list = []  # filled by a later round: simulated shards


# ----------------------------------------------------------------------------- cells
def all_formats():
    return [(l, r) for r in range(LO, HI + 1) for l in range(r, HI + 1)]


def tier_formats(tier):
    fmts = all_formats()
    if tier == "quick":
        # deterministic half: every other format in (r, l) order -> all widths / offsets still occur
        fmts = [f for i, f in _enum(fmts) if i % 2 == 0]
    return fmts


def _w(f):
    return f[0] - f[1] + 1


def _resize_cells(tier, lvl):
    fmts = tier_formats(tier)
    cells = []
    for s in (True, False):
        for src in fmts:
            for dst in fmts:
                for rs in rf.ROUND_STYLES:
                    for os_ in rf.OVERFLOW_STYLES:
                        cells.append({"k": "resize", "lvl": lvl, "s": s, "src": list(src), "dst": list(dst),
                                      "rs": rs, "os": os_})
    return cells


def _binop_cells(tier, lvl):
    fmts = [f for f in all_formats() if _w(f) <= BINOP_MAXW]
    if tier == "quick":
        fmts = [f for i, f in _enum(fmts) if i % 3 == 0]
    cells = []
    for s in (True, False):
        for op in ("add", "sub", "mul"):
            for a in fmts:
                for b in fmts:
                    cells.append({"k": "binop", "lvl": lvl, "s": s, "op": op, "a": list(a), "b": list(b)})
    return cells


def _ctor_cells(tier, lvl="P"):
    fmts = tier_formats(tier)
    small = [f for f in all_formats() if _w(f) <= 4]
    if tier == "quick":
        small = [f for i, f in _enum(small) if i % 3 == 0]
    cells = []
    for s in (True, False):
        for dst in fmts:
            cells.append({"k": "ctor", "lvl": lvl, "s": s, "from": "int", "dst": list(dst)})
            cells.append({"k": "ctor", "lvl": lvl, "s": s, "from": "float", "dst": list(dst)})
            for n in (1, 2, 3, 4):
                cells.append({"k": "ctor", "lvl": lvl, "s": s, "from": "Signed", "n": n, "dst": list(dst)})
                cells.append({"k": "ctor", "lvl": lvl, "s": s, "from": "Unsigned", "n": n, "dst": list(dst)})
            for src in small:
                cells.append({"k": "ctor", "lvl": lvl, "s": s, "from": "fixed", "src": list(src), "dst": list(dst)})
            # the other signedness as source (same bounds): documented nowhere, expected to be rejected
            cells.append({"k": "ctor", "lvl": lvl, "s": s, "from": "fixed_other_sign", "src": list(dst),
                          "dst": list(dst)})
    return cells


def _eq_cells(tier, lvl="P"):
    fmts = tier_formats(tier)
    cells = []
    for s in (True, False):
        for f in fmts:
            if _w(f) <= 5:
                cells.append({"k": "eq", "lvl": lvl, "s": s, "with": "same_fmt", "fmt": list(f)})
            if _w(f) <= 4:
                cells.append({"k": "eq", "lvl": lvl, "s": s, "with": "int", "fmt": list(f)})
                cells.append({"k": "eq", "lvl": lvl, "s": s, "with": "float", "fmt": list(f)})
                l, r = f
                for o in ((l + 1, r), (l, r - 1)):
                    if LO <= o[1] <= o[0] <= HI:
                        cells.append({"k": "eq", "lvl": lvl, "s": s, "with": "other_fmt", "fmt": list(f),
                                      "other": list(o)})
    return cells


def _sampled(cells, mod, rem=0):
    return [c for i, c in _enum(cells) if i % mod == rem]


def _t_cells(tier):
    """traced-level sample: resize/binop/ctor/eq cells with small source widths."""
    mod_r = 16 if tier == "quick" else 4
    rz = [dict(c, lvl="T") for c in _resize_cells("thorough", "T") if _w(c["src"]) <= T_MAXW]
    rz = _sampled(rz, mod_r, 1)
    bo = [dict(c) for c in _binop_cells("thorough", "T") if _w(c["a"]) + _w(c["b"]) <= 5]
    bo = _sampled(bo, 13 if tier == "quick" else 2, 1)
    ct = [c for c in _ctor_cells("thorough", "T") if c["from"] in ("Signed", "Unsigned") and c["n"] <= 3
          or c["from"] == "fixed" and _w(c["src"]) <= 3 or c["from"] in ("int", "float") and _w(c["dst"]) <= 4]
    ct = _sampled(ct, 31 if tier == "quick" else 5, 2)
    eq = [c for c in _eq_cells("thorough", "T") if c["with"] == "same_fmt" and _w(c["fmt"]) <= 3]
    eq = _sampled(eq, 3 if tier == "quick" else 1, 0)
    return rz + bo + ct + eq


def _s_cells(tier):
    """simulated level: a deterministic sample of format pairs (all 4 style combinations, both signednesses,
    ALL raw values each) and of binop cells."""
    fmts = all_formats()
    mod = 32 if tier == "quick" else 4
    idx = {f: i for i, f in _enum(fmts)}
    rz = [dict(c, lvl="S") for c in _resize_cells("thorough", "S")
          if (idx[tuple(c["src"])] * len(fmts) + idx[tuple(c["dst"])]) % mod == 5 % mod]
    bo = [c for c in _binop_cells("thorough", "S") if _w(c["a"]) + _w(c["b"]) <= 7]
    bo = _sampled(bo, 26 if tier == "quick" else 3, 3 if tier == "quick" else 1)
    return rz + bo


_GROUPS = {
    "resizeP": lambda tier: _resize_cells(tier, "P"),
    "binopP": lambda tier: _binop_cells(tier, "P"),
    "ctorP": lambda tier: _ctor_cells(tier, "P"),
    "eqP": lambda tier: _eq_cells(tier, "P"),
    "T": _t_cells,
    "S": _s_cells,
}
# number of shards per group (quick, thorough)
# P cells cost ~5 ms, T cells ~0.4 s (one traced call ~16 ms): quick = 5 P shards + 11 T shards = one wave
# quick = 4 P + 9 T + 3 S shards = one wave on 16 workers
_NSHARDS = {"resizeP": (1, 4), "binopP": (1, 4), "ctorP": (1, 1), "eqP": (1, 1), "T": (9, 34), "S": (3, 20)}


def plan(tier):
    shards = []
    for g, fn in _GROUPS.items():
        n = len(fn(tier))
        k = _NSHARDS[g][0 if tier == "quick" else 1]
        k = max(1, min(k, n))
        for i in range(k):
            # interleaved (stride) sharding keeps the shards equally heavy
            shards.append({"kind": "enum", "name": f"{g}-{i}", "group": g, "tier": tier, "rem": i, "mod": k})
    shards.extend(_S_SHARDS)
    return shards


def enumerate(shard):  # noqa: A001 - name fixed by the module contract
    cells = _GROUPS[shard["group"]](shard["tier"])
    for i, c in _enum(cells):
        if i % shard["mod"] == shard["rem"]:
            yield c




# ----------------------------------------------------------------------------- cohdl access
class _C:
    """lazily imported cohdl names (so that importing this module never needs cohdl)."""
    ready = False


def _cohdl():
    if not _C.ready:
        import cohdl
        from cohdl import Signed, Unsigned, std
        from cohdl.std import FixedOverflowStyle, FixedRoundStyle, SFixed, UFixed

        _C.cohdl, _C.std = cohdl, std
        _C.Signed, _C.Unsigned, _C.SFixed, _C.UFixed = Signed, Unsigned, SFixed, UFixed
        _C.RS = {rf.TRUNCATE: FixedRoundStyle.TRUNCATE, rf.ROUND: FixedRoundStyle.ROUND}
        _C.OS = {rf.WRAP: FixedOverflowStyle.WRAP, rf.SATURATE: FixedOverflowStyle.SATURATE}
        _C.ready = True
    return _C


def _fixed_type(C, f: Fmt):
    return (C.SFixed if f.signed else C.UFixed)[f.left:f.right]


def _raw_type(C, f: Fmt):
    return (C.Signed if f.signed else C.Unsigned)[f.width]


def _mk(C, f: Fmt, raw: int):
    return _fixed_type(C, f)(raw=_raw_type(C, f)(raw))


class _Unreadable(Exception):
    pass


def _read(C, obj):
    """(Fmt, raw) of a fixed object produced by cohdl, or _Unreadable(reason)."""
    if isinstance(obj, C.SFixed):
        signed = True
    elif isinstance(obj, C.UFixed):
        signed = False
    else:
        raise _Unreadable(f"not_fixed:{type(obj).__name__}")
    try:
        left, right = type(obj).left(), type(obj).right()
        val = C.cohdl.TypeQualifier.decay(obj._val)
        if not isinstance(val, C.Signed if signed else C.Unsigned):
            raise _Unreadable(f"raw_type:{type(val).__name__}")
        if val.width != left - right + 1:
            raise _Unreadable(f"raw_width:{val.width}!={left - right + 1}")
        return Fmt(signed, left, right), val.to_int()
    except _Unreadable:
        raise
    except Exception as e:  # noqa: BLE001 - reading goes through cohdl code
        raise _Unreadable(f"exc:{type(e).__name__}") from None


_T_SRC = '''
def f_resize(a_list, dl, dr, rs, os_):
    def f(i):
        return a_list[i].resize[dl:dr](rs, os_)
    return f


def f_binop(op, a_list, b_list, nb):
    if op == "add":
        def f(i):
            return a_list[i // nb] + b_list[i % nb]
    elif op == "sub":
        def f(i):
            return a_list[i // nb] - b_list[i % nb]
    else:
        def f(i):
            return a_list[i // nb] * b_list[i % nb]
    return f


def f_ctor(T, args):
    def f(i):
        return T(args[i])
    return f


def f_eq(a_list, b_list, nb):
    def f(i):
        return a_list[i // nb] == b_list[i % nb]
    return f
'''
_T_MOD = None


def _tmod():
    global _T_MOD
    if _T_MOD is None:
        from cv.harness import loader

        _T_MOD = loader.load_module(_T_SRC, "cv_c19_traced")
    return _T_MOD


from cv.gen.c19_probe import Rej as _Rej, evaluate as _evaluate  # noqa: E402


# ----------------------------------------------------------------------------- helpers for signatures
def _tname(s):
    return "sfixed" if s else "ufixed"


def _lrel(src, dst):
    if dst.left < src.right:
        return "below"      # no common bit position: target entirely below the source
    if dst.left < src.left:
        return "shrink"
    return "same" if dst.left == src.left else "grow"


def _rrel(src, dst):
    if dst.right > src.left:
        return "above"      # every source bit is cut off
    if dst.right > src.right:
        return "cut1" if dst.right - src.right == 1 else "cut"
    return "same" if dst.right == src.right else "extend"


def _cellname(case):
    k = case["k"]
    t = "s" if case["s"] else "u"
    if k == "resize":
        return f"resize:{case['lvl']}:{t}[{case['src'][0]}:{case['src'][1]}]->[{case['dst'][0]}:{case['dst'][1]}]:{case['rs']}:{case['os']}"
    if k == "binop":
        return f"{case['op']}:{case['lvl']}:{t}[{case['a'][0]}:{case['a'][1]}],[{case['b'][0]}:{case['b'][1]}]"
    if k == "ctor":
        src = case.get("src") or case.get("n") or ""
        return f"ctor:{case['lvl']}:{t}[{case['dst'][0]}:{case['dst'][1]}]<-{case['from']}{src}"
    other = case.get("other") or ""
    return f"eq:{case['lvl']}:{t}[{case['fmt'][0]}:{case['fmt'][1]}]~{case['with']}{other}"


def _finish(out, case, cls, n, n_rej, nontrivial_extra=True):
    out.identity = _cellname(case)
    out.counters["points"] = n
    out.counters["points_rejected"] = n_rej
    out.counters["points_value"] = n - n_rej
    out.counters[f"points_{case['lvl']}"] = n
    if n_rej == n:
        out.status = "rejected"
        out.labels.append(f"{cls}:all_rejected")
    elif n_rej:
        out.labels.append(f"{cls}:partly_rejected")
    else:
        out.labels.append(f"{cls}:ok")
    out.labels.append(f"lvl_{case['lvl']}")
    if n_rej < n:
        out.exhaustive_cell = out.identity
        out.nontrivial = bool(nontrivial_extra)
    return out


# ----------------------------------------------------------------------------- level S
def _simulate(src, pokes, res_fmt):
    """compile the rendered entity, simulate every poke; list of (Fmt, raw) | _Rej per poke, or a status
    string (rejected:<exc> | blocked:<why> | blocked_by_static:<rule>) when there is no design to simulate."""
    from cv.gen.c19_probe import Design

    ds = Design(src)
    if ds.status != "ok":
        return f"{ds.status}:{ds.why}"
    out = []
    for r in ds.run(pokes, ["res"]):
        if isinstance(r, tuple):
            out.append(_Rej(f"{r[0]}:{r[1]}"))   # run-time error of the emitted VHDL: reported by the caller
        elif r["res"] is None:
            out.append(_Rej("undefined_bits"))
        else:
            out.append((res_fmt, rf.wrap(res_fmt, r["res"])))
    return out


def _design_status(out, case, cls, status):
    st, _, why = status.partition(":")
    out.identity = _cellname(case)
    out.status = st
    out.labels += [f"{cls}:S_{st}", f"S_{st}:{why}", "lvl_S"]
    return out


# ----------------------------------------------------------------------------- resize
def _check_resize(case):
    C = _cohdl()
    out = Outcome()
    s, lvl = case["s"], case["lvl"]
    src, dst = Fmt(s, *case["src"]), Fmt(s, *case["dst"])
    rs, os_ = case["rs"], case["os"]
    raws = list(src.raws())
    objs = [_mk(C, src, r) for r in raws]  # construction from raw is the documented basic form
    crs, cos = C.RS[rs], C.OS[os_]

    def fn_p(i):
        return objs[i].resize(dst.left, dst.right, crs, cos)

    lrel, rrel = _lrel(src, dst), _rrel(src, dst)
    pres = None
    if lvl == "S":
        pres = _evaluate("P", fn_p, len(raws), None)
        res = _simulate(render_resize_entity(s, case["src"], case["dst"], rs, os_),
                        [{"raw": r % (1 << src.width)} for r in raws], dst)
        if isinstance(res, str):
            return _design_status(out, case, f"{_tname(s)}.resize.{lrel}.{rrel}", res)
    else:
        res = _evaluate(lvl, fn_p, len(raws), lambda: _tmod().f_resize(objs, dst.left, dst.right, crs, cos))
    base = {"what": "resize", "type": _tname(s), "lvl": lvl, "round": rs, "overflow": os_, "left": lrel,
            "right": rrel}
    n_rej = 0
    for i, (raw, r) in _enum(zip(raws, res)):
        if isinstance(r, _Rej):
            n_rej += 1
            out.counters[f"rej_{r.exc}"] = out.counters.get(f"rej_{r.exc}", 0) + 1
            continue
        exp = rf.resize(src, raw, dst, rs, os_)
        tr = rf.resize_traits(src, raw, dst, rs)
        trait = "carry" if tr["round_carry"] else "overflow" if tr["out_of_range"] else "inrange"
        neg = bool(tr["negative"])
        try:
            f, got = r if lvl == "S" else _read(C, r)
            if lvl == "S" and not isinstance(pres[i], _Rej):
                pf, pgot = _read(C, pres[i])
                if (pf, pgot) != (f, got):
                    out.add(dict(base, div="level_disagree", levels="P-S", trait=trait, neg=neg),
                            f"{_cellname(case)} raw={raw}: Python level gives {pf} raw {pgot}, simulated VHDL raw {got} "
                            f"(reference raw {exp})")
        except _Unreadable as u:
            out.add(dict(base, div="result_object", why=str(u).split(":")[0]),
                    f"{_cellname(case)} raw={raw}: result object unreadable ({u})")
            continue
        if f != dst:
            out.add(dict(base, div="format"), f"{_cellname(case)} raw={raw}: result format {f}, requested {dst}")
            continue
        if tr["round_carry"]:
            out.counters["round_carry_points"] = out.counters.get("round_carry_points", 0) + 1
        if got != exp:
            out.add(dict(base, div="value", trait=trait, neg=neg),
                    f"{_cellname(case)}: source raw={raw} (= {rf.value(src, raw)}) -> raw {got} (= {rf.value(dst, got)}), "
                    f"expected raw {exp} (= {rf.value(dst, exp)}) [{rs}/{os_}, {trait}, "
                    f"{'tie' if tr['tie'] and rs == rf.ROUND else 'no tie'}]")
    drops = dst.left < src.left or dst.right > src.right
    cls = f"{_tname(s)}.resize.{lrel}.{rrel}"
    if rrel in ("cut", "cut1", "above") or lrel in ("shrink", "below"):
        cls += f".{rs[0]}{os_[0]}"
    return _finish(out, case, cls, len(raws), n_rej, drops)


# ----------------------------------------------------------------------------- + - *
_PYOP = {"add": lambda a, b: a + b, "sub": lambda a, b: a - b, "mul": lambda a, b: a * b}


def _rel(x, y):
    return "eq" if x == y else "lt" if x < y else "gt"


def _check_binop(case):
    C = _cohdl()
    out = Outcome()
    s, lvl, op = case["s"], case["lvl"], case["op"]
    a, b = Fmt(s, *case["a"]), Fmt(s, *case["b"])
    ra, rb = list(a.raws()), list(b.raws())
    oa, ob = [_mk(C, a, r) for r in ra], [_mk(C, b, r) for r in rb]
    nb = len(rb)
    pyop = _PYOP[op]

    def fn_p(i):
        return pyop(oa[i // nb], ob[i % nb])

    n = len(ra) * nb
    if lvl == "S":
        rl, rr = binop_result_format(op, case["a"], case["b"])
        res = _simulate(render_binop_entity(s, op, case["a"], case["b"]),
                        [{"raw_a": ra[i // nb] % (1 << a.width), "raw_b": rb[i % nb] % (1 << b.width)} for i in range(n)],
                        Fmt(s, rl, rr))
        if isinstance(res, str):
            return _design_status(out, case, f"{_tname(s)}.{op}", res)
    else:
        res = _evaluate(lvl, fn_p, n, lambda: _tmod().f_binop(op, oa, ob, nb))
    base = {"what": op, "type": _tname(s), "lvl": lvl, "lefts": _rel(a.left, b.left),
            "rights": _rel(a.right, b.right)}
    n_rej = 0
    for i, r in _enum(res):
        x, y = ra[i // nb], rb[i % nb]
        if isinstance(r, _Rej):
            n_rej += 1
            out.counters[f"rej_{r.exc}"] = out.counters.get(f"rej_{r.exc}", 0) + 1
            continue
        exact = rf.exact_binop(op, a, x, b, y)
        try:
            f, got = r if lvl == "S" else _read(C, r)
        except _Unreadable as u:
            out.add(dict(base, div="result_object", why=str(u).split(":")[0]),
                    f"{_cellname(case)} raws=({x},{y}): result object unreadable ({u})")
            continue
        exp, wrapped = rf.expected_in_result(op, f, exact)
        if wrapped:
            out.counters["ufixed_sub_wrapped_points"] = out.counters.get("ufixed_sub_wrapped_points", 0) + 1
        gotv = rf.value(f, got)
        if gotv != exp:
            fits = rf.representable(f, exp)
            out.add(dict(base, div="value" if fits else "format_too_small", wrapped=wrapped),
                    f"{_cellname(case)}: {rf.value(a, x)} {op} {rf.value(b, y)} = {exact}"
                    f"{' (mod range: ' + str(exp) + ')' if wrapped else ''}, result {f} raw={got} represents {gotv}")
    return _finish(out, case, f"{_tname(s)}.{op}", n, n_rej, a != b)


# ----------------------------------------------------------------------------- constructors
def _numbers_around(f: Fmt, step: Fraction):
    lo = f.vmin - 2 * max(step, f.lsb)
    hi = f.vmax + 2 * max(step, f.lsb)
    k0 = lo / step
    k0 = k0.numerator // k0.denominator
    k1 = hi / step
    k1 = -(-k1.numerator // k1.denominator)
    return [k * step for k in range(k0, k1 + 1)]


def _ctor_points(C, case, dst: Fmt):
    """list of (argument object, represented number, description)"""
    frm = case["from"]
    if frm == "int":
        lo = int(dst.vmin) - 3
        hi = int(dst.vmax) + 3
        return [(v, Fraction(v), f"int {v}") for v in range(lo, hi + 1)]
    if frm == "float":
        step = min(dst.lsb / 2, Fraction(1, 2))
        nums = _numbers_around(dst, step)
        if len(nums) > 700:
            nums = _numbers_around(dst, dst.lsb / 2)
        return [(float(v), v, f"float {float(v)!r}") for v in nums]
    if frm in ("Signed", "Unsigned"):
        n = case["n"]
        if frm == "Signed":
            return [(C.Signed[n](v), Fraction(v), f"Signed[{n}]({v})") for v in range(-(1 << (n - 1)), 1 << (n - 1))]
        return [(C.Unsigned[n](v), Fraction(v), f"Unsigned[{n}]({v})") for v in range(1 << n)]
    if frm in ("fixed", "fixed_other_sign"):
        src = Fmt(dst.signed if frm == "fixed" else not dst.signed, *case["src"])
        return [(_mk(C, src, r), rf.value(src, r), f"{src} raw={r}") for r in src.raws()]
    raise ValueError(frm)


def _check_ctor(case):
    C = _cohdl()
    out = Outcome()
    s, lvl, frm = case["s"], case["lvl"], case["from"]
    dst = Fmt(s, *case["dst"])
    T = _fixed_type(C, dst)
    pts = _ctor_points(C, case, dst)
    args = [p[0] for p in pts]

    def fn_p(i):
        return T(args[i])

    res = _evaluate(lvl, fn_p, len(pts), lambda: _tmod().f_ctor(T, args))
    base = {"what": "ctor", "type": _tname(s), "lvl": lvl, "from": frm}
    cls = f"{_tname(s)}.ctor.{frm}"
    if frm == "fixed":
        src = Fmt(s, *case["src"])
        covers = dst.left >= src.left and dst.right <= src.right
        cls += ".covers" if covers else ".not_covers"
        cls += ".same_right" if dst.right == src.right else ".other_right"
        base["rights"] = _rel(dst.right, src.right)
        base["lefts"] = _rel(dst.left, src.left)
    elif frm in ("Signed", "Unsigned"):
        cls += ".right<=0" if dst.right <= 0 else ".right>0"
        base["right_sign"] = "pos" if dst.right > 0 else "zero" if dst.right == 0 else "neg"
    n_rej = n_repr = n_repr_ok = 0
    for (arg, num, desc), r in zip(pts, res):
        exp = rf.to_raw(dst, num)
        if exp is not None:
            n_repr += 1
        if isinstance(r, _Rej):
            n_rej += 1
            out.counters[f"rej_{r.exc}"] = out.counters.get(f"rej_{r.exc}", 0) + 1
            if exp is not None:
                out.counters["representable_rejected"] = out.counters.get("representable_rejected", 0) + 1
            continue
        if exp is None:
            # accepted although not representable: the statement says nothing about the value
            out.counters["unspecified_points"] = out.counters.get("unspecified_points", 0) + 1
            continue
        try:
            f, got = _read(C, r)
        except _Unreadable as u:
            out.add(dict(base, div="result_object", why=str(u).split(":")[0]),
                    f"{_cellname(case)} from {desc}: result object unreadable ({u})")
            continue
        if f != dst:
            out.add(dict(base, div="format"), f"{_cellname(case)} from {desc}: object has format {f}")
            continue
        n_repr_ok += 1
        if got != exp:
            out.add(dict(base, div="value"),
                    f"{_cellname(case)} from {desc}: number {num} is representable (raw {exp}) but the object holds raw "
                    f"{got} (= {rf.value(dst, got)})")
    if n_repr and not n_repr_ok:
        out.labels.append(f"{cls}:no_representable_accepted")
    return _finish(out, case, cls, len(pts), n_rej, n_repr_ok > 0)


# ----------------------------------------------------------------------------- equality
def _check_eq(case):
    C = _cohdl()
    out = Outcome()
    s, lvl, wth = case["s"], case["lvl"], case["with"]
    f = Fmt(s, *case["fmt"])
    ra = list(f.raws())
    oa = [_mk(C, f, r) for r in ra]
    if wth == "same_fmt":
        g = f
    elif wth == "other_fmt":
        g = Fmt(s, *case["other"])
    else:
        g = None
    if g is not None:
        rb = list(g.raws())
        ob = [_mk(C, g, r) for r in rb]
        nums = [rf.value(g, r) for r in rb]
        descs = [f"{g} raw={r}" for r in rb]
    else:
        nums = _numbers_around(f, f.lsb / 2)
        if wth == "int":
            nums = [v for v in nums if v.denominator == 1] or [Fraction(0)]
            ob = [int(v) for v in nums]
        else:
            ob = [float(v) for v in nums]
        descs = [repr(o) for o in ob]
    nb = len(ob)

    def fn_p(i):
        return oa[i // nb] == ob[i % nb]

    n = len(ra) * nb
    res = _evaluate(lvl, fn_p, n, lambda: _tmod().f_eq(oa, ob, nb))
    base = {"what": "eq", "type": _tname(s), "lvl": lvl, "with": wth}
    n_rej = 0
    seen = set()
    for i, r in _enum(res):
        if isinstance(r, _Rej):
            n_rej += 1
            out.counters[f"rej_{r.exc}"] = out.counters.get(f"rej_{r.exc}", 0) + 1
            continue
        va, vb = rf.value(f, ra[i // nb]), nums[i % nb]
        if g is None and not rf.representable(f, vb):
            # comparing with a number the format cannot hold: cohdl converts the number first; the
            # statement does not say what that conversion does
            out.counters["unspecified_points"] = out.counters.get("unspecified_points", 0) + 1
            if bool(r) != (va == vb):
                out.counters["eq_true_for_unrepresentable_number"] = out.counters.get(
                    "eq_true_for_unrepresentable_number", 0) + 1
            continue
        try:
            with contextlib.redirect_stdout(io.StringIO()):
                got = bool(r)
        except Exception as e:  # noqa: BLE001
            out.add(dict(base, div="result_object", why=type(e).__name__),
                    f"{_cellname(case)}: result of == is {type(r).__name__}, bool() raised {type(e).__name__}")
            continue
        exp = va == vb
        seen.add(exp)
        if got != exp:
            out.add(dict(base, div="value", expected=exp),
                    f"{_cellname(case)}: ({f} raw={ra[i // nb]} = {va}) == ({descs[i % nb]} = {vb}) gave {got}")
    return _finish(out, case, f"{_tname(s)}.eq.{wth}", n, n_rej, seen == {True, False})


# ----------------------------------------------------------------------------- entry points
_CHECK = {"resize": _check_resize, "binop": _check_binop, "ctor": _check_ctor, "eq": _check_eq}


def check(case):
    return _CHECK[case["k"]](case)


def view(case):
    return _cellname(case)


def selfcheck():
    rf.selfcheck()
    for tier in ("quick", "thorough"):
        for g, fn in _GROUPS.items():
            assert fn(tier), g


# ----------------------------------------------------------------------------- level S (for a later round)
def render_resize_entity(signed: bool, src, dst, rs: str, os_: str, top: str = "Top") -> str:
    """Python source of an Entity: `raw` input port (BitVector[src width]) -> `res` output port
    (BitVector[dst width]) = raw bits of  Fixed[src](raw).resize[dst](rs, os).  One design per cell."""
    sl, sr = src
    dl, dr = dst
    T = "SFixed" if signed else "UFixed"
    view_ = "signed" if signed else "unsigned"
    return f'''from cohdl import std, Entity, Port, BitVector
from cohdl.std import SFixed, UFixed, FixedRoundStyle, FixedOverflowStyle


class {top}(Entity):
    raw = Port.input(BitVector[{sl - sr + 1}])
    res = Port.output(BitVector[{dl - dr + 1}])

    def architecture(self):
        @std.concurrent
        def logic():
            a = {T}[{sl}:{sr}](raw=self.raw.{view_})
            self.res <<= std.to_bits(a.resize[{dl}:{dr}](FixedRoundStyle.{rs}, FixedOverflowStyle.{os_}))
'''


def render_binop_entity(signed: bool, op: str, a, b, top: str = "Top") -> str:
    """Entity with `raw_a`, `raw_b` inputs and `res` output (raw bits of the result).  The width of `res`
    is the one documented by the result-format rule (add/sub: max(left)+1 .. min(right); mul: sum of lefts
    +1 .. sum of rights); (left, right) of that format are returned by `binop_result_format`."""
    T = "SFixed" if signed else "UFixed"
    view_ = "signed" if signed else "unsigned"
    l, r = binop_result_format(op, a, b)
    sym = {"add": "+", "sub": "-", "mul": "*"}[op]
    return f'''from cohdl import std, Entity, Port, BitVector
from cohdl.std import SFixed, UFixed


class {top}(Entity):
    raw_a = Port.input(BitVector[{a[0] - a[1] + 1}])
    raw_b = Port.input(BitVector[{b[0] - b[1] + 1}])
    res = Port.output(BitVector[{l - r + 1}])

    def architecture(self):
        @std.concurrent
        def logic():
            x = {T}[{a[0]}:{a[1]}](raw=self.raw_a.{view_})
            y = {T}[{b[0]}:{b[1]}](raw=self.raw_b.{view_})
            self.res <<= std.to_bits(x {sym} y)
'''


def binop_result_format(op, a, b):
    """smallest format in which every result of the cell is exact (used only to size the S-level port)."""
    if op == "mul":
        return a[0] + b[0] + 1, a[1] + b[1]
    return max(a[0], b[0]) + 1, min(a[1], b[1])
