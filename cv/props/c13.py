"""C13 - parametrised types are canonical and form the documented subtype lattice.

Case = a *history of first uses* of the lazily created, cached classes plus a set of
view chains on objects.  The caches are process-global, so "fresh" cases draw their
widths relative to a per-process counter: every example then exercises the
cache-miss paths in the order the case dictates.  The oracle is a model: a dict from
parameter tuple to the first class returned (identity / distinctness) and the
transitive closure of the documented subclass edges (lattice).
"""
from __future__ import annotations

import itertools

from hypothesis import strategies as st

from cv.harness.runner import Outcome

PROPERTY = "C13"
TECHNIQUE = "model-based generation of type-request histories (Hypothesis) against a dict/closure model"
RULE = (
    "case = ordered list of requests for BitVector/Unsigned/Signed[n] (int, n-1:0 and 0:n-1 forms), "
    "Array[T,n], Signal/Variable/Temporary[T], Port[T,dir] with widths fresh for the process, followed by "
    "view chains on instances; non-trivial = a derived family (Unsigned/Signed[n], Q[...], Port) is requested "
    "before its base BitVector[n]/Signal[T] exists, or a view of a view is taken; distinct = case hash"
)
ASSUMPTIONS = [
    "documented lattice = transitive closure of: U[n],S[n] <= BV[n]; U[n] <= Unsigned <= BitVector; "
    "Q[T1] <= Q[T2] for T1 <= T2; Port[T,d] <= Signal[T]; everything else unrelated",
    "UPTO-ordered vector types are only checked for identity/distinctness, not for their relation to DOWNTO types",
]

_fresh = itertools.count(0)

KINDS = ["bv", "u", "s"]
QUALS = ["Signal", "Variable", "Temporary"]
DIRS = ["INPUT", "OUTPUT", "INOUT"]


def plan(tier):
    n = 16 if tier == "quick" else 64
    per = 150 if tier == "quick" else 900
    return [{"kind": "hyp", "name": f"hist{i}", "examples": per} for i in range(n)]


def _ops():
    vec = st.tuples(st.just("vec"), st.sampled_from(KINDS), st.integers(0, 5), st.sampled_from(["int", "downto", "upto"]))
    base = st.tuples(st.just("base"), st.sampled_from(QUALS + ["Port"]), st.sampled_from(["BitVector", "Unsigned", "Signed", "Bit"]),
                     st.sampled_from(DIRS))
    qual = st.tuples(st.just("qual"), st.sampled_from(QUALS), st.sampled_from(KINDS), st.integers(0, 5))
    port = st.tuples(st.just("port"), st.sampled_from(DIRS), st.sampled_from(KINDS), st.integers(0, 5))
    arr = st.tuples(st.just("arr"), st.sampled_from(KINDS + ["bit"]), st.integers(0, 5), st.integers(1, 4))
    qarr = st.tuples(st.just("qarr"), st.sampled_from(QUALS), st.sampled_from(KINDS + ["bit"]), st.integers(0, 5), st.integers(1, 4))
    return st.one_of(vec, qual, port, arr, base, qarr)


def strategy(shard):
    return st.fixed_dictionaries({
        "mode": st.sampled_from(["fresh", "fresh", "fresh", "abs"]),
        "ops": st.lists(_ops(), min_size=2, max_size=14).map(lambda l: [list(t) for t in l]),
    })


# ---------------------------------------------------------------- model of the lattice
def _t_le(a, b):
    """a, b: type descriptors ('bv'|'u'|'s', width or None) / ('bit',) / ('arr', elem, n)."""
    if a == b:
        return True
    if a[0] in ("bv", "u", "s") and b[0] in ("bv", "u", "s"):
        ka, wa = a
        kb, wb = b
        if wb is not None and wa != wb:
            return False
        if kb == "bv":
            return True  # X[n] <= BV[n], X[n] <= BV, X <= BV
        return ka == kb  # U[n] <= Unsigned
    return False


def _q_le(a, b):
    qa, da, ta = a
    qb, db, tb = b
    if qa == qb:
        if da != db:
            return False
    elif not (qa == "Port" and qb == "Signal"):
        return False
    return _t_le(ta, tb)


def check(case):
    import cohdl
    from cohdl import Array, Bit, BitVector, Port, Signal, Signed, Temporary, Unsigned, Variable

    out = Outcome()
    base = (1000 + 8 * next(_fresh)) if case["mode"] == "fresh" else 1
    KCLS = {"bv": BitVector, "u": Unsigned, "s": Signed}
    QCLS = {"Signal": Signal, "Variable": Variable, "Temporary": Temporary, "Port": Port}

    model = {}  # param tuple -> class
    descr = {}  # param tuple -> lattice descriptor
    seen_widths = set()
    seen_sig = set()

    def note(key, cls, d=None):
        if key in model:
            if model[key] is not cls:
                out.add({"kind": "identity", "family": key[0]}, f"{key}: second request returned a different class")
        else:
            model[key] = cls
            if d is not None:
                descr[key] = d

    def vec(kind, w, form="int"):
        width = base + w
        if width == 1 and form == "downto":
            form = "upto"  # [0:0] is documented to parse as the UPTO form
        if form == "int":
            cls = KCLS[kind][width]
        elif form == "downto":
            cls = KCLS[kind][width - 1:0]
        else:
            cls = KCLS[kind][0:width - 1]
        if form == "upto":
            note(("vecup", kind, width), cls)
        else:
            if kind != "bv" and ("bv", width) not in seen_widths:
                out.labels.append("derived_before_base")
                out.nontrivial = True
            seen_widths.add((kind, width))
            note(("vec", kind, width), cls, ("T", (kind, width)))
        return cls

    def elem(kind, w):
        return Bit if kind == "bit" else vec(kind, w)

    def tdesc(kind, w):
        return ("bit",) if kind == "bit" else (kind, base + w)

    try:
        for op in case["ops"]:
            tag = op[0]
            if tag == "vec":
                vec(op[1], op[2], op[3])
            elif tag == "base":
                q, b, d = op[1], op[2], op[3]
                T = {"BitVector": BitVector, "Unsigned": Unsigned, "Signed": Signed, "Bit": Bit}[b]
                td = {"BitVector": ("bv", None), "Unsigned": ("u", None), "Signed": ("s", None), "Bit": ("bit",)}[b]
                if q == "Port":
                    cls = Port[T, getattr(Port.Direction, d)]
                    note(("q", q, d, td), cls, ("Q", (q, d, td)))
                else:
                    cls = QCLS[q][T]
                    note(("q", q, None, td), cls, ("Q", (q, None, td)))
            elif tag == "qual":
                q, kind, w = op[1], op[2], op[3]
                T = KCLS[kind][base + w]  # direct: may create the vector class on the way
                note(("vec", kind, base + w), T, ("T", (kind, base + w)))
                cls = QCLS[q][T]
                if ("bv", base + w) not in seen_widths:
                    out.labels.append("qualified_before_base")
                    out.nontrivial = True
                note(("q", q, None, (kind, base + w)), cls, ("Q", (q, None, (kind, base + w))))
            elif tag == "port":
                d, kind, w = op[1], op[2], op[3]
                T = KCLS[kind][base + w]
                note(("vec", kind, base + w), T, ("T", (kind, base + w)))
                if ("Signal", kind, base + w) not in seen_sig:
                    out.labels.append("port_before_signal")
                    out.nontrivial = True
                cls = Port[T, getattr(Port.Direction, d)]
                note(("q", "Port", d, (kind, base + w)), cls, ("Q", ("Port", d, (kind, base + w))))
            elif tag == "arr":
                kind, w, n = op[1], op[2], op[3]
                cls = Array[elem(kind, w), n]
                note(("arr", tdesc(kind, w), n), cls)
            elif tag == "qarr":
                q, kind, w, n = op[1], op[2], op[3], op[4]
                A = Array[elem(kind, w), n]
                note(("arr", tdesc(kind, w), n), A)
                cls = QCLS[q][A]
                note(("q", q, None, ("arr", tdesc(kind, w), n)), cls, ("Q", (q, None, ("arr", tdesc(kind, w), n))))
            if tag == "qual" and op[1] == "Signal":
                seen_sig.add(("Signal", op[2], base + op[3]))
    except Exception as e:  # noqa: BLE001 - class creation failing is itself a broken cache/lattice
        out.add({"kind": "raise", "exc": type(e).__name__, "op": op[0]}, f"{op}: {type(e).__name__}: {e}")
        return out

    # distinctness: different parameters -> different class objects
    byid = {}
    for key, cls in model.items():
        other = byid.setdefault(id(cls), key)
        if other != key:
            # int form and downto form are the same parameters: keys are normalised, so this is a real clash
            out.add({"kind": "distinct", "families": sorted({key[0], other[0]})}, f"{key} and {other} share one class")
    # second request returns the identical object (cache hit path), in reverse order
    for key, cls in reversed(list(model.items())):
        again = _request(key, KCLS, QCLS)
        if again is not None and again is not cls:
            out.add({"kind": "identity", "family": key[0]}, f"{key}: re-request returned a different class")

    # lattice among everything with a descriptor
    items = [(k, model[k], descr[k]) for k in descr]
    for (ka, ca, da), (kb, cb, db) in itertools.product(items, items):
        if da[0] != db[0]:
            continue
        exp = _t_le(da[1], db[1]) if da[0] == "T" else _q_le(da[1], db[1])
        got = issubclass(ca, cb)
        out.counters["pairs"] = out.counters.get("pairs", 0) + 1
        if exp != got:
            out.add({"kind": "lattice", "expected": exp, "a": _shape(da), "b": _shape(db)},
                    f"issubclass({ka}, {kb}) = {got}, documented lattice says {exp}")
    # wrapped type / direction round trip
    for k, c, d in items:
        if d[0] == "Q" and d[1][2][0] in KCLS and d[1][2][1] is not None:
            kind, width = d[1][2]
            if c._Wrapped is not KCLS[kind][width]:
                out.add({"kind": "wrapped", "q": d[1][0]}, f"{k}: wrapped type is {c._Wrapped}")
    return out


def _shape(d):
    if d[0] == "T":
        return ["T", d[1][0], "n" if d[1][1] is not None else None]
    q, dr, t = d[1]
    return ["Q", q, bool(dr), t[0], "n" if len(t) > 1 and t[1] is not None else None]


def _request(key, KCLS, QCLS):
    from cohdl import Array, Bit, BitVector, Port, Signed, Unsigned

    def T(td):
        if td == ("bit",):
            return Bit
        if td[0] == "arr":
            return Array[T(td[1]), td[2]]
        k, w = td
        return KCLS[k] if w is None else KCLS[k][w]

    if key[0] == "vec":
        return KCLS[key[1]][key[2]]
    if key[0] == "vecup":
        return KCLS[key[1]][0:key[2] - 1]
    if key[0] == "arr":
        return Array[T(key[1]), key[2]]
    if key[0] == "q":
        _, q, d, td = key
        if q == "Port":
            return Port[T(td), getattr(Port.Direction, d)]
        return QCLS[q][T(td)]
    return None


def view(case):
    return {"mode": case["mode"], "ops": [" ".join(map(str, o)) for o in case["ops"]]}
