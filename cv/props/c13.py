"""C13 - parametrised types are canonical and form the documented subtype lattice.

Case = a *history of first uses* of the lazily created, cached classes plus a set of
view chains on objects.  The caches are process-global, so "fresh" cases draw their
widths relative to a per-process counter: every example then exercises the
cache-miss paths in the order the case dictates.  The oracle is a model: a dict from
parameter tuple to the first class returned (identity / distinctness) and the
transitive closure of the documented subclass edges (lattice).
"""
from __future__ import annotations

import itertools

from hypothesis import strategies as st

from cv.harness.runner import Outcome

PROPERTY = "C13"
TECHNIQUE = ("model-based generation of type-request histories and of view chains (Hypothesis) against a dict/closure "
             "model of the lattice and a bit-position model of views")
RULE = (
    "case = ordered list of requests for BitVector/Unsigned/Signed[n] (int, n-1:0 and 0:n-1 forms), "
    "Array[T,n], Signal/Variable/Temporary[T], Port[T,dir] with widths fresh for the process, followed by "
    "view chains on instances; non-trivial = a derived family (Unsigned/Signed[n], Q[...], Port) is requested "
    "before its base BitVector[n]/Signal[T] exists, or a view of a view is taken; distinct = case hash. "
    "view cases = Signal/Variable/Temporary[T] for vector T (width 1-9) or Array[T,1-4] with a generated chain of "
    ".unsigned/.signed/.bitvector, static slices, indices, msb/lsb/left/right (bit, count, rest forms) and iteration, "
    "checked at the Python level (root, qualifier, bits read for 2-3 root patterns, write-through both ways for "
    "Signal/Variable, constant _ref_spec) and, in viewvhdl cases, in the index text of the emitted VHDL "
    "(o <<= view / view <<= inp)"
)
ASSUMPTIONS = [
    "documented lattice = transitive closure of: U[n],S[n] <= BV[n]; U[n] <= Unsigned <= BitVector; "
    "Q[T1] <= Q[T2] for T1 <= T2; Port[T,d] <= Signal[T]; everything else unrelated",
    "UPTO-ordered vector types are only checked for identity/distinctness, not for their relation to DOWNTO types",
    "views: only DOWNTO roots, constant indices and static slices; Temporary has no Python level write API, so "
    "write-through is checked for Signal and Variable only; the wrapped kind of a view (e.g. slice of Unsigned) is "
    "not asserted, only which root bits it shows",
    "views at VHDL level: the emitted index text of the single assignment is compared with the modelled root "
    "indices (no simulation; cv.vhdl is not available yet); a _ref_spec is resolved as the VHDL backend does "
    "(constant base offsets added to offset / start / stop)",
]

_fresh = itertools.count(0)

KINDS = ["bv", "u", "s"]
QUALS = ["Signal", "Variable", "Temporary"]
DIRS = ["INPUT", "OUTPUT", "INOUT"]


def plan(tier):
    n = 16 if tier == "quick" else 64
    per = 150 if tier == "quick" else 900
    shards = [{"kind": "hyp", "name": f"hist{i}", "examples": per} for i in range(n)]
    nv, pv = (4, 500) if tier == "quick" else (16, 4000)
    shards += [{"kind": "hyp", "name": f"view{i}", "examples": pv, "gen": "view"} for i in range(nv)]
    nh, ph = (4, 150) if tier == "quick" else (16, 1200)
    shards += [{"kind": "hyp", "name": f"viewvhdl{i}", "examples": ph, "gen": "viewvhdl"} for i in range(nh)]
    # coverage-guided: libFuzzer bytes decoded by the same history strategy (cv/harness/fuzz.py)
    # (each history creates new classes in cohdl's caches, so the process grows with the number of executions; 40 000 stay
    # well below the rss limit given to libFuzzer in cv/harness/fuzz.py)
    nf, pf = (1, 4000) if tier == "quick" else (8, 40000)
    shards += [{"kind": "fuzz", "name": f"fuzzhist{i}", "runs": pf, "max_len": 4096} for i in range(nf)]
    return shards


def _ops():
    vec = st.tuples(st.just("vec"), st.sampled_from(KINDS), st.integers(0, 5), st.sampled_from(["int", "downto", "upto"]))
    base = st.tuples(st.just("base"), st.sampled_from(QUALS + ["Port"]), st.sampled_from(["BitVector", "Unsigned", "Signed", "Bit", "Boolean", "bool", "Integer", "int"]),
                     st.sampled_from(DIRS))
    qual = st.tuples(st.just("qual"), st.sampled_from(QUALS), st.sampled_from(KINDS), st.integers(0, 5))
    port = st.tuples(st.just("port"), st.sampled_from(DIRS), st.sampled_from(KINDS), st.integers(0, 5))
    arr = st.tuples(st.just("arr"), st.sampled_from(KINDS + ["bit"]), st.integers(0, 5), st.integers(1, 4))
    qarr = st.tuples(st.just("qarr"), st.sampled_from(QUALS), st.sampled_from(KINDS + ["bit"]), st.integers(0, 5), st.integers(1, 4))
    return st.one_of(vec, qual, port, arr, base, qarr)


def strategy(shard):
    if shard.get("gen") == "view":
        return _view_case()
    if shard.get("gen") == "viewvhdl":
        return _view_case(vhdl=True)
    return st.fixed_dictionaries({
        "mode": st.sampled_from(["fresh", "fresh", "fresh", "abs"]),
        "ops": st.lists(_ops(), min_size=2, max_size=14).map(lambda l: [list(t) for t in l]),
    })


# ---------------------------------------------------------------- model of the lattice
def _t_le(a, b):
    """a, b: type descriptors ('bv'|'u'|'s', width or None) / ('bit',) / ('arr', elem, n)."""
    if a == b:
        return True
    if a[0] in ("bv", "u", "s") and b[0] in ("bv", "u", "s"):
        ka, wa = a
        kb, wb = b
        if wb is not None and wa != wb:
            return False
        if kb == "bv":
            return True  # X[n] <= BV[n], X[n] <= BV, X <= BV
        return ka == kb  # U[n] <= Unsigned
    return False


def _q_le(a, b):
    qa, da, ta = a
    qb, db, tb = b
    if qa == qb:
        if da != db:
            return False
    elif not (qa == "Port" and qb == "Signal"):
        return False
    return _t_le(ta, tb)


def check(case):
    if case.get("kind") == "view":
        return _check_view(case)
    if case.get("kind") == "viewvhdl":
        return _check_view_vhdl(case)
    return _check_history(case)


def _check_history(case):
    import cohdl
    from cohdl import Array, Bit, BitVector, Port, Signal, Signed, Temporary, Unsigned, Variable

    out = Outcome()
    base = (1000 + 8 * next(_fresh)) if case["mode"] == "fresh" else 1
    KCLS = {"bv": BitVector, "u": Unsigned, "s": Signed}
    QCLS = {"Signal": Signal, "Variable": Variable, "Temporary": Temporary, "Port": Port}

    model = {}  # param tuple -> class
    descr = {}  # param tuple -> lattice descriptor
    seen_widths = set()
    seen_sig = set()

    def note(key, cls, d=None):
        if key in model:
            if model[key] is not cls:
                out.add({"kind": "identity", "family": key[0]}, f"{key}: second request returned a different class")
        else:
            model[key] = cls
            if d is not None:
                descr[key] = d

    def vec(kind, w, form="int"):
        width = base + w
        if width == 1 and form == "downto":
            form = "upto"  # [0:0] is documented to parse as the UPTO form
        if form == "int":
            cls = KCLS[kind][width]
        elif form == "downto":
            cls = KCLS[kind][width - 1:0]
        else:
            cls = KCLS[kind][0:width - 1]
        if form == "upto":
            note(("vecup", kind, width), cls)
        else:
            if kind != "bv" and ("bv", width) not in seen_widths:
                out.labels.append("derived_before_base")
                out.nontrivial = True
            seen_widths.add((kind, width))
            note(("vec", kind, width), cls, ("T", (kind, width)))
        return cls

    def elem(kind, w):
        return Bit if kind == "bit" else vec(kind, w)

    def tdesc(kind, w):
        return ("bit",) if kind == "bit" else (kind, base + w)

    try:
        for op in case["ops"]:
            tag = op[0]
            if tag == "vec":
                vec(op[1], op[2], op[3])
            elif tag == "base":
                q, b, d = op[1], op[2], op[3]
                # bool/int are documented spellings of Boolean/Integer: equal parameters, so the identical class
                T = {"BitVector": BitVector, "Unsigned": Unsigned, "Signed": Signed, "Bit": Bit,
                     "Boolean": cohdl.Boolean, "bool": bool, "Integer": cohdl.Integer, "int": int}[b]
                td = {"BitVector": ("bv", None), "Unsigned": ("u", None), "Signed": ("s", None), "Bit": ("bit",),
                      "Boolean": ("boolean",), "bool": ("boolean",), "Integer": ("integer",), "int": ("integer",)}[b]
                if b in ("bool", "int"):
                    out.labels.append("builtin_alias")
                if q == "Port":
                    cls = Port[T, getattr(Port.Direction, d)]
                    note(("q", q, d, td), cls, ("Q", (q, d, td)))
                else:
                    cls = QCLS[q][T]
                    note(("q", q, None, td), cls, ("Q", (q, None, td)))
            elif tag == "qual":
                q, kind, w = op[1], op[2], op[3]
                T = KCLS[kind][base + w]  # direct: may create the vector class on the way
                note(("vec", kind, base + w), T, ("T", (kind, base + w)))
                cls = QCLS[q][T]
                if ("bv", base + w) not in seen_widths:
                    out.labels.append("qualified_before_base")
                    out.nontrivial = True
                note(("q", q, None, (kind, base + w)), cls, ("Q", (q, None, (kind, base + w))))
            elif tag == "port":
                d, kind, w = op[1], op[2], op[3]
                T = KCLS[kind][base + w]
                note(("vec", kind, base + w), T, ("T", (kind, base + w)))
                if ("Signal", kind, base + w) not in seen_sig:
                    out.labels.append("port_before_signal")
                    out.nontrivial = True
                cls = Port[T, getattr(Port.Direction, d)]
                note(("q", "Port", d, (kind, base + w)), cls, ("Q", ("Port", d, (kind, base + w))))
            elif tag == "arr":
                kind, w, n = op[1], op[2], op[3]
                cls = Array[elem(kind, w), n]
                note(("arr", tdesc(kind, w), n), cls)
            elif tag == "qarr":
                q, kind, w, n = op[1], op[2], op[3], op[4]
                A = Array[elem(kind, w), n]
                note(("arr", tdesc(kind, w), n), A)
                cls = QCLS[q][A]
                note(("q", q, None, ("arr", tdesc(kind, w), n)), cls, ("Q", (q, None, ("arr", tdesc(kind, w), n))))
            if tag == "qual" and op[1] == "Signal":
                seen_sig.add(("Signal", op[2], base + op[3]))
    except Exception as e:  # noqa: BLE001 - class creation failing is itself a broken cache/lattice
        out.add({"kind": "raise", "exc": type(e).__name__, "op": op[0]}, f"{op}: {type(e).__name__}: {e}")
        return out

    # distinctness: different parameters -> different class objects
    byid = {}
    for key, cls in model.items():
        other = byid.setdefault(id(cls), key)
        if other != key:
            # int form and downto form are the same parameters: keys are normalised, so this is a real clash
            out.add({"kind": "distinct", "families": sorted({key[0], other[0]})}, f"{key} and {other} share one class")
    # second request returns the identical object (cache hit path), in reverse order
    for key, cls in reversed(list(model.items())):
        again = _request(key, KCLS, QCLS)
        if again is not None and again is not cls:
            out.add({"kind": "identity", "family": key[0]}, f"{key}: re-request returned a different class")

    # lattice among everything with a descriptor
    items = [(k, model[k], descr[k]) for k in descr]
    for (ka, ca, da), (kb, cb, db) in itertools.product(items, items):
        if da[0] != db[0]:
            continue
        exp = _t_le(da[1], db[1]) if da[0] == "T" else _q_le(da[1], db[1])
        got = issubclass(ca, cb)
        out.counters["pairs"] = out.counters.get("pairs", 0) + 1
        if exp != got:
            out.add({"kind": "lattice", "expected": exp, "a": _shape(da), "b": _shape(db)},
                    f"issubclass({ka}, {kb}) = {got}, documented lattice says {exp}")
    # wrapped type / direction round trip
    for k, c, d in items:
        if d[0] == "Q" and d[1][2][0] in KCLS and d[1][2][1] is not None:
            kind, width = d[1][2]
            if c._Wrapped is not KCLS[kind][width]:
                out.add({"kind": "wrapped", "q": d[1][0]}, f"{k}: wrapped type is {c._Wrapped}")
    return out


def _shape(d):
    if d[0] == "T":
        return ["T", d[1][0], "n" if d[1][1] is not None else None]
    q, dr, t = d[1]
    return ["Q", q, bool(dr), t[0], "n" if len(t) > 1 and t[1] is not None else None]


def _request(key, KCLS, QCLS):
    import cohdl
    from cohdl import Array, Bit, BitVector, Port, Signed, Unsigned

    def T(td):
        if td == ("bit",):
            return Bit
        if td == ("boolean",):
            return cohdl.Boolean
        if td == ("integer",):
            return cohdl.Integer
        if td[0] == "arr":
            return Array[T(td[1]), td[2]]
        k, w = td
        return KCLS[k] if w is None else KCLS[k][w]

    if key[0] == "vec":
        return KCLS[key[1]][key[2]]
    if key[0] == "vecup":
        return KCLS[key[1]][0:key[2] - 1]
    if key[0] == "arr":
        return Array[T(key[1]), key[2]]
    if key[0] == "q":
        _, q, d, td = key
        if q == "Port":
            return Port[T(td), getattr(Port.Direction, d)]
        return QCLS[q][T(td)]
    return None


def view(case):
    if case.get("kind") in ("view", "viewvhdl"):
        return case
    return {"mode": case["mode"], "ops": [" ".join(map(str, o)) for o in case["ops"]]}


# =====================================================================================================
# Views: .unsigned/.signed/.bitvector, slices, indices, msb/lsb/left/right, iteration
# =====================================================================================================
# A chain of view operations is generated together with a plain-Python *position model*:
# the list of root bit indices (LSB first) the view must show.  Checked per case:
#   python level  (kind "view"):     _root is the original object, the qualifier is the root's qualifier, the
#                                    view reads exactly the modelled root bits for several distinctive root
#                                    patterns (fresh roots) and - for Signal/Variable, which have a Python level
#                                    write API - writes through the view change exactly the modelled root bits
#                                    and writes to the root show up in the view; the constant _ref_spec of the
#                                    view resolves to the modelled positions.
#   VHDL level    (kind "viewvhdl"): a tiny entity `o_k <<= view_k` (read) / `view <<= inp` (write) is compiled
#                                    and the index text emitted for the root must name the modelled positions.
#                                    (No simulation: the in-house VHDL engine is not available yet.)
VIEW_CASTS = ["unsigned", "signed", "bitvector"]


@st.composite
def _chain(draw, width, is_array, n_elems, max_ops=5):
    """-> (ops, model) ; model = {"elem": int|None, "pos": [root bit indices], "bit": bool, "depth": slices so far}"""
    ops = []
    elem = None
    if is_array:
        k = draw(st.integers(0, n_elems - 1))
        ops.append([draw(st.sampled_from(["idx", "iter"])), k])
        elem = k
    pos = list(range(width))
    bit = False
    for _ in range(draw(st.integers(0 if is_array else 1, max_ops))):
        if bit:
            break
        n = len(pos)
        choice = draw(st.sampled_from(["slice", "slice", "slice", "idx", "iter", "cast", "msb", "lsb", "left", "right"]))
        if choice == "slice":
            lo = draw(st.integers(0, n - 1))
            hi = draw(st.integers(lo, n - 1))
            ops.append(["slice", hi, lo])
            pos = pos[lo:hi + 1]
        elif choice in ("idx", "iter"):
            i = draw(st.integers(0, n - 1))
            ops.append([choice, i])
            pos = [pos[i]]
            bit = True
        elif choice == "cast":
            ops.append([draw(st.sampled_from(VIEW_CASTS))])
        else:
            form = draw(st.sampled_from(["bit", "count", "rest", "both"]))
            top = choice in ("msb", "left")
            if form == "bit":
                ops.append([choice, None, None])
                pos = [pos[n - 1] if top else pos[0]]
                bit = True
            else:
                cnt = draw(st.integers(1, n))
                ops.append([choice, cnt if form in ("count", "both") else None, (n - cnt) if form in ("rest", "both") else None])
                pos = pos[n - cnt:] if top else pos[:cnt]
    return ops, {"elem": elem, "pos": pos, "bit": bit}


@st.composite
def _view_case(draw, vhdl=False):
    is_array = draw(st.integers(0, 3)) == 0
    kind = draw(st.sampled_from(KINDS))
    width = draw(st.integers(1, 9))
    n = draw(st.integers(1, 4)) if is_array else 0
    root = {"t": "arr" if is_array else "vec", "k": kind, "w": width, "n": n}
    if vhdl:
        direction = draw(st.sampled_from(["read", "read", "write"]))
        nch = draw(st.integers(1, 4)) if direction == "read" else 1
        chains = []
        for _ in range(nch):
            ops, model = draw(_chain(width, is_array, n))
            chains.append({"ops": ops, "model": model})
        return {"kind": "viewvhdl", "dir": direction, "root": root, "chains": chains}
    ops, model = draw(_chain(width, is_array, n))
    nbits = width * max(n, 1)
    pats = draw(st.lists(st.integers(0, 2 ** nbits - 1), min_size=2, max_size=3))
    return {"kind": "view", "qual": draw(st.sampled_from(QUALS)), "root": root, "ops": ops, "model": model, "pats": pats,
            "wpat": draw(st.integers(0, 2 ** 9 - 1))}


def _apply_chain(obj, ops):
    for op in ops:
        tag = op[0]
        if tag == "slice":
            obj = obj[op[1]:op[2]]
        elif tag == "idx":
            obj = obj[op[1]]
        elif tag == "iter":
            obj = list(obj)[op[1]]
        elif tag in VIEW_CASTS:
            obj = getattr(obj, tag)
        else:
            kw = {}
            if op[1] is not None:
                kw["count"] = op[1]
            if op[2] is not None:
                kw["rest"] = op[2]
            obj = getattr(obj, tag)(**kw)
    return obj


def _chain_shape(ops):
    """Root-cause oriented description of a chain: last operation and what it was applied to."""
    slices = 0
    for op in ops[:-1]:
        if op[0] == "slice" or (op[0] in ("msb", "lsb", "left", "right") and (op[1] is not None or op[2] is not None)):
            slices += 1
    last = ops[-1][0] if ops else "none"
    if last in ("msb", "lsb", "left", "right"):
        last += "_bit" if ops[-1][1] is None and ops[-1][2] is None else "_vec"
    return {"last": last, "slices_before": min(slices, 2)}


def _bits_of(value):
    """LSB-first list of '0'/'1' characters of a Bit / BitVector value (plain str() of the value: MSB first)."""
    from cohdl import Bit

    if isinstance(value, Bit):
        return ["1" if value else "0"]
    return [("1" if b else "0") for b in value]


def _root_type(root):
    from cohdl import Array, BitVector, Signed, Unsigned

    T = {"bv": BitVector, "u": Unsigned, "s": Signed}[root["k"]][root["w"]]
    return Array[T, root["n"]] if root["t"] == "arr" else T


def _root_init(root, pat):
    from cohdl import BitVector

    w = root["w"]
    if root["t"] == "vec":
        return BitVector[w](format(pat % (1 << w), f"0{w}b"))
    vals = []
    for i in range(root["n"]):
        vals.append(_root_type({**root, "t": "vec"})(BitVector[w](format((pat >> (i * w)) % (1 << w), f"0{w}b"))))
    return vals


def _model_bits(root, model, pat):
    w = root["w"]
    word = (pat >> (model["elem"] * w)) % (1 << w) if model["elem"] is not None else pat % (1 << w)
    return ["1" if (word >> p) & 1 else "0" for p in model["pos"]]


def _resolve_ref_spec(view):
    """Constant _ref_spec -> path of ("o", index) / ("s", low, high) steps (base offsets folded in, as the
    VHDL backend does with RefSpec.simplify(), but without mutating the spec)."""
    from cohdl._core._type_qualifier import Offset, Slice

    path = []
    for r in view._ref_spec:
        base = sum(r.base_offset)
        if isinstance(r, Offset):
            path.append(("o", r.offset + base))
        elif isinstance(r, Slice):
            path.append(("s", r.stop + base, r.start + base))
    return path


def _check_view(case):
    from cohdl import Array, Bit, BitVector, Signal, Signed, Temporary, Unsigned, Variable

    out = Outcome()
    QCLS = {"Signal": Signal, "Variable": Variable, "Temporary": Temporary}
    Q = QCLS[case["qual"]]
    root, ops, model = case["root"], case["ops"], case["model"]
    T = _root_type(root)
    shape = _chain_shape(ops)
    sig = lambda check, **kw: {"kind": "view", "check": check, **shape, **kw}  # noqa: E731
    out.labels.append(f"view:last={shape['last']}")
    out.labels.append(f"view:slices_before={shape['slices_before']}")
    out.labels.append("view:array_root" if root["t"] == "arr" else "view:vector_root")
    out.nontrivial = len(ops) >= 2
    if len(ops) >= 2:
        out.labels.append("view_of_view")

    views = []
    try:
        for pat in case["pats"]:
            r = Q[T](_root_init(root, pat))
            views.append((pat, r, _apply_chain(r, ops)))
    except Exception as e:  # noqa: BLE001 - the documented view API refused a chain the generator considers valid
        out.status = "rejected"
        out.labels.append(f"view_rejected:{type(e).__name__}")
        return out

    for pat, r, v in views:
        if v._root is not r:
            out.add(sig("root"), f"{ops}: view._root is not the original object")
        if not isinstance(v, Q):
            out.add(sig("qualifier"), f"{ops}: view is a {type(v)}, root is a {case['qual']}")
        got = _bits_of(v._value) if not isinstance(v._value, Array) else None
        exp = _model_bits(root, model, pat)
        if got is None:
            continue  # chain ended on the array itself (no operation): nothing to read
        if got != exp:
            out.add(sig("read"), f"{ops} on root pattern {pat:#x}: view shows bits (LSB first) {got}, model {exp}")
    # constant _ref_spec must resolve to the modelled positions
    pat, r, v = views[0]
    path = _resolve_ref_spec(v)
    pos = model["pos"]
    want_elem = [("o", model["elem"])] if model["elem"] is not None else []
    if model["bit"]:
        want = [want_elem + [("o", pos[0])]]
    else:
        want = [want_elem + [("s", pos[0], pos[-1])]]
        if pos == list(range(root["w"])):
            want.append(want_elem)  # whole vector / element: no slice needed
    if path not in want:
        out.add(sig("refspec"), f"{ops}: _ref_spec resolves to {path}, model says {want[0]} "
                f"(o = index, s = (low, high) bit positions of the root)")
    # write-through (Signal / Variable have a Python level assignment API)
    if case["qual"] in ("Signal", "Variable") and not isinstance(v._value, Array):
        attr = "next" if case["qual"] == "Signal" else "value"
        n = len(pos)
        wp = case["wpat"] % (1 << n)
        before = _all_bits(r, root)
        try:
            if model["bit"]:
                setattr(v, attr, Bit(bool(wp & 1)))
            else:
                setattr(v, attr, type(v._value)(BitVector[n](format(wp, f"0{n}b"))))
        except Exception as e:  # noqa: BLE001
            out.labels.append(f"view_write_rejected:{type(e).__name__}")
        else:
            after = _all_bits(r, root)
            expect = list(before)
            base = (model["elem"] or 0) * root["w"]
            for i, p in enumerate(pos):
                expect[base + p] = "1" if (wp >> i) & 1 else "0"
            if after != expect:
                out.add(sig("write"), f"{ops}: writing {wp:#b} through the view changed the root from {before} to {after}, "
                        f"model says {expect} (LSB first, elements concatenated)")
            # and the other direction: a write to the root is visible through the existing view
            pat2 = case["pats"][-1] ^ ((1 << (root["w"] * max(root["n"], 1))) - 1)
            try:
                if root["t"] == "vec":
                    setattr(r, attr, type(r._value)(_root_init(root, pat2)))
                else:
                    for i, el in enumerate(_root_init(root, pat2)):
                        setattr(r[i], attr, el)
            except Exception as e:  # noqa: BLE001
                out.labels.append(f"root_write_rejected:{type(e).__name__}")
            else:
                got = _bits_of(v._value)
                exp = _model_bits(root, model, pat2)
                if got != exp:
                    out.add(sig("alias"), f"{ops}: after re-assigning the root to {pat2:#x} the old view shows {got}, model {exp}")
    return out


def _all_bits(r, root):
    from cohdl import Array

    if root["t"] == "vec":
        return _bits_of(r._value)
    bits = []
    for el in r._value:
        bits += _bits_of(el)
    return bits


# ----------------------------------------------------------------------------------- VHDL level
def _make_view_entity(root, chains, direction):
    """Entity class whose concurrent context reads (o_k <<= view_k) or writes (view <<= inp) the views."""
    from cohdl import Entity, Port, Signal, std

    T = _root_type(root)
    scratch = Signal[T]()
    vtypes = [type(_apply_chain(scratch, ch["ops"])._value) for ch in chains]

    if direction == "read":
        def architecture(self):
            views = [_apply_chain(self.rootsig, ch["ops"]) for ch in chains]
            outs = [getattr(self, f"o{k}") for k in range(len(views))]

            @std.concurrent
            def logic():
                for o, v in zip(outs, views):
                    o <<= v

        ns = {"rootsig": Port.input(T), "architecture": architecture}
        for k, vt in enumerate(vtypes):
            ns[f"o{k}"] = Port.output(vt)
    else:
        def architecture(self):
            rootsig = Signal[T](name="rootsig")
            views = [_apply_chain(rootsig, chains[0]["ops"])]
            inp = self.inp

            @std.concurrent
            def logic():
                views[0] <<= inp

        ns = {"inp": Port.input(vtypes[0]), "architecture": architecture}
    return type("ViewTop", (Entity,), ns)


_IDX = r"((?:\(\s*\d+(?:\s+downto\s+\d+)?\s*\))*)"


def _index_groups(text, name="rootsig"):
    """All occurrences of `name` in text with their index groups: [[(hi, lo) | (i,)], ...]"""
    import re

    res = []
    for m in re.finditer(r"\b" + name + r"\b" + _IDX, text):
        groups = []
        for g in re.finditer(r"\(\s*(\d+)(?:\s+downto\s+(\d+))?\s*\)", m.group(1)):
            groups.append((int(g.group(1)),) if g.group(2) is None else (int(g.group(1)), int(g.group(2))))
        res.append(groups)
    return res


def _expected_groups(root, model):
    """Acceptable index texts for the modelled positions."""
    pos = model["pos"]
    pre = [(model["elem"],)] if model["elem"] is not None else []
    if model["bit"]:
        return [pre + [(pos[0],)]]
    alts = [pre + [(pos[-1], pos[0])]]
    if pos == list(range(root["w"])):
        alts.append(pre)
    return alts


def _check_view_vhdl(case):
    import re

    from cv.harness import loader

    out = Outcome()
    root, chains, direction = case["root"], case["chains"], case["dir"]
    out.labels.append(f"viewvhdl:{direction}")
    try:
        cls = _make_view_entity(root, chains, direction)
    except Exception as e:  # noqa: BLE001 - the view API refused the chain
        out.status = "rejected"
        out.labels.append(f"view_rejected:{type(e).__name__}")
        return out
    try:
        vhdl = loader.compile_entity(cls)
    except loader.Rejected as r:
        out.status = "rejected"
        out.labels.append(f"viewvhdl_rejected:{r.exc_type}")
        return out
    out.nontrivial = any(len(ch["ops"]) >= 2 for ch in chains)
    lines = [l.strip() for l in vhdl.splitlines() if "<=" in l]
    for k, ch in enumerate(chains):
        shape = _chain_shape(ch["ops"])
        out.labels.append(f"view:last={shape['last']}")
        if direction == "read":
            cand = [l for l in lines if re.match(rf"(buffer_)?o{k}\b", l)]
            cand = [l.split("<=", 1)[1] for l in cand if "rootsig" in l.split("<=", 1)[1]]
        else:
            cand = [l.split("<=", 1)[0] for l in lines if re.match(r"rootsig\b", l)]
        if len(cand) != 1:
            out.status = "unspecified"  # the emitted text does not have the one-assignment form this check reads
            out.labels.append("viewvhdl:unreadable")
            continue
        occ = _index_groups(cand[0])
        if len(occ) != 1:
            out.status = "unspecified"
            out.labels.append("viewvhdl:unreadable")
            continue
        want = _expected_groups(root, ch["model"])
        if occ[0] not in want:
            out.add({"kind": "view", "check": "vhdl_index", "dir": direction, **shape},
                    f"{ch['ops']} on {root}: emitted `{cand[0].strip()}`; modelled root index {want[0]} "
                    f"((i,) = element/bit index, (hi, lo) = hi downto lo)")
        else:
            out.counters["vhdl_indices_checked"] = out.counters.get("vhdl_indices_checked", 0) + 1
    return out
