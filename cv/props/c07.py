"""C07 - one driver per signal: conflicts rejected, accepted designs conflict-free.

case (PlacementSpec) =
    {"objs":  [{"k": "sig"|"out"|"in"|"var"|"tmp"}, ...],                       1..3 objects, all BitVector[4]
     "sites": [{"k": "seq"|"conc"|"always"|"inst"|"inline"|"block"|"dup_seq"|"dup_conc",
                "extra": [[obj, acc], ...],                                      only inst/inline: further OUTPUT ports of the same
                                                                                 instance (a root may be driven by >= 2 of them)
                "n": 2|3, "how": "loop"|"factory",                               only dup_*: copies of one definition
                "acts": [[obj, "r"|"w"|"rw"|"wi0"|"wi1"|"wi2", acc], ...],      wiN: write through an inline VHDL statement,
                                                                                 stored in a local and re-expanded N times                         at most one entry per object
                "body": [[obj, rw, acc], ...]}, ...]}                            only "always": process body of the same context
    acc = ["whole"] | ["slice", hi, lo] | ["elem", i] | ["dyn"]
    "depth": 1|2|3   the placement lives in the top entity (1) or in a sub-entity `Core` instantiated by 1-2 wrappers

Sites are rendered in order (cohdl traces contexts in definition order):
    raw_seq / raw_conc   contexts made with the core API cohdl.sequential_context / cohdl.concurrent_context (no std
            wrapper: no implicit cohdl.reset_pushed(), explicit sensitivity list and rising_edge test)
    write kind "wp": push assignment `x ^= v` (sequential contexts only; the object then gets a default value)
    always_inline   sequential context whose `with cohdl.always:` block instantiates a sub-entity with the site's
            objects as actuals (`body` = statements of the process part of the same context)
    seq     @std.sequential(std.Clock(clk)) context
    conc    @std.concurrent context
    always  `with cohdl.always:` block inside its own sequential context (emitted as concurrent statements next to the
            process); `body` = statements in the process part of the *same* cohdl context
    inst    sub-entity instantiated in the architecture; read = input actual, write = output actual
    inline  sub-entity instantiated inside a concurrent context
    dup_seq / dup_conc   n DISTINCT contexts produced by ONE function definition, either `for k in range(n):` around the
            decorated def or a factory function called n times; every copy performs the site's actions, so the site
            counts as n sites (same source location, different Context objects)
    block   concurrent context inside std.block (the only sub-block API; it raises TypeError at the pinned commit)
A `tmp` object is an intermediate value computed at its writer site and handed to other sites through a pyeval stash.

Oracle (a), from the spec alone: must-reject iff a non-tmp object is written from > 1 site, an input port is written,
or a var/tmp is used at > 1 site.  must-reject but accepted => violation.
Oracle (b), from the emitted text alone, for every accepted design: an S-driver error whose drivers are not all in one
cohdl concurrent block, a process variable referenced outside its process, or (root level, as the property states it)
a signal whose drivers belong to more than one unit (process | cohdl concurrent block | instance output) => violation.
"""
from __future__ import annotations

import builtins
import itertools

from hypothesis import strategies as st

from cv.harness.loader import Rejected, compile_source
from cv.harness.runner import Outcome

PROPERTY = "C07"
TECHNIQUE = ("complete enumeration of 2 sites x 2 objects placements + Hypothesis sampling of 2-4 sites x 1-3 objects; "
             "oracle = spec-derived must-reject predicate and driver sets recomputed from the emitted VHDL by cv.vhdl")
RULE = (
    "PlacementSpec: objects (Signal, out Port, in Port, Variable, intermediate) x accessors (whole, static slice, "
    "element, run-time element) x sites (sequential, concurrent, always-block, instance, inline instance, std.block, "
    "n same-definition contexts, instances with >= 2 outputs on one root); "
    "non-trivial = spec with >= 2 writer sites of one object (expected rejection) or an accepted spec in which >= 2 "
    "sites touch the same object; distinct = case hash"
)
ASSUMPTIONS = [
    "driver sets of the emitted text as computed by cv.vhdl.analyse (process / concurrent statement / instance output; "
    "cohdl concurrent blocks recovered from the backend's `-- CONCURRENT BLOCK (name)` comments)",
    "the always-block of a sequential context belongs to the same cohdl context as the process body: two writers there "
    "are not a must-reject case of oracle (a); oracle (b) still applies to the emitted text",
    "an instance output associated with an input port of the enclosing entity counts as `an input port is written`",
    "std.block raises TypeError at the pinned commit, so the nested-block site is generated but always rejected",
    "same-definition contexts (loop / factory around one decorated def) are distinct contexts: n copies = n sites",
    "two output ports of one instance on one root: overlapping actuals must be rejected; disjoint slices/elements carry "
    "no expectation (cohdl rejects them at root level, counted as rejected_but_should_accept)",
]

OBJ_KINDS = ["sig", "out", "in", "var", "tmp"]
ENUM_SITES = ["seq", "conc", "always", "inst", "inline", "dup_seq", "dup_conc"]
ALL_SITES = ENUM_SITES + ["block"]


# ------------------------------------------------------------------------------------------ plan / generation
def _enum_space():
    """2 sites x 2 objects; accessor per object: whole, or static slices that are disjoint between the two sites"""
    obj_pairs = list(itertools.combinations_with_replacement(OBJ_KINDS, 2))
    site_pairs = list(itertools.product(ENUM_SITES, repeat=2))
    acts = [None, "r", "w"]
    for sp in site_pairs:
        for op in obj_pairs:
            for a in itertools.product(acts, repeat=4):  # (site0,obj0) (site0,obj1) (site1,obj0) (site1,obj1)
                if (a[0] is None and a[2] is None) or (a[1] is None and a[3] is None):
                    continue
                for accm in itertools.product(["whole", "slice"], repeat=2):
                    yield sp, op, a, accm


def _enum_case(sp, op, a, accm):
    objs = [{"k": k} for k in op]
    sites = []
    for si in range(2):
        al = []
        for oi in range(2):
            rw = a[si * 2 + oi]
            if rw is None:
                continue
            if op[oi] == "tmp" or accm[oi] == "whole":
                acc = ["whole"]
            else:
                acc = ["slice", 1, 0] if si == 0 else ["slice", 3, 2]
            al.append([oi, rw, acc])
        site = {"k": sp[si], "acts": al}
        if sp[si].startswith("dup_"):
            site["n"] = 2
            site["how"] = "loop" if si == 0 else "factory"
        sites.append(site)
    return {"objs": objs, "sites": sites}


def _useless(case):
    """placements that cannot be expressed: an intermediate value as an instance output / at architecture level, or
    consumed before any site has computed it (fails with IndexError in the pyeval helper at trace time)"""
    first = {}
    for s in case["sites"]:
        for o, rw, acc in list(s.get("body", [])) + list(s["acts"]):
            if case["objs"][o]["k"] == "tmp":
                if s["k"] == "inst" or s["k"].startswith("dup_") or (s["k"] in ("inline", "always_inline") and "w" in rw
                                                                        and [o, rw, acc] in s["acts"]):
                    return True
                if o not in first:
                    first[o] = rw
    for s in case["sites"]:
        for o, acc in s.get("extra", []):
            if case["objs"][o]["k"] == "tmp":
                return True
    return any("w" not in rw for rw in first.values())


def plan(tier):
    total = sum(1 for _ in _enum_space())
    if tier == "quick":
        stride, nsh, per, nh = 80, 8, 120, 8
    else:
        stride, nsh, per, nh = 1, 32, 1500, 16
    n = (total + stride - 1) // stride
    step = (n + nsh - 1) // nsh
    shards = [{"kind": "enum", "name": f"p2x2_{k}", "stride": stride, "lo": lo, "hi": min(n, lo + step)}
              for k, lo in builtins.enumerate(range(0, n, step))]
    shards.append({"kind": "enum", "name": "inst2out", "space": "inst2out"})
    shards.append({"kind": "enum", "name": "deep", "space": "deep"})
    shards.append({"kind": "enum", "name": "inlvhdl", "space": "inlvhdl"})
    shards.append({"kind": "enum", "name": "push", "space": "push"})
    shards.append({"kind": "enum", "name": "tmpinst", "space": "tmpinst"})
    for i in range(nh):
        shards.append({"kind": "hyp", "name": f"place{i}", "examples": per})
    return shards


_ACC_PAIRS = [(["whole"], ["whole"]), (["whole"], ["slice", 1, 0]), (["slice", 3, 2], ["whole"]), (["slice", 2, 1], ["slice", 3, 2]),
              (["slice", 1, 0], ["slice", 3, 2]), (["slice", 3, 0], ["elem", 2]), (["elem", 1], ["elem", 1]), (["elem", 0], ["elem", 3]),
              (["slice", 1, 0], ["elem", 2]), (["slice", 2, 0], ["slice", 2, 2]), (["dyn"], ["elem", 0]), (["whole"], ["dyn"])]


def _deep_cases():
    """the placement inside a sub-entity (depth 2, 3): a context of the sub-entity and an inline instance created in
    another concurrent context of it drive / read the same object (conflict and control cases, both orders)"""
    for depth in (2, 3):
        for wk in ("conc", "seq", "always"):
            for ok in ("sig", "out"):
                for accs in ((["whole"], ["whole"]), (["slice", 1, 0], ["slice", 3, 2])):
                    for rw in ("w", "r"):
                        a = {"k": wk, "acts": [[0, rw, accs[0]]]}
                        b = {"k": "inline", "acts": [[0, "w", accs[1]]]}
                        for sites in ([a, b], [b, a]):
                            yield {"objs": [{"k": ok}], "sites": sites, "depth": depth}


def _push_cases():
    """a push assignment (`^=`) that is the only write of its context - in particular in a raw
    cohdl.sequential_context, which has no implicit reset_pushed() - against a second driver elsewhere"""
    for k1 in ("raw_seq", "seq"):
        for ok in ("sig", "out"):
            for acc in (["whole"], ["slice", 1, 0]):
                acc2 = ["whole"] if acc[0] == "whole" else ["slice", 3, 2]
                a = {"k": k1, "acts": [[0, "wp", acc]]}
                for k2, rw2 in (("raw_seq", "wp"), ("raw_seq", "w"), ("seq", "w"), ("seq", "wp"), ("conc", "w"), ("raw_conc", "w")):
                    b = {"k": k2, "acts": [[0, rw2, acc2]]}
                    yield {"objs": [{"k": ok}], "sites": [a, b]}
                    yield {"objs": [{"k": ok}], "sites": [b, a]}
                for k2 in ("conc", "raw_conc", "raw_seq"):
                    yield {"objs": [{"k": ok}], "sites": [a, {"k": k2, "acts": [[0, "r", acc2]]}]}


def _tmpinst_cases():
    """an intermediate value of a sequential context as input actual of an inline instance: in a later concurrent
    context (shared: must reject) or in the always-block of the same context; plus signals through always_inline"""
    for ck in ("seq", "raw_seq"):
        for extra_read in (False, True):
            a = {"k": ck, "acts": [[0, "rw" if extra_read else "w", ["whole"]]]}
            yield {"objs": [{"k": "tmp"}, {"k": "sig"}], "sites": [a, {"k": "inline", "acts": [[0, "r", ["whole"]], [1, "w", ["whole"]]]}]}
            yield {"objs": [{"k": "tmp"}, {"k": "out"}], "sites": [a, {"k": "inline", "acts": [[0, "r", ["whole"]], [1, "w", ["whole"]]]},
                                                                    {"k": "conc", "acts": [[1, "r", ["whole"]]]}]}
            yield {"objs": [{"k": "tmp"}], "sites": [a, {"k": "always_inline", "acts": [[0, "r", ["whole"]]]}]}
    for ok in ("sig", "out"):
        for wbody in (None, "w", "r"):
            for second in (None, ("conc", "r"), ("conc", "w")):
                s0 = {"k": "always_inline", "acts": [[0, "r", ["whole"]], [1, "w", ["whole"]]], "body": [[0, "w", ["whole"]]]}
                if wbody:
                    s0["body"].append([1, wbody, ["whole"]])
                sites = [s0] + ([{"k": second[0], "acts": [[1, second[1], ["whole"]]]}] if second else [{"k": "conc", "acts": []}])
                yield {"objs": [{"k": "tmp"}, {"k": ok}], "sites": sites}
                s1 = {"k": "always_inline", "acts": [[0, "r", ["whole"]], [1, "w", ["whole"]]], "body": ([[1, wbody, ["whole"]]] if wbody else [])}
                yield {"objs": [{"k": "in"}, {"k": ok}], "sites": [s1] + sites[1:]}


def _reset_cases():
    """contexts with a reset: the generated reset branch of the process assigns every defaulted signal the context writes"""
    for ok in ("sig", "out"):
        for acc in (["whole"], ["slice", 1, 0]):
            for k, rd in (("always", "conc"), ("always", "seq"), ("seq", "conc")):
                yield {"objs": [{"k": ok}], "sites": [{"k": k, "reset": True, "acts": [[0, "w", acc]]}, {"k": rd, "acts": [[0, "r", ["whole"]]]}]}
            yield {"objs": [{"k": ok}], "sites": [{"k": "always", "reset": True, "acts": [[0, "r", acc]], "body": [[0, "w", acc]]},
                                                   {"k": "conc", "acts": [[0, "r", ["whole"]]]}]}


def _inlvhdl_cases():
    """one driver is an inline VHDL statement (flat, nested once, nested twice) in a context; the other site writes or
    reads the same object; targets: signal, out port, in port"""
    for lvl in (0, 1, 2):
        for wk in ("conc", "seq", "always"):
            for ok in ("sig", "out", "in"):
                for acc in (["whole"], ["slice", 1, 0]):
                    for other in (("conc", "w"), ("seq", "w"), ("conc", "r")):
                        acc2 = ["whole"] if acc[0] == "whole" else ["slice", 3, 2]
                        a = {"k": wk, "acts": [[0, f"wi{lvl}", acc]]}
                        b = {"k": other[0], "acts": [[0, other[1], acc2]]}
                        yield {"objs": [{"k": ok}], "sites": [a, b]}
                        if other[1] == "w":
                            yield {"objs": [{"k": ok}], "sites": [b, a]}


def _inst2out_cases():
    """one instance (architecture level or inline) with two output ports on one root x accessor pairs (overlapping,
    disjoint) x object kind x {both outputs as `extra` | first as ordinary write act} x optional reader context"""
    for sk in ("inst", "inline"):
        for ok in ("sig", "out", "in", "var"):
            for a, b in _ACC_PAIRS:
                for form in (0, 1):
                    for reader in (None, "conc", "seq"):
                        site = {"k": sk, "acts": [], "extra": [[0, a], [0, b]]} if form == 0 else \
                               {"k": sk, "acts": [[0, "w", a]], "extra": [[0, b]]}
                        sites = [site] + ([{"k": reader, "acts": [[0, "r", ["whole"]]]}] if reader else [{"k": "conc", "acts": []}])
                        yield {"objs": [{"k": ok}], "sites": sites}


EXHAUSTIVE = {"quick": False, "thorough": False}


def enumerate(shard):  # noqa: A001
    if shard.get("space") == "inst2out":
        yield from _inst2out_cases()
        return
    if shard.get("space") == "deep":
        yield from _deep_cases()
        return
    if shard.get("space") == "inlvhdl":
        yield from _inlvhdl_cases()
        return
    if shard.get("space") == "push":
        yield from _push_cases()
        return
    if shard.get("space") == "tmpinst":
        yield from _tmpinst_cases()
        yield from _reset_cases()
        return
    stride = int(shard.get("stride", 1))
    lo, hi = shard["lo"], shard["hi"]
    for k, item in builtins.enumerate(itertools.islice(_enum_space(), 0, None, stride)):
        if k < lo:
            continue
        if k >= hi:
            break
        c = _enum_case(*item)
        if not _useless(c):
            yield c


_ACC = st.one_of(
    st.just(["whole"]), st.just(["whole"]),
    st.sampled_from([["slice", 1, 0], ["slice", 3, 2], ["slice", 2, 1], ["slice", 3, 0], ["slice", 2, 2]]),
    st.integers(0, 3).map(lambda i: ["elem", i]),
    st.just(["dyn"]),
)


@st.composite
def _cases(draw):
    no = draw(st.integers(1, 3))
    objs = [{"k": draw(st.sampled_from(["sig", "sig", "out", "out", "in", "var", "tmp"]))} for _ in range(no)]
    ns = draw(st.integers(2, 4))
    sites = []
    for _ in range(ns):
        k = draw(st.sampled_from(["seq", "seq", "conc", "conc", "always", "always", "inst", "inst", "inline", "inline", "block",
                                  "dup_seq", "dup_seq", "dup_conc", "raw_seq", "raw_seq", "raw_conc", "always_inline"]))
        acts = []
        for oi in range(no):
            rw = draw(st.sampled_from([None, "r", "r", "w", "w", "rw", "wi0", "wi1", "wi2"]))
            if rw is None:
                continue
            if rw.startswith("wi") and (k in ("inst", "inline", "always_inline") or objs[oi]["k"] == "tmp"):
                rw = "w"
            if rw == "w" and k in ("seq", "raw_seq", "dup_seq") and objs[oi]["k"] in ("sig", "out") and draw(st.integers(0, 2)) == 0:
                rw = "wp"
            acc = ["whole"] if objs[oi]["k"] == "tmp" else draw(_ACC)
            acts.append([oi, rw, acc])
        s = {"k": k, "acts": acts}
        if k.startswith("dup_"):
            s["n"] = draw(st.sampled_from([2, 2, 3]))
            s["how"] = draw(st.sampled_from(["loop", "factory"]))
        if k in ("inst", "inline") and draw(st.integers(0, 2)) == 0:
            cand = [oi for oi in range(no) if objs[oi]["k"] != "tmp"]
            if cand:
                s["extra"] = [[draw(st.sampled_from(cand)), draw(_ACC)] for _ in range(draw(st.integers(1, 2)))]
        if k in ("seq", "always") and draw(st.integers(0, 3)) == 0:
            s["reset"] = True
        if k in ("always", "always_inline") and draw(st.booleans()):
            body = []
            for oi in range(no):
                rw = draw(st.sampled_from([None, None, "r", "w"]))
                if rw is not None:
                    body.append([oi, rw, ["whole"] if objs[oi]["k"] == "tmp" else draw(_ACC)])
            s["body"] = body
        sites.append(s)
    case = {"objs": objs, "sites": sites}
    depth = draw(st.sampled_from([1, 1, 1, 2, 2, 3]))
    if depth > 1:
        case["depth"] = depth
    return case


def strategy(shard):
    return _cases().filter(lambda c: any(s["acts"] or s.get("body") for s in c["sites"]) and not _useless(c))


# ------------------------------------------------------------------------------------------ render
def _acc_ty(acc):
    if acc[0] == "whole":
        return "BitVector[4]"
    if acc[0] == "slice":
        return f"BitVector[{acc[1] - acc[2] + 1}]"
    return "Bit"


def _acc_sfx(acc):
    if acc[0] == "whole":
        return ""
    if acc[0] == "slice":
        return f"[{acc[1]}:{acc[2]}]"
    if acc[0] == "elem":
        return f"[{acc[1]}]"
    return "[self.sel]"


def _src(acc):
    if acc[0] == "whole":
        return "self.d4"
    if acc[0] == "slice":
        return f"self.d4[{acc[1] - acc[2]}:0]"
    return "self.d1"


def render(case):
    objs, sites = case["objs"], case["sites"]
    pushed = {oi for s_ in sites for oi, rw, _ in list(s_["acts"]) + list(s_.get("body", [])) if rw == "wp"}
    # objects written in a context that has a reset get a default value (only those take part in the reset)
    pushed |= {oi for s_ in sites if s_.get("reset") for oi, rw, _ in list(s_["acts"]) + list(s_.get("body", [])) if "w" in rw}
    L = []
    w = L.append
    w("from __future__ import annotations")
    w("import cohdl")
    w("from cohdl import std, Bit, BitVector, Unsigned, Port, Signal, Variable, Entity, Null")
    w("")
    w("@cohdl.pyeval")
    w("def stash(h, x):")
    w("    h.append(x)")
    w("")
    w("@cohdl.pyeval")
    w("def fetch(h):")
    w("    return h[0]")
    w("")
    w("@cohdl.pyeval")
    w("def nxt(l):")
    w("    return l.pop(0)")
    w("")

    def ref(oi):
        k = objs[oi]["k"]
        return {"sig": f"X{oi}", "var": f"X{oi}", "out": f"self.pout{oi}", "in": f"self.pin{oi}", "tmp": f"hold{oi}"}[k]

    # sub-entities for inst / inline sites
    for si, s in builtins.enumerate(sites):
        if s["k"] not in ("inst", "inline", "always_inline"):
            continue
        w(f"class Sub{si}(Entity):")
        n = 0
        outs = []
        for oi, rw, acc in s["acts"]:
            if "r" in rw:
                w(f"    i{oi} = Port.input({_acc_ty(acc)})")
                n += 1
            if "w" in rw:
                w(f"    o{oi} = Port.output({_acc_ty(acc)})")
                outs.append((oi, acc))
                n += 1
        xouts = []
        for j, (oi, acc) in builtins.enumerate(s.get("extra", [])):
            w(f"    p{j} = Port.output({_acc_ty(acc)})")
            xouts.append((j, acc))
        w("    def architecture(self):")
        if outs or xouts:
            w("        @std.concurrent")
            w("        def logic():")
            for oi, acc in outs:
                w(f"            self.o{oi} <<= {'Null' if acc[0] in ('whole', 'slice') else 'False'}")
            for j, acc in xouts:
                w(f"            self.p{j} <<= {'Null' if acc[0] in ('whole', 'slice') else 'False'}")
        else:
            w("        pass")
        w("")
    depth = int(case.get("depth", 1))
    w(f"class {'Top' if depth == 1 else 'Core'}(Entity):")
    w("    clk = Port.input(Bit)")
    w("    rst = Port.input(Bit)")
    w("    d4 = Port.input(BitVector[4])")
    w("    e4 = Port.input(BitVector[4])")
    w("    d1 = Port.input(Bit)")
    w("    sel = Port.input(Unsigned[2])")
    for oi, o in builtins.enumerate(objs):
        if o["k"] == "out":
            w(f"    pout{oi} = Port.output(BitVector[4]{', default=Null' if oi in pushed else ''})")
        elif o["k"] == "in":
            w(f"    pin{oi} = Port.input(BitVector[4])")
    w("")
    w("    def architecture(self):")
    for oi, o in builtins.enumerate(objs):
        if o["k"] == "sig":
            w(f"        X{oi} = Signal[BitVector[4]]({'Null' if oi in pushed else ''})")
        elif o["k"] == "var":
            w(f"        X{oi} = Variable[BitVector[4]]()")
        elif o["k"] == "tmp":
            w(f"        hold{oi} = []")
    # private read sinks
    for si, s in builtins.enumerate(sites):
        for part, al in (("a", s["acts"]), ("b", s.get("body", []))):
            for oi, rw, acc in al:
                if ("r" in rw or objs[oi]["k"] == "tmp") and not (s["k"] in ("inst", "inline") or (s["k"] == "always_inline" and part == "a")):
                    if s["k"].startswith("dup_"):  # one private sink per copy, handed out at trace time
                        w(f"        rd_{si}{part}{oi} = [Signal[{_acc_ty(acc)}]() for _ in range({int(s.get('n', 2))})]")
                    else:
                        w(f"        rd_{si}{part}{oi} = Signal[{_acc_ty(acc)}]()")
    w("")

    creators = tmp_creators(case)

    def stmts(si, part, al, ind):
        out = []
        for oi, rw, acc in al:
            k = objs[oi]["k"]
            if k == "tmp":
                # the first writer site (in trace order) computes the value; every other use consumes it
                if creators.get(oi) == (si, part):
                    out.append(f"stash(hold{oi}, self.d4 & self.e4)")
                    if "r" in rw:
                        out.append(f"rd_{si}{part}{oi}.next = fetch(hold{oi})")
                else:
                    out.append(f"rd_{si}{part}{oi}.next = fetch(hold{oi})")
                continue
            tgt = ref(oi) + _acc_sfx(acc)
            if "r" in rw:
                if sites[si]["k"].startswith("dup_"):
                    out.append(f"nxt(rd_{si}{part}{oi}).next = {tgt}")
                else:
                    out.append(f"rd_{si}{part}{oi}.next = {tgt}")
            if rw.startswith("wi"):
                # inline VHDL statement: {obj} is a write access, {obj!r} a read access; nested = kept in a local
                # and expanded inside another inline block
                op = ":=" if k == "var" else "<="
                text = "f\"{cohdl.vhdl:{" + tgt + "} " + op + " {" + _src(acc) + "!r};}\""
                for lvl in range(int(rw[2])):
                    out.append(f"st_{si}{part}{oi}_{lvl} = {text}")
                    text = "f\"{cohdl.vhdl:{" + f"st_{si}{part}{oi}_{lvl}" + "}}\""
                out.append(text)
            elif rw == "wp" and k != "var":
                out.append(f"{tgt}.push = {_src(acc)}" if acc[0] == "whole" else f"{tgt} ^= {_src(acc)}")
            elif "w" in rw:
                if k == "var":
                    out.append(f"{tgt}.value = {_src(acc)}" if acc[0] == "whole" else f"{tgt} @= {_src(acc)}")
                else:
                    out.append(f"{tgt}.next = {_src(acc)}" if acc[0] == "whole" else f"{tgt} <<= {_src(acc)}")
        return [ind + x for x in (out or ["pass"])]

    def inst(si, s, ind):
        args = []
        for oi, rw, acc in s["acts"]:
            k = objs[oi]["k"]
            a = (f"fetch(hold{oi})" if k == "tmp" else ref(oi) + _acc_sfx(acc))
            if "r" in rw:
                args.append(f"i{oi}={a}")
            if "w" in rw:
                args.append(f"o{oi}={a}")
        for j, (oi, acc) in builtins.enumerate(s.get("extra", [])):
            args.append(f"p{j}={ref(oi) + _acc_sfx(acc)}")
        return f"{ind}Sub{si}({', '.join(args)})"

    for si, s in builtins.enumerate(sites):
        k = s["k"]
        if k == "seq":
            w("        @std.sequential(std.Clock(self.clk)" + (", std.Reset(self.rst))" if s.get("reset") else ")"))
            w(f"        def site{si}():")
            L.extend(stmts(si, "a", s["acts"], " " * 12))
        elif k == "conc":
            w("        @std.concurrent")
            w(f"        def site{si}():")
            L.extend(stmts(si, "a", s["acts"], " " * 12))
        elif k == "always":
            w("        @std.sequential(std.Clock(self.clk)" + (", std.Reset(self.rst))" if s.get("reset") else ")"))
            w(f"        def site{si}():")
            if s.get("body"):
                L.extend(stmts(si, "b", s["body"], " " * 12))
            w("            with cohdl.always:")
            L.extend(stmts(si, "a", s["acts"], " " * 16))
        elif k == "inst":
            if s["acts"] or s.get("extra"):
                w(inst(si, s, " " * 8))
        elif k == "inline":
            w("        @std.concurrent")
            w(f"        def site{si}():")
            w(inst(si, s, " " * 12) if (s["acts"] or s.get("extra")) else " " * 12 + "pass")
        elif k == "raw_seq":
            w(f"        def site{si}():")
            w("            cohdl.sensitivity.list(self.clk)")
            w("            if cohdl.rising_edge(self.clk):")
            L.extend(stmts(si, "a", s["acts"], " " * 16))
            w(f"        cohdl.sequential_context(site{si})")
        elif k == "raw_conc":
            w(f"        def site{si}():")
            L.extend(stmts(si, "a", s["acts"], " " * 12))
            w(f"        cohdl.concurrent_context(site{si})")
        elif k == "always_inline":
            w("        @std.sequential(std.Clock(self.clk))")
            w(f"        def site{si}():")
            if s.get("body"):
                L.extend(stmts(si, "b", s["body"], " " * 12))
            w("            with cohdl.always:")
            w(inst(si, s, " " * 16) if (s["acts"] or s.get("extra")) else " " * 16 + "pass")
        elif k in ("dup_seq", "dup_conc"):
            deco = "@std.sequential(std.Clock(self.clk))" if k == "dup_seq" else "@std.concurrent"
            n = int(s.get("n", 2))
            if s.get("how", "loop") == "loop":
                w(f"        for k{si} in range({n}):")
                w(f"            {deco}")
                w(f"            def site{si}():")
                L.extend(stmts(si, "a", s["acts"], " " * 16))
            else:
                w(f"        def make{si}():")
                w(f"            {deco}")
                w(f"            def site{si}():")
                L.extend(stmts(si, "a", s["acts"], " " * 16))
                for _ in range(n):
                    w(f"        make{si}()")
        elif k == "block":
            w("        @std.block")
            w(f"        def blk{si}():")
            w("            @std.concurrent")
            w(f"            def site{si}():")
            L.extend(stmts(si, "a", s["acts"], " " * 16))
        else:
            raise AssertionError(k)
        w("")
    w("        pass")
    # wrappers: the placement is the architecture of a sub-entity (hierarchy depth 2 or 3)
    pnames = ["clk", "rst", "d4", "e4", "d1", "sel"] + [f"p{o['k']}{oi}" for oi, o in builtins.enumerate(objs) if o["k"] in ("in", "out")]
    inner = "Core"
    for lvl in range(depth - 1):
        name = "Top" if lvl == depth - 2 else "Mid"
        w("")
        w(f"class {name}(Entity):")
        w("    clk = Port.input(Bit)")
        w("    rst = Port.input(Bit)")
        w("    d4 = Port.input(BitVector[4])")
        w("    e4 = Port.input(BitVector[4])")
        w("    d1 = Port.input(Bit)")
        w("    sel = Port.input(Unsigned[2])")
        for oi, o in builtins.enumerate(objs):
            if o["k"] == "out":
                w(f"    pout{oi} = Port.output(BitVector[4]{', default=Null' if oi in pushed else ''})")
            elif o["k"] == "in":
                w(f"    pin{oi} = Port.input(BitVector[4])")
        w("    def architecture(self):")
        w(f"        {inner}({', '.join(f'{p}=self.{p}' for p in pnames)})")
        inner = name
    return "\n".join(L) + "\n"


def _overlap(a, b):
    """do two static accessors of a 4-bit vector share an element?  (run-time index: may hit anything)"""
    def rng(x):
        if x[0] == "whole" or x[0] == "dyn":
            return (0, 3)
        if x[0] == "slice":
            return (min(x[1], x[2]), max(x[1], x[2]))
        return (x[1], x[1])
    (a0, a1), (b0, b1) = rng(a), rng(b)
    return not (a1 < b0 or b1 < a0)


def tmp_creators(case):
    """tmp object -> (site index, part) of the first act (in trace order) that writes it"""
    out = {}
    for si, s in builtins.enumerate(case["sites"]):
        for part, al in (("b", s.get("body", [])), ("a", s["acts"])):
            for oi, rw, acc in al:
                if case["objs"][oi]["k"] == "tmp" and "w" in rw and oi not in out:
                    out[oi] = (si, part)
    return out


def view(case):
    return {"spec": case, "python": render(case), "expect": expectation(case)}


# ------------------------------------------------------------------------------------------ spec oracle
def expectation(case):
    """-> dict: must_reject(bool), reasons [(why, obj kind, site kinds, accessor kinds)]"""
    objs, sites = case["objs"], case["sites"]
    writers = {i: [] for i in range(len(objs))}
    users = {i: [] for i in range(len(objs))}
    for si, s in builtins.enumerate(sites):
        seen_w, seen_u = set(), set()
        copies = int(s.get("n", 2)) if s["k"].startswith("dup_") else 1  # every copy is a context of its own
        extra = [[oi, "w", acc] for oi, acc in s.get("extra", [])] if s["k"] in ("inst", "inline") else []
        for part in (list(s.get("body", [])), list(s["acts"]) + extra):
            if s["k"] == "always_inline":
                seen_w = set()  # the process body (a context) and the instance output are two drivers
            for oi, rw, acc in part:
                if oi not in seen_u:
                    users[oi].extend([(si, acc[0])] * copies)
                    seen_u.add(oi)
                if "w" in rw and oi not in seen_w:
                    writers[oi].extend([(si, acc[0])] * copies)
                    seen_w.add(oi)
    reasons = []
    # several output ports of ONE instance on one root: every output is a driver of its own; overlapping actuals must
    # be rejected, disjoint slices/elements are the control (no expectation: cohdl may reject them at root level)
    for si, s in builtins.enumerate(sites):
        if s["k"] not in ("inst", "inline") or not s.get("extra"):
            continue
        outs = [(oi, acc) for oi, rw, acc in s["acts"] if "w" in rw] + [(oi, acc) for oi, acc in s["extra"]]
        for a in range(len(outs)):
            for b in range(a + 1, len(outs)):
                if outs[a][0] == outs[b][0] and objs[outs[a][0]]["k"] != "tmp" and _overlap(outs[a][1], outs[b][1]):
                    r = ("same_instance_outputs", objs[outs[a][0]]["k"], s["k"], "+".join(sorted({outs[a][1][0], outs[b][1][0]})))
                    if r not in reasons:
                        reasons.append(r)
    creators = tmp_creators(case)
    for oi, o in builtins.enumerate(objs):
        k = o["k"]
        if k == "tmp":
            # shared iff some site after the creating site consumes the value (a use before it fails at trace time)
            if oi in creators:
                later = [(si, a) for si, a in users[oi] if si > creators[oi][0]]
                if later:
                    # signature: kinds of the consuming sites (the creating site can be any context)
                    reasons.append(("shared_tmp", k, "+".join(sorted({sites[si]["k"] for si, _ in later})), "any"))
            continue
        if k != "tmp" and len(writers[oi]) > 1:
            reasons.append(("multi_writer", k, "+".join(sorted(sites[si]["k"] for si, _ in writers[oi])),
                            "+".join(sorted({a for _, a in writers[oi]}))))
        if k == "in" and writers[oi]:
            reasons.append(("input_written", k, "+".join(sorted({sites[si]["k"] for si, _ in writers[oi]})),
                            "any"))
        if k == "var" and len(users[oi]) > 1:
            reasons.append(("shared_" + k, k, "+".join(sorted(sites[si]["k"] for si, _ in users[oi])),
                            "+".join(sorted({a for _, a in users[oi]}))))
    touched = max((len(u) for u in users.values()), default=0)
    # situations the spec oracle does not decide but which matter for the text oracle
    same_ctx_double = False
    always_reset = False
    var_in_always = False
    for s in sites:
        if s["k"] == "always":
            wa = {oi for oi, rw, _ in s["acts"] if "w" in rw and objs[oi]["k"] != "tmp"}
            wb = {oi for oi, rw, _ in s.get("body", []) if "w" in rw and objs[oi]["k"] != "tmp"}
            same_ctx_double |= bool(wa & wb)
            always_reset |= bool(s.get("reset")) and bool(wa)
            var_in_always |= any(objs[oi]["k"] == "var" for oi, _, _ in s["acts"])
    return {"must_reject": bool(reasons), "reasons": reasons, "max_sites_per_obj": touched,
            "max_writers": max((len(x) for x in writers.values()), default=0),
            "same_ctx_double": same_ctx_double, "var_in_always": var_in_always, "always_reset": always_reset}


# ------------------------------------------------------------------------------------------ check
def check(case):
    from cv.vhdl.analyze import analyse

    out = Outcome()
    exp = expectation(case)
    for s in case["sites"]:
        out.labels.append("site:" + s["k"])
    for o in case["objs"]:
        out.labels.append("obj:" + o["k"])
    out.labels.append("expect:" + ("must_reject" if exp["must_reject"] else "may_accept"))
    out.labels.append("depth:%d" % int(case.get("depth", 1)))
    if any(rw.startswith("wi") for s in case["sites"] for _, rw, _ in list(s["acts"]) + list(s.get("body", []))):
        out.labels.append("inline_vhdl_write")
    for r in exp["reasons"]:
        out.labels.append("reason:" + r[0])
    if any(s.get("extra") for s in case["sites"]):
        out.labels.append("multi_output_instance")
    src = render(case)
    try:
        vhdl = compile_source(src, "Top")
    except Rejected as r:
        out.status = "rejected"
        if exp["must_reject"]:
            out.nontrivial = exp["max_writers"] >= 2 or any(r_[0].startswith(("shared", "same_instance")) for r_ in exp["reasons"])
            out.labels.append("rejected_as_required")
        else:
            out.labels.append("rejected_but_should_accept:" + r.exc_type)
            out.counters["rejected_but_should_accept"] = 1
        return out
    out.labels.append("accepted")
    if exp["must_reject"]:
        out.status = "must_reject_but_accepted"
        out.nontrivial = True
        for why, ok, sk, ak in exp["reasons"]:
            out.add({"kind": "must_reject_accepted", "why": why, "obj": ok, "sites": sk},
                    f"spec requires rejection ({why}: {ok} at sites {sk}, accessors {ak}) but cohdl emitted VHDL\n" + _excerpt(vhdl))
    elif exp["max_sites_per_obj"] >= 2:
        out.nontrivial = True
    d = analyse(vhdl)
    if d.unsupported:
        out.labels.append("unsupported:" + d.unsupported[:50])
        if out.status == "ok":
            out.status = "blocked"
        return out
    site_kinds = "+".join(sorted({s["k"] for s in case["sites"]}))
    other = 0
    spec_drv = ("must_reject" if exp["must_reject"] else "always+body" if exp["same_ctx_double"]
                else "always+reset" if exp["always_reset"] else "none")
    spec_var = "var_in_always" if exp["var_in_always"] else ("must_reject" if exp["must_reject"] else "none")
    proc_vars = {}
    for ei in d.entities.values():
        if ei.arch is not None:
            for p in ei.arch.procs:
                for vo in p.var_objs:
                    proc_vars[vo.name] = p.label
    import re as _re
    for e in d.errors:
        if e.rule == "S-driver":
            if e.extra.get("same_concurrent_block"):
                out.labels.append("same_block_double_write")
                continue
            out.add({"kind": "text", "rule": "S-driver", "drivers": e.extra.get("kinds"), "spec": spec_drv},
                    f"{e!r}\nsites in the spec: {site_kinds}\n" + _excerpt(vhdl))
        elif e.rule == "S-unres" and e.extra.get("name") == "variable-outside-process":
            out.add({"kind": "text", "rule": "variable-outside-process", "var": "arch", "spec": spec_var}, f"{e!r}\n" + _excerpt(vhdl))
        elif e.rule == "S-unres" and (_m := _re.search(r"name (\S+) (?:in sensitivity list )?is not declared", e.msg)) \
                and _m.group(1).lower() in proc_vars:
            # the name is declared, but as a variable inside a process, and is referenced outside that process
            out.add({"kind": "text", "rule": "variable-outside-process", "var": "process", "spec": spec_var},
                    f"{e!r}  ({_m.group(1)} is a variable of process {proc_vars[_m.group(1).lower()]})\n" + _excerpt(vhdl))
        elif e.rule == "S-type" and e.extra.get("where") == "target-class":
            # an object declared as a signal but assigned with `:=` (or the reverse): a process-local value that the
            # text also uses outside its process
            out.add({"kind": "text", "rule": "variable-signal-class-confusion", "found": e.extra.get("found")}, f"{e!r}\n" + _excerpt(vhdl))
        else:
            other += 1
    if other:
        out.labels.append("other_static_errors")
        out.counters["other_static_errors"] = other
    # root-level statement of the property: all drivers of a signal belong to one unit
    for name, ei in d.entities.items():
        ai = ei.arch
        if ai is None:
            continue
        for obj, lst in getattr(ai, "drivers", {}).items():
            units = set()
            for p, _regions in lst:
                if p.kind in ("conc", "select"):
                    units.add(("block", p.block))
                elif p.kind == "inst-out":
                    units.add(("inst", p.label.split(".")[0] if p.label else p.line))
                else:
                    units.add(("process", p.label, p.line))
            if len(units) > 1:
                out.add({"kind": "text", "rule": "root-multi-unit", "units": "+".join(sorted(u[0] for u in units)), "spec": spec_drv},
                        f"signal {obj.raw} of {ei.raw} is driven by {len(units)} units: {sorted(map(str, units))}\n" + _excerpt(vhdl))
    # structural expectation: an instance belongs to the architecture of the entity whose architecture/context made it
    owner = d.entities.get("top" if int(case.get("depth", 1)) == 1 else "core")
    if owner is not None and owner.arch is not None:
        have = {getattr(i.entity, "name", None) for i in owner.arch.insts}
        for si, s in builtins.enumerate(case["sites"]):
            if s["k"] in ("inst", "inline") and (s["acts"] or s.get("extra")) and f"sub{si}" not in have:
                where = [e2.raw for e2 in d.entities.values() if e2.arch is not None
                         and any(getattr(i.entity, "name", None) == f"sub{si}" for i in e2.arch.insts)]
                out.add({"kind": "text", "rule": "instance-misplaced", "site": s["k"], "found_in": "other" if where else "nowhere"},
                        f"Sub{si} is instantiated by {owner.raw} but appears in {where or 'no architecture'}\n" + _excerpt(vhdl))
    if out.findings and out.status == "ok":
        out.status = "conflict_in_text"
    return out


def _excerpt(vhdl):
    i = vhdl.rfind("\narchitecture ")
    return vhdl[i:][:2500]
