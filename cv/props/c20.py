"""C20 - AXI4-Lite register maps decode, mask and hand-shake correctly.

Case = {"map": RegMapSpec, "schedules": [Schedule...]} (cv.gen.c20_spec, formats in cv.ref.axi).  The map is
rendered (cv.gen.c20_render) to an entity built with std.axi.axi4_light.base_entity + connect_addr_map (with a
hardware side: inputs feeding read-only words/fields, outputs exposing stored words/fields, flags and
notifications) or with addr_map_entity(addr_map=...), compiled, analysed and driven clock by clock through
cv.vhdl.Sim by the reference master of cv.ref.axi; every schedule starts from the state after reset.

Oracle (cv.ref.axi.Runner): protocol monitor every clock (BVALID/RVALID stay asserted with stable payload
until READY, no response without a completely received request, exactly one response per request) and a
byte-addressed register model: at completion of a write exactly the strobed bytes of exactly the addressed
register have changed (fields per access kind), a read returns the current value (any value the register may
have between acceptance of the request and the first RVALID when a write to the same register is in flight),
unmapped accesses change nothing, exposed values change between reception of the request and the response
handshake, notification pulses occur once per access inside the access window, flags are compared after the
bus has been quiet for 4 clocks.  RESP values and the data of unmapped reads are not asserted (undocumented).
A transaction that does not complete within 32 clocks without any handshake = label `inconclusive`.
"""
from __future__ import annotations

import hashlib
import json

from cv.gen import c20_render as R
from cv.gen import c20_spec as G
from cv.harness.runner import Outcome
from cv.ref import axi as A

PROPERTY = "C20"
TECHNIQUE = ("Hypothesis-generated register-map layouts x master schedules; emitted design simulated clock by clock "
             "(cv.vhdl) against an AXI4-Lite protocol monitor and a byte-addressed register model (cv.ref.axi)")
RULE = (
    "case = register map (2-6 members at generated word offsets with gaps; Word/UWord/MemWord/MemUWord, Register "
    "classes with 1-4 Field/UField/MemField/MemUField/FlagField at generated bit ranges and Push/Flag "
    "notifications, Input/Output, arrays with element gaps, one nested RegFile; hardware ports feeding read-only "
    "words/fields and exposing stored ones; addr_width, reset polarity, base_entity+connect_addr_map or "
    "addr_map_entity) x 6 schedules of 4-12 steps (reads/writes to mapped, unaligned, unmapped addresses, full / "
    "partial / empty strobes, AW/W skew, BREADY/RREADY delays, back-to-back, pipelined and overlapping read/write, "
    "hardware input changes and flag clears). Non-trivial = the design compiled and simulated and its schedules "
    "contain >= 1 partial-strobe write to a register with >= 2 stored fields, >= 1 AW/W skew and >= 1 delayed "
    "BREADY/RREADY; distinct = hash of the map"
)
ASSUMPTIONS = [
    "cv.vhdl (analyse + Sim) is the VHDL oracle",
    "the addressed register is the one whose word contains the byte address (low address bits ignored)",
    "a register value observed while a write to it is in flight may be the old or the new one",
    "read data of unmapped / write-only addresses and all RESP values are not asserted (not documented)",
    "writes with WSTRB=0 may or may not raise write notifications (not documented)",
    "FlagField / FlagOnNotify outputs are compared only after 4 idle clocks (SyncFlag latency is not documented)",
    "hardware inputs change only while the bus is idle",
]


def plan(tier):
    if tier == "quick":
        return [{"kind": "hyp", "name": f"maps{i}", "examples": 2, "n_sched": 6} for i in range(12)]
    return [{"kind": "hyp", "name": f"maps{i}", "examples": 13, "n_sched": 20} for i in range(32)]


def strategy(shard):
    return G.cases(n_sched=shard.get("n_sched", 6))


def map_hash(spec):
    return hashlib.sha256(json.dumps(spec, sort_keys=True).encode()).hexdigest()[:16]


def check(case):
    from cv.harness.loader import Rejected, compile_source
    from cv.vhdl.analyze import analyse
    from cv.vhdl.sim import Blocked, Sim
    from cv.vhdl.values import SimError

    spec = case["map"]
    out = Outcome()
    out.identity = map_hash(spec)
    insts = A.flatten(spec)
    out.labels.append(f"entry:{spec['entry']}")
    for it in spec["items"]:
        out.labels.append(f"item:{it['what']}")
    for i in insts:
        if i["what"] == "reg":
            for f in spec["classes"][i["cls"]]["fields"]:
                out.labels.append(f"field:{f['kind']}")
            for n in spec["classes"][i["cls"]]["notify"]:
                out.labels.append(f"notify:{n['kind']}:{n['on']}")
    out.labels = sorted(set(out.labels))
    src = R.render(spec)
    try:
        vhdl = compile_source(src, "Top")
    except Rejected as e:
        out.status = "rejected"
        import re
        out.labels.append("rejected:" + type(e.exc).__name__ + ":" +
                          re.sub(r"[^A-Za-z_ ]+", "", str(e.exc))[:60].strip().replace(" ", "_"))
        out.counters["rejected"] = 1
        return out
    out.counters["vhdl_lines"] = vhdl.count("\n")
    d = analyse(vhdl)
    if d.unsupported:
        out.status = "blocked"
        out.labels.append("blocked:unsupported")
        return out
    if d.errors:
        out.status = "blocked_by_static"
        out.labels += sorted({f"static:{e.rule}" for e in d.errors})
        return out
    try:
        sim = Sim(d, top="Top")
    except Blocked:
        out.status = "blocked"
        out.labels.append("blocked:sim")
        return out
    snap = sim.snapshot()
    seen = set()
    skew = delayed = partial_multi = False
    completed = 0
    for n, sched in enumerate(case["schedules"]):
        sim.restore(snap)
        r = A.Runner(sim, spec, sched)
        try:
            r.run()
        except SimError as e:
            out.add({"kind": "sim_error", "err": getattr(e, "kind", "?")}, f"schedule {n}: {e}")
            sim = Sim(d, top="Top")
            snap = sim.snapshot()
            continue
        for k, v in r.counters.items():
            out.counters[k] = out.counters.get(k, 0) + v
        out.labels += [l for l in r.labels if l not in out.labels]
        if r.inconclusive:
            out.counters["inconclusive_schedules"] = out.counters.get("inconclusive_schedules", 0) + 1
        if "schedule_completed" in r.labels:
            completed += 1
        for sig, text in r.findings:
            key = json.dumps(sig, sort_keys=True)
            if key not in seen:
                seen.add(key)
                out.add(sig, f"schedule {n}: {text}")
        for s in sched["steps"]:
            if s["op"] == "w" and s["aw"] != s["w"]:
                skew = True
            if (s["op"] == "w" and s["b"] > 0) or (s["op"] == "r" and s["r"] > 0):
                delayed = True
        partial_multi = partial_multi or r.counters["partial_multi_field_writes"] > 0
    out.counters["schedules"] = len(case["schedules"])
    out.counters["schedules_completed"] = completed
    out.nontrivial = bool(skew and delayed and partial_multi and completed)
    if completed == 0 and not out.findings:
        out.status = "inconclusive"
    return out


def view(case):
    return {"source": R.render(case["map"]), "schedule0": case["schedules"][0]["steps"][:6]}
