"""C18 - std combinational helpers compute their mathematical definition.

Case = (helper, configuration, extra argument samples).  The helper is called through
rendered source `call(a)` (cv/gen/c18_helpers.py) at the observation levels

  P  plain Python on constants: every argument valuation when there are <= 4096, else
     corners + walking ones + the drawn samples
  T  traced inside `@std.concurrent` on constants, captured by a `@cohdl.pyeval` probe
     (a handful of valuations per case: tracing costs ~0.1 s per call)
  S  simulated emitted logic (cv.vhdl): the concurrent wrapper `render_sim_entity(helper, config)`
     (arguments on input ports, result on output ports) over the same valuations (at most 1024,
     evenly spread); the CRC wrapper is clocked: clear, then k message bits per rising edge.
     The only level that reaches count_set_bits / count_clear_bits and invert_result CRC.
     A finding at S is named "S!=P" / "S!=T" when that level had the right value for the same
     valuation, plain "S" otherwise.

and compared with cv.ref.helpers (definitions transcribed from the docstrings in
cohdl/std/_core_utility.pyi).  A cohdl exception is `rejected` for that level.
"""
from __future__ import annotations

import builtins
import contextlib
import io
import itertools
import re

from hypothesis import strategies as st

from cv.gen import c18_helpers as G
from cv.harness.loader import Rejected, compile_entity, load_module, unload_module
from cv.harness.runner import Outcome, case_id
from cv.ref import helpers as H

PROPERTY = "C18"
TECHNIQUE = (
    "property-based testing: per-helper configuration spaces (enumerated completely in the thorough tier, sampled by "
    "Hypothesis in the quick tier) x exhaustive / corner / drawn argument values against independent mathematical "
    "reference definitions; plain-Python, traced-constant and simulated-VHDL observation"
)
RULE = (
    "case = helper (37 entries: popcounts, leading/trailing counts, one_hot/is_one_hot, reverse_bits, rol/ror, "
    "l/rshift_fill, repeat/stretch/leftpad/rightpad/pad, concat, apply_mask/Mask, batched/select_batch, "
    "minimum/maximum/min_element/max_element/min_index/max_index, count, clamp, count_elements_while/until, "
    "choose_first/cond/select, binary_fold/batched_fold, BitwiseCrc) x configuration (widths 1..9, list lengths 1..9, "
    "batch sizes 1..7, rotation/shift/pad amounts over the legal range, fill kinds, call forms) x argument values; "
    "non-trivial = cohdl returned a value at some level and at least one evaluated valuation has a result different "
    "from the zero/identity value under the helper's own rule (e.g. fold: more than 2*batch operands, rotate: result != "
    "input); distinct = (helper, configuration)"
)
ASSUMPTIONS = [
    "definitions are the docstrings of cohdl/std/_core_utility.pyi; index 0 = least significant bit, `a @ b` puts a on top",
    "widths of numeric (Unsigned) results are not documented and not compared; vector results must have the documented width",
    "select_batch is only fed one-hot selectors; clamp only low <= high; std.select only with keys of the argument's own "
    "type (select_with documents `arg in branches`, which settles nothing for int keys on an Unsigned argument)",
    "first extremum wins is observed through min/max_element, min/max_index and through `key=` functions whose order "
    "differs from the elements' own (ignore the lsb, low bits only, ~x, signed view), with the default or a reversed `cmp=`, "
    "in the container and in the several-separate-arguments call form; oracle = left-to-right scan replacing on strict `cmp`",
    "the CRC register is a Signal: observed at plain-Python level only (Signal <<= takes effect immediately there); "
    "definition = remainder of message*x^n (+ init*x^len) modulo x^n+poly by long division",
    "level S: cv.vhdl is the trusted simulator; static errors of the emitted VHDL are blocked_by_static (owned by C06), "
    "constructs outside its subset are blocked; a VHDL run-time error or an undefined output for an admissible "
    "valuation is a violation (kind sim_error / undefined)",
    "level S runs on two thirds of the cases (hash of helper+configuration) and on every case of the helpers that "
    "have no P or no T level (popcounts, crc, is_one_hot, select, apply_mask)",
]
LEVEL = "exploration"

EXHAUSTIVE_LIMIT = 4096
T_CALLS = 6

NAMES = list(G.HELPERS)


# ---------------------------------------------------------------------------------- plan
_WEIGHT = {"crc": 2.0, "fold": 2.0, "count_set_bits": 1.5, "count_clear_bits": 1.5, "cond": 0.5, "one_hot": 0.6}


def plan(tier):
    # one Hypothesis shard per helper: every helper gets its share of the budget (a single
    # mixed strategy starves some helpers - sampled_from is far from uniform over 37 names)
    per = 17 if tier == "quick" else 150
    shards = [{"kind": "hyp", "name": f"h_{n}", "examples": max(6, int(per * _WEIGHT.get(n, 1.0))), "helper": n}
              for n in NAMES]
    # stratum of its own: minimum / maximum called with several separate arguments and a key whose order differs
    # from the elements' own (Hypothesis' sampled_from over the whole table reaches it 0-7 times in 25 draws)
    shards.append({"kind": "hyp", "name": "h_minmax_args_key", "examples": 14 if tier == "quick" else 120,
                   "helper": "minimum,maximum", "filter": "args_key"})
    if tier != "quick":
        shards = [{"kind": "enum", "name": f"all{i}", "part": i, "parts": 48} for i in range(48)] + shards
    return shards


_CONFIGS = {}


def _configs(name):
    if name not in _CONFIGS:
        _CONFIGS[name] = list(G.HELPERS[name].configs())
    return _CONFIGS[name]


@st.composite
def _case(draw, names, filt=None):
    name = draw(st.sampled_from(names))
    cfgs = _configs(name)
    if filt == "args_key":
        cfgs = [c for c in cfgs if c["form"] == "args" and c["key"] >= 2]
    c = draw(st.sampled_from(cfgs))
    kinds = G.HELPERS[name].args(c)
    n = draw(st.integers(4, 10))
    samples = [[draw(st.integers(0, (1 << _kw(k)) - 1)) for k in kinds] for _ in range(n)] if kinds else []
    return {"h": name, "c": c, "samples": samples}


def strategy(shard):
    return _case(shard["helper"].split(","), shard.get("filter"))


def enumerate(shard):
    i = 0
    for name in NAMES:
        for c in _configs(name):
            if i % shard["parts"] == shard["part"]:
                yield {"h": name, "c": c, "samples": []}
            i += 1


# ---------------------------------------------------------------------------------- helpers
def _kw(kind):
    return 1 if kind[0] in ("bit", "bool") else kind[1]


class _Co:
    ready = False

    @classmethod
    def load(cls):
        if not cls.ready:
            import cohdl
            from cohdl import Bit, BitVector, Signed, Unsigned
            from cohdl._core._type_qualifier import TypeQualifierBase

            cls.Bit, cls.BitVector, cls.Signed, cls.Unsigned = Bit, BitVector, Signed, Unsigned
            cls.Boolean = cohdl.Boolean
            cls.TQB = TypeQualifierBase
            cls.ready = True
        return cls


def _const(kind, raw):
    c = _Co.load()
    k = kind[0]
    if k == "bit":
        return c.Bit(bool(raw))
    if k == "bool":
        return bool(raw)
    w = kind[1]
    if k == "bv":
        return c.BitVector[w](format(raw, f"0{w}b"))
    if k == "u":
        return c.Unsigned[w](raw)
    return c.Signed[w](H.to_signed(raw, w))


class _NonConst(Exception):
    pass


def _observe(obj, form, allow_qualified):
    """None if obj matches the expected normal form, else a (kind, text) pair"""
    c = _Co.load()
    if isinstance(obj, c.TQB) and not allow_qualified:
        raise _NonConst()
    d = c.TQB.decay(obj)
    k = form[0]
    if k == "bv":
        if not isinstance(d, c.BitVector):
            return "type", f"{type(d).__name__} {d!r}, expected a BitVector[{form[1]}]"
        if d.width != form[1]:
            return "width", f"width {d.width} ({d!r}), expected {form[1]}"
        got = d.bitvector.unsigned.to_int()
        if got != form[2]:
            return "value", f"{got:0{form[1]}b}, expected {form[2]:0{form[1]}b}"
        return None
    if k == "num":
        if isinstance(d, bool) or isinstance(d, c.Boolean):
            return "type", f"{d!r}, expected a number"
        if isinstance(d, int):
            got = d
        elif isinstance(d, (c.Unsigned, c.Signed)):
            got = d.to_int()
        else:
            return "type", f"{type(d).__name__} {d!r}, expected Unsigned/Signed/int"
        if got != form[1]:
            return "value", f"{got} ({d!r}), expected {form[1]}"
        return None
    if k == "bit":
        if not isinstance(d, (bool, c.Bit, c.Boolean)):
            return "type", f"{type(d).__name__} {d!r}, expected Bit/bool"
        if int(bool(d)) != form[1]:
            return "value", f"{int(bool(d))}, expected {form[1]}"
        return None
    if k == "seq":
        if not isinstance(d, (list, tuple)):
            return "type", f"{type(d).__name__}, expected a sequence of {len(form[1])}"
        if len(d) != len(form[1]):
            return "length", f"{len(d)} elements, expected {len(form[1])}"
        for i, (x, f) in builtins.enumerate(zip(d, form[1])):
            r = _observe(x, f, allow_qualified)
            if r:
                return r[0], f"element {i}: {r[1]}"
        return None
    raise ValueError(k)


def _valuations(kinds, samples):
    """(list of argument valuations, exhaustive?)"""
    widths = [_kw(k) for k in kinds]
    total = sum(widths)
    if not kinds:
        return [()], True
    if (1 << total) <= EXHAUSTIVE_LIMIT:
        return list(itertools.product(*[range(1 << w) for w in widths])), True
    vals = []
    full = [(1 << w) - 1 for w in widths]
    vals.append(tuple(0 for _ in widths))
    vals.append(tuple(full))
    vals.append(tuple(f if i % 2 else 0 for i, f in builtins.enumerate(full)))
    vals.append(tuple(0 if i % 2 else f for i, f in builtins.enumerate(full)))
    vals.append(tuple(int(("01" * w)[:w], 2) for w in widths))
    vals.append(tuple(int(("10" * w)[:w], 2) for w in widths))
    # one argument differs from the rest: ascending / descending / single extreme
    vals.append(tuple(min(i, f) for i, f in builtins.enumerate(full)))
    vals.append(tuple(max(0, f - i) for i, f in builtins.enumerate(full)))
    for i in range(len(widths)):
        vals.append(tuple(f if j == i else 0 for j, f in builtins.enumerate(full)))
        vals.append(tuple(0 if j == i else f for j, f in builtins.enumerate(full)))
        vals.append(tuple(1 if j == i else (2 & f) for j, f in builtins.enumerate(full)))
    for s in samples:
        vals.append(tuple(x & f for x, f in zip(s, full)))
    seen = set()
    out = []
    for v in vals:
        if v not in seen:
            seen.add(v)
            out.append(v)
    return out, False


@contextlib.contextmanager
def _quiet():
    buf = io.StringIO()
    with contextlib.redirect_stdout(buf), contextlib.redirect_stderr(buf):
        yield


def check(case):
    with _quiet():
        return _check(case)


def _check(case):
    name, c = case["h"], case["c"]
    h = G.HELPERS[name]
    out = Outcome()
    out.identity = case_id([name, c])
    out.labels.append("helper:" + name)
    kinds = h.args(c)
    vals, exhaustive = _valuations(kinds, case.get("samples") or [])
    vals = [v for v in vals if h.ok(c, v)]
    if not vals:
        out.status = "unspecified"
        return out
    src = G.render_module(name, c)
    try:
        mod = load_module(src)
    except (KeyboardInterrupt, SystemExit, RecursionError, MemoryError, SyntaxError):
        raise
    except Exception as e:  # noqa: BLE001
        out.status = "rejected"
        out.labels.append(f"rejected:define:{type(e).__name__}")
        return out

    def cnt(k, n=1):
        out.counters[k] = out.counters.get(k, 0) + n

    def finding(level, kind, v, text):
        # one signature per implementation family, level and kind of divergence; the variant
        # (call form, residue of length modulo batch, fill kind ...) is kept in the detail text
        out.add({"helper": G.FAMILY.get(name, name), "level": level, "kind": kind},
                f"{h.expr(c)} with a = {_show(kinds, v)}: result {text}   [variant {h.variant(c)}; config {c}]")

    nontrivial = False
    seen = {"P": set(), "T": set()}  # valuations observed at a level / with a wrong value there
    wrong = {"P": set(), "T": set()}
    cnt(f"cases.all.{name}")
    try:
        # ---------------------------------------------------------------- level P
        p_done = p_rej = 0
        rej_types = set()
        if "P" in h.levels:
            for v in vals:
                args = tuple(_const(k, x) for k, x in zip(kinds, v))
                try:
                    r = mod.call(args)
                except (KeyboardInterrupt, SystemExit, MemoryError):
                    raise
                except Exception as e:  # noqa: BLE001 - includes RecursionError raised inside cohdl's own recursion
                    p_rej += 1
                    rej_types.add(type(e).__name__)
                    if p_rej >= 8 and p_done == 0:
                        break  # the helper does not work on plain constants in this configuration
                    continue
                exp = h.ref(c, v)
                bad = _observe(r, exp, allow_qualified=True)
                p_done += 1
                seen["P"].add(v)
                if bad:
                    wrong["P"].add(v)
                    finding("P", bad[0], v, bad[1])
                elif h.nontrivial(c, v, exp):
                    nontrivial = True
            cnt("P_calls", p_done)
            cnt("P_rejected_calls", p_rej)
            if p_done:
                out.labels.append("P_ok" if not p_rej else "P_partial")
                cnt(f"cases.P.{name}")
                if exhaustive and not p_rej:
                    out.exhaustive_cell = f"P:{name}:{out.identity}"
            else:
                out.labels.append("P_rejected:" + ",".join(sorted(rej_types)))

        # ---------------------------------------------------------------- level T
        t_done = 0
        if "T" in h.levels:
            # tracing costs 0.05-0.5 s per call and grows with the number of operands
            k = min(len(vals), T_CALLS if len(kinds) <= 2 else (4 if len(kinds) <= 4 else 2))
            # evenly spread over the valuation list, last (drawn) ones included
            idx = sorted({(i * (len(vals) - 1)) // max(1, k - 1) for i in range(k)}) if len(vals) > 1 else [0]
            sel = [vals[i] for i in idx]
            mod.ARGS[:] = [tuple(_const(kd, x) for kd, x in zip(kinds, v)) for v in sel]
            mod.RES[:] = []
            try:
                compile_entity(mod.TopT)
                t_ok = True
            except Rejected as r:
                out.labels.append(f"T_rejected:{r.exc_type}")
                t_ok = False
            if t_ok:
                res = {r[0]: r[1] for r in mod.RES}
                nonconst = 0
                for i, v in builtins.enumerate(sel):
                    if i not in res:
                        continue
                    exp = h.ref(c, v)
                    try:
                        bad = _observe(res[i], exp, allow_qualified=False)
                    except _NonConst:
                        nonconst += 1
                        continue
                    t_done += 1
                    seen["T"].add(v)
                    if bad:
                        wrong["T"].add(v)
                        finding("T", bad[0], v, bad[1])
                    elif h.nontrivial(c, v, exp):
                        nontrivial = True
                cnt("T_calls", t_done)
                if nonconst:
                    out.labels.append("T_nonconst")
                if t_done:
                    out.labels.append("T_ok")
                    cnt(f"cases.T.{name}")

        # ---------------------------------------------------------------- level S (simulated)
        s_done = 0
        if name in S_ALWAYS or int(out.identity, 16) % 3 != 2:
            cnt(f"cases.S_tried.{name}")
            try:
                vhdl = compile_entity(mod.Sim)
            except Rejected as r:
                vhdl = None
                out.labels.append(f"S_rejected:{r.exc_type}")
            if vhdl is not None:
                out.labels.append("S_compiled")

                def s_level(v):
                    for lv in ("P", "T"):  # name the level that had the right value for this valuation
                        if v in seen[lv] and v not in wrong[lv]:
                            return "S!=" + lv
                    return "S"

                runner = _sim_crc if name == "crc" else _sim_comb
                s_done, s_nontrivial = runner(out, h, name, c, kinds, vals, vhdl, s_level, finding)
                cnt("S_calls", s_done)
                if s_done:
                    out.labels.append("S_ok")
                    cnt(f"cases.S.{name}")
                    nontrivial = nontrivial or s_nontrivial

        if p_done == 0 and t_done == 0 and s_done == 0 and out.status == "ok":
            out.status = "rejected"
        out.nontrivial = nontrivial
        return out
    finally:
        unload_module(mod)


S_ALWAYS = {"count_set_bits", "count_clear_bits", "crc", "is_one_hot", "select", "apply_mask"}  # no P and/or no T level
S_LIMIT = 1024


def _open_sim(out, vhdl, inputs):
    """analyse + elaborate; static errors / unsupported constructs are never violations"""
    from cv.vhdl.analyze import analyse
    from cv.vhdl.sim import Blocked, Sim

    d = analyse(vhdl)
    if d.errors:
        out.status = "blocked_by_static"
        for e in d.errors[:3]:
            out.labels.append(f"static:{e.rule}:{str(e.msg)[:70]}")
        return None
    if d.unsupported:
        out.status = "blocked"
        out.labels.append(f"blocked:{str(d.unsupported)[:80]}")
        return None
    try:
        return Sim(d, top="Sim", inputs=inputs)
    except Blocked as b:
        out.status = "blocked"
        out.labels.append(f"blocked:{str(b)[:80]}")
        return None


def _poke_val(kind, raw):
    return H.to_signed(raw, kind[1]) if kind[0] == "s" else raw


def _spread(vals, limit):
    if len(vals) <= limit:
        return vals
    idx = sorted({(i * (len(vals) - 1)) // (limit - 1) for i in range(limit)})
    return [vals[i] for i in idx]


def _cmp_ports(sim, outs, exp):
    """None or (kind, text): simulated result ports against the expected normal form"""
    for n, ty, kind, path in outs:
        e = exp
        for i in path:
            e = e[1][i]
        got = sim.get(n)
        if got is None:
            return "undefined", f"port {n} = {sim.get_str(n)}"
        if kind == "bv":
            if int(got) != e[2]:
                return "value", f"port {n} = {int(got):0{e[1]}b}, expected {e[2]:0{e[1]}b}"
        elif kind == "num":
            if int(got) != e[1]:
                return "value", f"port {n} = {int(got)}, expected {e[1]}"
        else:
            if int(got) != e[1]:
                return "value", f"port {n} = {int(got)}, expected {e[1]}"
    return None


def _sim_comb(out, h, name, c, kinds, vals, vhdl, s_level, finding):
    from cv.vhdl.values import SimError

    outs = G.sim_shape(name, c)
    v0 = vals[0]
    try:
        sim = _open_sim(out, vhdl, {f"i{k}": _poke_val(kd, x) for k, (kd, x) in builtins.enumerate(zip(kinds, v0))})
    except SimError as e:
        finding(s_level(v0), "sim_error", v0, f"VHDL run-time error while settling: {e}")
        return 0, False
    if sim is None:
        return 0, False
    done = 0
    nontrivial = False
    for v in _spread(vals, S_LIMIT):
        try:
            if kinds:
                sim.poke(**{f"i{k}": _poke_val(kd, x) for k, (kd, x) in builtins.enumerate(zip(kinds, v))})
        except SimError as e:
            finding(s_level(v), "sim_error", v, f"VHDL run-time error: {e}")
            break
        exp = h.ref(c, v)
        bad = _cmp_ports(sim, outs, exp)
        done += 1
        if bad:
            finding(s_level(v), bad[0], v, "simulated " + bad[1])
        elif h.nontrivial(c, v, exp):
            nontrivial = True
    return done, nontrivial


def _sim_crc(out, h, name, c, kinds, vals, vhdl, s_level, finding):
    """clocked wrapper: clear, then feed the message k bits per rising edge (a final partial chunk with last=1)"""
    from cv.vhdl.values import SimError

    L, k = c["L"], c["k"]
    zero = {"clk": 0, "clear": 0, "last": 0}
    zero.update({f"d{i}": 0 for i in range(k)})
    try:
        sim = _open_sim(out, vhdl, zero)
    except SimError as e:
        finding("S", "sim_error", vals[0], f"VHDL run-time error while settling: {e}")
        return 0, False
    if sim is None:
        return 0, False
    done = 0
    nontrivial = False
    for v in _spread(vals, 192):
        try:
            sim.clock("clk", clear=1, last=0)
            for off in range(0, L, k):
                chunk = list(v[off:off + k])
                part = len(chunk) < k
                chunk += [0] * (k - len(chunk))
                sim.clock("clk", clear=0, last=int(part), **{f"d{i}": x for i, x in builtins.enumerate(chunk)})
        except SimError as e:
            finding(s_level(v), "sim_error", v, f"VHDL run-time error: {e}")
            break
        exp = h.ref(c, v)
        got = sim.get("o")
        done += 1
        if got is None:
            finding(s_level(v), "undefined", v, f"simulated port o = {sim.get_str('o')}")
        elif int(got) != exp[2]:
            finding(s_level(v), "value", v, f"simulated port o = {int(got):0{exp[1]}b}, expected {exp[2]:0{exp[1]}b}")
        elif h.nontrivial(c, v, exp):
            nontrivial = True
    return done, nontrivial


def _show(kinds, v):
    parts = []
    for k, x in zip(kinds, v):
        parts.append(f"{x}" if k[0] in ("bit", "bool") else f"{k[0]}{k[1]}'{x:0{k[1]}b}")
    return "(" + ", ".join(parts) + ")"


def render_sim_entity(helper, config):
    """module source whose entity `Sim` has one input port i<k> per flat argument of the helper
    (kinds: cv.gen.c18_helpers.HELPERS[helper].args(config)) and result port(s) o / o_<i>"""
    return G.render_module(helper, config)


def selfcheck():
    H.selfcheck()


def view(case):
    h = G.HELPERS[case["h"]]
    return {"helper": case["h"], "config": case["c"], "call": h.expr(case["c"]), "pre": h.pre(case["c"]),
            "args": [list(k) for k in h.args(case["c"])], "samples": case.get("samples")}
