"""C14 - std.Fifo and std.Stack keep order, content and occupancy exact.

A case is a configuration (component, N, element type, delays / contexts / stack mode) plus
either a drawn request schedule (<= 80 clocks) or an exploration order: breadth-first over
the joint states (simulator snapshot, model state) applying every request combination per
clock with a 2-symbol data alphabet until closure or a state cap.

The component is wrapped (cv/gen/c14_designs.py) in an entity whose inputs are requests and
which applies the documented preconditions itself; the reference side (cv/ref/c14_model.py)
is a deque / list model taking the same requests.

  undelayed Fifo, Stack : popped value + valid, accepted-push flag, empty, full, size, front
                          compared after EVERY clock (exact timing)
  delayed Fifo          : validity predicates only - delivered values follow push order without
                          loss/duplication, nothing delivered while truly empty, nothing accepted
                          while truly full, the full/empty seen by either side never optimistic,
                          everything accepted is delivered within a drain phase
"""
from __future__ import annotations

import builtins

from hypothesis import strategies as st

from cv.gen import c14_designs as G
from cv.gen.c1416_common import SimError, build_cached, drop_cached, explore
from cv.harness.runner import Outcome, canon
from cv.ref.c14_model import FifoLedger, FifoModel, StackModel

PROPERTY = "C14"
TECHNIQUE = (
    "model-based property testing: Hypothesis-drawn request schedules and breadth-first lock-step exploration "
    "(simulator snapshot x model state, every request combination per clock, 2-symbol data alphabet, to closure) "
    "of generated wrapper entities simulated on cv.vhdl, against deque/list reference models"
)
RULE = (
    "case = configuration {Fifo|Stack, N in 2..9, element in BitVector[2]/Unsigned[3]/2-field Record, Fifo delays "
    "(none | tx,rx in 0..2 | delay=k) with producer/consumer in one or two contexts, Stack mode} + request schedule "
    "(<= 80 clocks, segments fill/drain/both/idle/random) or exploration order; non-trivial = the schedule wraps an "
    "index (>= N accepted pushes; DROP_OLD: a push to a full stack), or has push+pop in one clock at occupancy "
    "0/1/N-2/N-1, or a pop in the clock right after the push that made the container non-empty, or (Stack) a reset "
    "of a non-empty stack / pop at size 1 / push at size N-1; explorations are non-trivial when they reach a full "
    "container; distinct = case hash"
)
ASSUMPTIONS = [
    "VHDL semantics as implemented by cv.vhdl (calibrated on the upstream cocotb benches)",
    "the wrapper decides push/pop from full()/empty() as seen in its own context in the same clock (the documented "
    "preconditions); a push and a pop in one clock are both judged against the state before the clock, so a push to "
    "a full Fifo is refused even when a pop happens in the same clock",
    "Stack: at most one of push/pop/reset per clock (the wrapper uses if/elif), front() is only read while not empty",
    "delayed Fifo: exact latency of the indications is not specified; only the validity predicates are asserted, and "
    "'no loss' is checked with a drain phase of 4*(tx+rx+3)+2*N+8 clocks in which only the consumer is active",
    "Fifo with delays used from a single context is documented to be refused (SyncFlag assertion); when cohdl accepts "
    "such a design anyway it is checked like every other delayed Fifo (signature class delayed_one_ctx)",
    "a VHDL assertion of the component itself ('writing to full fifo', ...) that fires although the wrapper "
    "respected the precondition is reported (observable `assert`) only for the undelayed Fifo, where the asserted "
    "signal is the documented full/empty; with delays the assertion reads an internal mixed-side signal and is "
    "only counted",
]
LEVEL = "exploration"

NS = list(range(2, 10))
ELEMS = ["bv2", "u3", "rec"]
DELAYS = [(t, r) for t in range(3) for r in range(3) if (t, r) != (0, 0)]


# ------------------------------------------------------------------------- configurations
def all_cfgs():
    out = []
    for n in NS:
        for e in ELEMS:
            for c in ("one", "two"):
                out.append({"comp": "fifo", "N": n, "elem": e, "form": "none", "tx": 0, "rx": 0, "ctx": c})
            for i, (t, r) in builtins.enumerate(DELAYS):
                out.append({"comp": "fifo", "N": n, "elem": e, "form": "txrx", "tx": t, "rx": r, "ctx": "two",
                            "obs": "last" if (i + n) % 2 else "first"})
            for k in (1, 2):
                out.append({"comp": "fifo", "N": n, "elem": e, "form": "delay", "tx": k, "rx": k, "ctx": "two",
                            "obs": "last" if (k + n) % 2 else "first"})
            for m in ("NO_OVERFLOW", "DROP_OLD"):
                out.append({"comp": "stack", "N": n, "elem": e, "mode": m})
    for e in ELEMS:  # delays + one context: documented (SyncFlag assertion text) to be refused
        out.append({"comp": "fifo", "N": 3, "elem": e, "form": "txrx", "tx": 1, "rx": 0, "ctx": "one"})
        out.append({"comp": "fifo", "N": 4, "elem": e, "form": "delay", "tx": 1, "rx": 1, "ctx": "one"})
        out.append({"comp": "fifo", "N": 3, "elem": e, "form": "txrx", "tx": 0, "rx": 1, "ctx": "one"})
        out.append({"comp": "fifo", "N": 4, "elem": e, "form": "txrx", "tx": 0, "rx": 2, "ctx": "one"})
    return out


def explore_cfgs(tier):
    quick = tier == "quick"
    cap = 60000 if quick else 300000
    out = []

    def fifo(n, e, c, t=0, r=0, obs="first"):
        cfg = {"comp": "fifo", "N": n, "elem": e, "form": "txrx" if (t or r) else "none", "tx": t, "rx": r, "ctx": c}
        if obs != "first":
            cfg["obs"] = obs
        out.append((cfg, cap))

    def stack(n, e, m):
        out.append(({"comp": "stack", "N": n, "elem": e, "mode": m}, cap))

    for n in range(2, (5 if quick else 7) + 1):
        for e in (ELEMS if n <= (4 if quick else 5) else ["bv2"]):
            for c in ("one", "two"):
                fifo(n, e, c)
    for n in range(2, (4 if quick else 5) + 1):
        for e in (ELEMS if n <= 3 else ["bv2"]):
            stack(n, e, "NO_OVERFLOW")
            if n <= 3 or not quick:
                stack(n, e, "DROP_OLD")
    for n in ([2, 3] if quick else [2, 3, 4, 5]):
        for (t, r) in (DELAYS if (n == 2 or not quick) else [(1, 0), (0, 1), (1, 1)]):
            fifo(n, "bv2", "two", t, r)
            if n == 2 or (t, r) == (1, 1):
                fifo(n, "bv2", "two", t, r, obs="last")
    if not quick:
        for (t, r) in [(1, 0), (1, 1)]:
            fifo(3, "rec", "two", t, r)
            fifo(3, "u3", "two", t, r)
    return out


def plan(tier):
    cfgs = all_cfgs()
    nsh = 24 if tier == "quick" else 48
    per_cfg = 10 if tier == "quick" else 160
    shards = []
    for i in range(nsh):
        mine = cfgs[i::nsh]
        # exact-timing configurations (undelayed Fifo, Stack) are drawn three times as often as one delay cell
        mine = mine + [c for c in mine if c["comp"] == "stack" or c["form"] == "none"] * 2
        shards.append({"kind": "hyp", "name": f"sched{i}", "examples": per_cfg * len(cfgs[i::nsh]), "cfgs": mine})
    ex = explore_cfgs(tier)
    # heavy explorations first so that they overlap with the schedule shards
    ex.sort(key=lambda ce: -(ce[0]["N"] + (3 if ce[0].get("form", "none") != "none" else 0)))
    nex = 16 if tier == "quick" else 40
    for i in range(nex):
        mine = ex[i::nex]
        if mine:
            shards.insert(0, {"kind": "enum", "name": f"explore{i}", "items": mine})
    return shards


# ------------------------------------------------------------------------- schedules
def _fifo_sched(width):
    seg = st.one_of(
        st.tuples(st.just("fill"), st.integers(1, 10)),
        st.tuples(st.just("drain"), st.integers(1, 10)),
        st.tuples(st.just("both"), st.integers(1, 8)),
        st.tuples(st.just("idle"), st.integers(1, 3)),
        st.tuples(st.just("rand"), st.lists(st.tuples(st.booleans(), st.booleans()), min_size=1, max_size=8)),
    )
    dvals = st.lists(st.integers(0, (1 << width) - 1), min_size=1, max_size=7)

    def expand(args):
        segs, dv = args
        out = []
        for kind, x in segs:
            if kind == "rand":
                steps = [(int(a), int(b)) for a, b in x]
            else:
                steps = [{"fill": (1, 0), "drain": (0, 1), "both": (1, 1), "idle": (0, 0)}[kind]] * x
            for pu, po in steps:
                out.append([pu, po, dv[len(out) % len(dv)]])
        return out[:80]

    return st.tuples(st.lists(seg, min_size=1, max_size=14), dvals).map(expand)


def _stack_sched(width):
    seg = st.one_of(
        st.tuples(st.just("push"), st.integers(1, 11)),
        st.tuples(st.just("pop"), st.integers(1, 11)),
        st.tuples(st.just("reset"), st.just(1)),
        st.tuples(st.just("idle"), st.integers(1, 2)),
        st.tuples(st.just("rand"), st.lists(st.integers(0, 3), min_size=1, max_size=8)),
    )
    dvals = st.lists(st.integers(0, (1 << width) - 1), min_size=1, max_size=7)

    def expand(args):
        segs, dv = args
        out = []
        for kind, x in segs:
            if kind == "rand":
                steps = list(x)
            else:
                steps = [{"push": 1, "pop": 2, "reset": 3, "idle": 0}[kind]] * x
            for op in steps:
                out.append([op, dv[len(out) % len(dv)]])
        return out[:80]

    return st.tuples(st.lists(seg, min_size=1, max_size=14), dvals).map(expand)


def strategy(shard):
    cfgs = shard["cfgs"]

    def for_cfg(cfg):
        w = G.elem_width(cfg["elem"])
        sch = _fifo_sched(w) if cfg["comp"] == "fifo" else _stack_sched(w)
        return sch.map(lambda s: {"cfg": cfg, "mode": "sched", "sched": s})

    return st.sampled_from(cfgs).flatmap(for_cfg)


def enumerate(shard):  # noqa: A001 - name fixed by the module contract
    for cfg, cap in shard["items"]:
        w = G.elem_width(cfg["elem"])
        yield {"cfg": cfg, "mode": "explore", "cap": cap, "alpha": [0, (1 << w) - 2]}


# ------------------------------------------------------------------------- signatures
def _is_pow2(n):
    return n & (n - 1) == 0


def _delay_class(cfg):
    if cfg.get("form", "none") == "none":
        return "none"
    return f"tx{cfg['tx']}rx{cfg['rx']}"


def _occ_class(occ, top):
    """occupancy class relative to the capacity `top` (Fifo: N-1, Stack: N)."""
    if occ == 0:
        return "0"
    if occ == top:
        return "cap"
    if occ == 1:
        return "1"
    if occ == top - 1:
        return "cap-1"
    return "mid"


def _sig(cfg, obs, when):
    if cfg["comp"] == "fifo" and cfg["ctx"] == "one" and cfg.get("form", "none") != "none":
        # one root cause for the whole class: a configuration cohdl documents as refused was accepted
        return {"comp": "Fifo", "delayed_one_ctx": True, "obs": obs}
    if cfg["comp"] == "fifo":
        return {"comp": "Fifo", "N_pow2": _is_pow2(cfg["N"]), "delay": _delay_class(cfg), "ctx": cfg["ctx"],
                "obs": obs, "when": when}
    return {"comp": "Stack", "N_pow2": _is_pow2(cfg["N"]), "mode": cfg["mode"], "obs": obs, "when": when}


# ------------------------------------------------------------------------- drivers
_ZERO_F = {"clk": 0, "push_req": 0, "pop_req": 0, "data": 0}
_ZERO_S = {"clk": 0, "push_req": 0, "pop_req": 0, "reset_req": 0, "data": 0}


class _FifoExact:
    """undelayed Fifo: every observable every clock."""

    def __init__(self, cfg):
        self.cfg = cfg
        self.m = FifoModel(cfg["N"])
        self.cap = cfg["N"] - 1
        self.labels = set()
        self.prev_made_nonempty = False

    alphabet_kind = "fifo"

    def state(self):
        return self.m.state()

    def set_state(self, s):
        self.m.set_state(s)
        self.prev_made_nonempty = False

    def step(self, sim, action):
        pu, po, da = action
        m = self.m
        occ = m.size()
        when = {(1, 1): "push+pop", (1, 0): "push", (0, 1): "pop", (0, 0): "none"}[(pu, po)] + "@" + _occ_class(occ, self.cap)
        full_before, empty_before = m.full(), m.empty()
        exp_push, exp_pop, popped = m.step(pu, po, da)
        # labels for the non-trivial rule
        if pu and po and occ in (0, 1, self.cap - 1, self.cap):
            self.labels.add("both@" + _occ_class(occ, self.cap))
        if exp_pop and self.prev_made_nonempty:
            self.labels.add("pop_right_after_first_push")
        self.prev_made_nonempty = exp_push and occ == 0 and not exp_pop
        if m.total_push >= self.cfg["N"]:
            self.labels.add("index_wrap")
        if m.full():
            self.labels.add("reached_full")
        a0 = sim.assert_failures
        sim.clock("clk", push_req=pu, pop_req=po, data=da)
        g = sim.get
        bad = []

        def cmp(obs, port, exp):
            got = g(port)
            if got != exp:
                bad.append((obs, f"{port} = {got}, model says {exp}"))

        cmp("push_accepted", "o_pushed", int(exp_push))
        cmp("pop_valid", "o_popv", int(exp_pop))
        cmp("pop_value", "o_pop", popped if exp_pop else 0)
        cmp("empty", "o_empty", int(m.empty()))
        cmp("full", "o_full", int(m.full()))
        cmp("full", "o_full_p", int(full_before))
        cmp("empty", "o_empty_c", int(empty_before))
        if not m.empty():
            cmp("front", "o_front", m.front())
        if sim.assert_failures != a0:
            bad.append(("assert", "the component's own VHDL assertion fired although the precondition was respected"))
        return when, bad


class _FifoDelayed:
    """delayed / cross-context Fifo: validity predicates."""

    def __init__(self, cfg):
        self.cfg = cfg
        self.l = FifoLedger(cfg["N"])
        self.cap = cfg["N"] - 1
        self.labels = set()
        self.total_push = 0
        self.prev_made_nonempty = False
        self.spurious_asserts = 0

    def state(self):
        return self.l.state()

    def set_state(self, s):
        self.l.set_state(s)
        self.prev_made_nonempty = False

    def step(self, sim, action):
        pu, po, da = action
        occ = self.l.occupancy()
        when = {(1, 1): "push+pop", (1, 0): "push", (0, 1): "pop", (0, 0): "none"}[(pu, po)] + "@" + _occ_class(occ, self.cap)
        a0 = sim.assert_failures
        sim.clock("clk", push_req=pu, pop_req=po, data=da)
        g = sim.get
        pushed, popped, val = g("o_pushed"), g("o_popv"), g("o_pop")
        bad = []
        if pushed not in (0, 1) or popped not in (0, 1):
            bad.append(("undefined", f"o_pushed={pushed} o_popv={popped}"))
            return when, bad
        if pushed and not pu:
            bad.append(("push_accepted", "push reported without a request"))
        if popped and not po:
            bad.append(("pop_valid", "pop reported without a request"))
        if pu and po and occ in (0, 1, self.cap - 1, self.cap):
            self.labels.add("both@" + _occ_class(occ, self.cap))
        if po and self.prev_made_nonempty:
            self.labels.add("pop_right_after_first_push")
        self.prev_made_nonempty = bool(pushed) and occ == 0
        bad += self.l.observe(bool(pushed), da, bool(popped), val)
        if pushed:
            self.total_push += 1
            if self.total_push >= self.cfg["N"]:
                self.labels.add("index_wrap")
        if self.l.occupancy() == self.cap:
            self.labels.add("reached_full")
        # the indications registered at this edge are what each side saw before the edge
        if g("o_full_p") == 0 and occ >= self.cap:
            bad.append(("full_optimistic", f"producer saw not-full while {occ} elements were stored"))
        if g("o_empty_c") == 0 and occ == 0:
            bad.append(("empty_optimistic", "consumer saw not-empty while nothing was stored"))
        if sim.assert_failures != a0:
            self.spurious_asserts += sim.assert_failures - a0
        return when, bad

    def drain(self, sim):
        cfg = self.cfg
        k = 4 * (cfg["tx"] + cfg["rx"] + 3) + 2 * cfg["N"] + 8
        for _ in range(k):
            when, bad = self.step(sim, (0, 1, 0))
            if bad:
                return "drain:" + when, bad
            if self.l.occupancy() == 0:
                break
        if self.l.occupancy():
            return "drain", [("undelivered", f"{self.l.occupancy()} accepted element(s) not delivered within {k} drain clocks")]
        return None, []


class _StackExact:
    def __init__(self, cfg):
        self.cfg = cfg
        self.n = cfg["N"]
        self.m = StackModel(cfg["N"], cfg["mode"] == "DROP_OLD")
        self.labels = set()
        self.pushes_since_reset = 0

    def state(self):
        return self.m.state()

    def set_state(self, s):
        self.m.set_state(s)

    def step(self, sim, action):
        op, da = action
        m = self.m
        occ = m.size()
        when = ("none", "push", "pop", "reset")[op] + "@" + _occ_class(occ, self.n)
        front_before = m.front()
        exp_push, exp_pop, exp_reset, popped = m.step(op, da)
        if op == 1 and occ == self.n and exp_push:
            self.labels.add("drop_oldest")
        if op == 1 and occ == self.n - 1:
            self.labels.add("push@cap-1")
        if op == 2 and occ == 1:
            self.labels.add("pop@1")
        if op == 3 and occ:
            self.labels.add("reset_nonempty")
        if m.full():
            self.labels.add("reached_full")
        a0 = sim.assert_failures
        sim.clock("clk", push_req=int(op == 1), pop_req=int(op == 2), reset_req=int(op == 3), data=da)
        g = sim.get
        bad = []

        def cmp(obs, port, exp):
            got = g(port)
            if got != exp:
                bad.append((obs, f"{port} = {got}, model says {exp}"))

        cmp("push_accepted", "o_pushed", int(exp_push))
        cmp("pop_valid", "o_popv", int(exp_pop))
        cmp("reset_done", "o_reset", int(exp_reset))
        cmp("pop_value", "o_pop", popped if exp_pop else 0)
        cmp("empty", "o_empty", int(m.empty()))
        cmp("full", "o_full", int(m.full()))
        cmp("size", "o_size", m.size())
        cmp("front_valid", "o_frontv", int(front_before is not None))
        cmp("front", "o_front", front_before if front_before is not None else 0)
        if sim.assert_failures != a0:
            bad.append(("assert", "the component's own VHDL assertion fired although the precondition was respected"))
        return when, bad


def _driver(cfg):
    if cfg["comp"] == "stack":
        return _StackExact(cfg)
    if cfg.get("form", "none") == "none":
        return _FifoExact(cfg)
    return _FifoDelayed(cfg)


def _simerror(out, cfg, key, e, when):
    drop_cached(key)
    if e.kind in ("index_out_of_range", "range_check", "integer_overflow"):
        out.add(_sig(cfg, "sim_" + e.kind, "any"), f"VHDL run-time error ({when}): {e}")
    else:
        out.status = "blocked"
        out.labels.append("blocked:sim_" + e.kind)


# ------------------------------------------------------------------------- check
def check(case):
    cfg = case["cfg"]
    out = Outcome()
    key = canon(cfg)
    zero = _ZERO_S if cfg["comp"] == "stack" else _ZERO_F
    b = build_cached(key, lambda: G.render(cfg), init=zero)
    kind = cfg["comp"] + ("" if cfg["comp"] == "stack" or cfg.get("form", "none") == "none" else "_delayed")
    out.labels.append(f"{kind}:{b.status}")
    if b.status != "ok":
        out.status = b.status
        if b.status == "blocked_by_static":
            out.labels.append("static:" + b.info.split(":")[0])
        return out
    if case["mode"] == "explore":
        return _explore(case, b.sim, out, key)
    sim = b.sim
    drv = _driver(cfg)
    when = "start"
    try:
        for t, action in builtins.enumerate(case["sched"]):
            when, bad = drv.step(sim, action)
            if bad:
                _report(out, cfg, when, bad, f"clock {t}, requests {action}")
                break
        else:
            if isinstance(drv, _FifoDelayed):
                when, bad = drv.drain(sim)
                if bad:
                    _report(out, cfg, when, bad, "drain phase after the schedule")
    except SimError as e:
        _simerror(out, cfg, key, e, when)
    _finish(out, drv, cfg)
    return out


def _report(out, cfg, when, bad, where):
    obs = bad[0][0]
    out.add(_sig(cfg, obs, when), f"{where}: " + "; ".join(f"[{o}] {t}" for o, t in bad))


def _finish(out, drv, cfg):
    for l in sorted(drv.labels):
        out.labels.append(l)
    nt = drv.labels - {"reached_full"}
    out.nontrivial = bool(nt)
    if isinstance(drv, _FifoDelayed) and drv.spurious_asserts:
        out.counters["delayed_fifo_internal_asserts"] = drv.spurious_asserts
        out.labels.append("delayed_fifo_internal_assert_fired")
    out.labels.append(f"N={cfg['N']}")
    out.labels.append("elem:" + cfg["elem"])


def _alphabet(cfg, alpha):
    a, b = alpha
    if cfg["comp"] == "stack":
        return [(0, 0), (1, a), (1, b), (2, 0), (3, 0)]
    return [(0, 0, 0), (0, 1, 0), (1, 0, a), (1, 0, b), (1, 1, a), (1, 1, b)]


def _explore(case, sim, out, key):
    cfg, cap = case["cfg"], case["cap"]
    zero = dict(_ZERO_S if cfg["comp"] == "stack" else _ZERO_F)
    zero.pop("clk")
    drv = _driver(cfg)
    res = explore(sim, drv, _alphabet(cfg, case["alpha"]), zero, cap)
    if res["failure"]:
        path, when, bad = res["failure"]
        _report(out, cfg, when, bad, f"exploration, after request sequence {path}")
    if res["error"]:
        _simerror(out, cfg, key, *res["error"])
    out.counters["explored_states"] = res["states"]
    out.counters["explored_transitions"] = res["transitions"]
    _finish(out, drv, cfg)
    out.nontrivial = "reached_full" in drv.labels
    if res["closed"]:
        out.exhaustive_cell = "closure:" + _cfg_name(cfg)
        out.labels.append("explore:closed")
    elif not out.findings and out.status == "ok":
        out.labels.append("explore:capped")
    return out


def _cfg_name(cfg):
    if cfg["comp"] == "stack":
        return f"Stack[{cfg['elem']},{cfg['N']}]/{cfg['mode']}"
    return f"Fifo[{cfg['elem']},{cfg['N']}]/{_delay_class(cfg)}/{cfg['ctx']}ctx" + ("/obs_last" if cfg.get("obs") == "last" else "")


def view(case):
    v = {"config": _cfg_name(case["cfg"]), "mode": case["mode"]}
    if case["mode"] == "sched":
        if case["cfg"]["comp"] == "stack":
            v["schedule"] = " ".join(("-", "push", "pop", "reset")[o] + (f"({d})" if o == 1 else "") for o, d in case["sched"])
        else:
            v["schedule"] = " ".join(
                ("+" + str(d) if pu else "") + ("-" if po else "") or "." for pu, po, d in case["sched"])
    else:
        v["cap"] = case["cap"]
        v["data_alphabet"] = case["alpha"]
    v["wrapper_source"] = G.render(case["cfg"])
    return v
