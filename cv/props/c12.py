"""C12 - instantiating an entity is equivalent to inlining it.

Case = {"spec": HierSpec, "stim": [int...]} (cv.gen.c12_spec).  One spec is rendered twice
(cv.gen.c12_render): hierarchical (every template an Entity) and flat (each leaf's logic helper
called in a context of Top on the composed actuals).  Oracle:
  (1) interface  - every emitted entity declaration == the declared ports of the class
                   (names as declared, directions, VHDL types/widths, order);
  (2) structure  - one design unit per template, emitted before every unit that instantiates it;
                   every instantiation associates every formal exactly once with the actual the
                   spec gave (parsed port maps, instances matched as a multiset);
  (3) behaviour  - simulated outputs of hierarchical == flat == cv.ref.c12_ref for a drawn
                   stimulus, every clock; all input valuations for combinational trees with
                   <= 10 input bits.
A static error of the emitted VHDL that concerns a port association is a C12 finding (the formal
is not wired to the actual given); every other static error is `blocked_by_static` (C06 owns it).
"""
from __future__ import annotations

import hashlib
import itertools
import json

from cv.gen import c12_render as R
from cv.gen import c12_spec as G
from cv.harness.runner import Outcome
from cv.ref import c12_ref as REF

PROPERTY = "C12"
TECHNIQUE = ("Hypothesis-generated instantiation trees rendered hierarchical and flat; structural oracle on the "
             "parsed VHDL (cv.vhdl) and differential simulation hierarchical / flat / plain-Python reference")
RULE = (
    "case = HierSpec: 1-3 generated leaf templates (typed combinational expressions over Bit/Unsigned/Signed/"
    "BitVector ports, optionally registered), 0-2 mid-level and one top node template with 1-3 instances each "
    "(tree depth <= 3, fan-out <= 3, templates repeated), actuals = whole signals, static slices / bit indices of "
    "wider objects, .unsigned/.signed/.bitvector views, parent ports passed through, computed values (x ^ y, x + c, "
    "x < y) on inputs, width-mismatched actuals in both directions; instances created in architecture(), via std.OpenEntity / std.ConnectedEntity and inside a "
    "concurrent context (there also slices / views of values computed in the context); parent-owned registers with "
    "non-null defaults (optionally reset) connected whole to instance inputs, power-up values compared; declaration "
    "order, keyword order and directions permuted. Non-trivial = the hierarchical "
    "design compiled and was checked, and it has >= 2 instances in the tree, or instantiation depth >= 2, or a "
    "slice/index/view actual; distinct = hash of the spec"
)
ASSUMPTIONS = [
    "cv.vhdl (analyse + Sim) is the VHDL oracle (calibrated on the upstream benches)",
    "a connection means the assignment in data-flow direction (in: formal <<= actual; out: actual <<= formal)",
    "reference values that depend on a register that has not been loaded yet are not compared (None)",
    "emitted names of parent objects: a port keeps its declared name, an output port may appear as buffer_<name>, "
    "a Signal(name=n) appears as n; an actual whose root name is none of these is labelled struct_unresolved and "
    "only judged by behaviour",
    "designs with a narrowing connection that cohdl accepts are judged only statically (no reference value exists)",
]

VHDL_TY = {"u": "unsigned", "s": "signed", "bv": "std_logic_vector"}
CONVERSIONS = {"unsigned", "signed", "std_logic_vector"}


def plan(tier):
    n, per = (16, 50) if tier == "quick" else (64, 320)
    return [{"kind": "hyp", "name": f"trees{i}", "examples": per} for i in range(n)]


def strategy(shard):
    return G.cases()


# =============================================================================== helpers
def vhdl_type(ty):
    if ty[0] == "bit":
        return "std_logic"
    return f"{VHDL_TY[ty[0]]}({ty[1] - 1} downto 0)"


def spec_hash(spec):
    return hashlib.sha256(json.dumps(spec, sort_keys=True).encode()).hexdigest()[:16]


def reachable(spec):
    T = spec["templates"]
    seen = []

    def go(i):
        if i in seen:
            return
        seen.append(i)
        if T[i]["kind"] == "node":
            for inst in T[i]["insts"]:
                go(inst["t"])
    go(spec["top"])
    return seen


def tree_stats(spec):
    T = spec["templates"]

    def go(i):
        t = T[i]
        if t["kind"] == "leaf":
            return 0, 0
        n, d = 0, 0
        for inst in t["insts"]:
            cn, cd = go(inst["t"])
            n += 1 + cn
            d = max(d, 1 + cd)
        return n, d
    return go(spec["top"])


def node_types(t):
    types = {p["name"]: p["ty"] for p in t["ports"]}
    types.update({s["name"]: s["ty"] for s in t["signals"]})
    return types


def actual_classes(spec):
    """{(node name, formal): set of classes} and the flat set of classes."""
    T = spec["templates"]
    per = {}
    for ti in reachable(spec):
        t = T[ti]
        if t["kind"] != "node":
            continue
        types = node_types(t)
        for inst in t["insts"]:
            child = T[inst["t"]]
            for p in child["ports"]:
                f = p["name"]
                if f in inst["conn"]:
                    a = inst["conn"][f]
                    c = G.classify(p["ty"], types[a["root"]], a)
                    if a["root"] in {q["name"] for q in t["ports"]} and c == "whole":
                        c = "whole"
                else:
                    c = "auto"
                per.setdefault((t["name"].lower(), f.lower()), set()).add((p["dir"], c))
    return per


def _norm_actual(n):
    """parsed port-map actual -> (root id, selector) or None if it is not a (converted) name."""
    while n.kind == "paren":
        n = n.expr if hasattr(n, "expr") else n.arg
    if n.kind == "apply" and n.prefix.kind == "name" and n.prefix.id in CONVERSIONS and len(n.args) == 1 \
            and n.args[0].kind != "range":
        return _norm_actual(n.args[0])
    if n.kind == "name":
        return (n.id, None)
    if n.kind == "apply" and n.prefix.kind == "name" and len(n.args) == 1:
        a = n.args[0]
        if a.kind == "range" and a.left.kind == "int" and a.right.kind == "int":
            if a.dir != "downto":
                return (n.prefix.id, ("to", a.left.value, a.right.value))
            return (n.prefix.id, (a.left.value, a.right.value))
        if a.kind == "int":
            return (n.prefix.id, (a.value,))
    return None


# =============================================================================== oracle parts
def check_interface(spec, d, out):
    T = spec["templates"]
    for ti in reachable(spec):
        t = T[ti]
        ent = d.entities.get(t["name"].lower())
        if ent is None:
            out.add({"kind": "interface", "what": "entity_missing"}, f"no entity {t['name']} in the emitted VHDL")
            continue
        if ent.raw != t["name"]:
            out.add({"kind": "interface", "what": "entity_name"}, f"entity {t['name']} emitted as {ent.raw}")
        got = [(p.raw, p.mode, str(p.ty).lower().replace(" ", "")) for p in ent.ports]
        exp = [(p["name"], p["dir"], vhdl_type(p["ty"]).replace(" ", "")) for p in t["ports"]]
        out.counters["ports_checked"] = out.counters.get("ports_checked", 0) + len(exp)
        if got == exp:
            continue
        if sorted(got) == sorted(exp):
            what = "order"
        elif [g[0] for g in got] != [e[0] for e in exp]:
            what = "names"
        elif [g[1] for g in got] != [e[1] for e in exp]:
            what = "direction"
        else:
            what = "type"
        out.add({"kind": "interface", "what": what, "tkind": t["kind"]},
                f"entity {t['name']}: declared {exp}, emitted {got}")


def check_structure(spec, d, units, out):
    T = spec["templates"]
    reach = reachable(spec)
    names = {T[i]["name"].lower(): i for i in reach}
    pos = {}   # from the parsed file (d.order drops repeated units)
    for k, u in enumerate(units):
        if u.kind in ("entity", "architecture"):
            pos.setdefault((u.kind, u.name if u.kind == "entity" else u.entity), []).append(k)
    for name in names:
        for kind in ("entity", "architecture"):
            n = len(pos.get((kind, name), []))
            if n != 1:
                out.add({"kind": "structure", "what": "unit_count", "unit": kind, "n": min(n, 2)},
                        f"{kind} {name} appears {n} times in the emitted design file")
    extra = [n for (k, n) in pos if k == "entity" and n not in names]
    if extra:
        out.add({"kind": "structure", "what": "extra_unit"}, f"unexpected design units {extra}")
    archs = {u.entity: u for u in units if u.kind == "architecture"}
    for name, ti in names.items():
        t = T[ti]
        if t["kind"] != "node" or name not in archs:
            continue
        vinsts = [s for s in archs[name].stmts if s.kind == "instance"]
        if (("architecture", name) in pos):
            me = pos[("architecture", name)][0]
            for vi in vinsts:
                for kind in ("entity", "architecture"):
                    p = pos.get((kind, vi.entity), [None])[0]
                    if p is None or p > me:
                        out.add({"kind": "structure", "what": "order", "unit": kind},
                                f"{kind} {vi.entity} is not emitted before architecture of {name} which instantiates it")
        _match_instances(spec, t, vinsts, out, d)


def _match_instances(spec, t, vinsts, out, d):
    T = spec["templates"]
    sinsts = t["insts"]
    if len(vinsts) != len(sinsts):
        out.add({"kind": "structure", "what": "instance_count", "more": len(vinsts) > len(sinsts)},
                f"{t['name']}: {len(sinsts)} instances in the design, {len(vinsts)} in the VHDL")
        return
    port_names = {p["name"].lower(): p for p in t["ports"]}
    known = set()
    for p in t["ports"]:
        known.add(p["name"].lower())
        known.add("buffer_" + p["name"].lower())
    for s in t["signals"]:
        known.add(s["name"].lower())

    def expected(inst):
        child = T[inst["t"]]
        exp = {}
        for p in child["ports"]:
            f = p["name"]
            if f in inst["conn"]:
                a = inst["conn"][f]
                r = a["root"].lower()
                roots = {r}
                if r in port_names and port_names[r]["dir"] == "out":
                    roots.add("buffer_" + r)
                sl = a.get("sl")
                if a.get("op"):
                    # a computed value: the actual is a fresh signal that carries the value of the expression
                    psl = a.get("psl")
                    exp[f.lower()] = (None, ("expr", None if psl is None else tuple(psl)), p["dir"])
                else:
                    exp[f.lower()] = (roots, None if sl is None else tuple(sl), p["dir"])
            else:
                exp[f.lower()] = (None, None, p["dir"])
        return child["name"].lower(), exp

    def compare(vi, inst):
        """-> list of problems (what, formal, dir, text); 'unresolved' problems are not violations."""
        ename, exp = expected(inst)
        if vi.entity != ename:
            return [("entity", "", "", f"instance of {vi.entity} where {ename} expected")], []
        probs = []
        exprs = []
        seen = {}
        for k, a in enumerate(vi.pmap):
            if a.formal is None:
                child_ports = [p["name"].lower() for p in T[inst["t"]]["ports"]]
                f = child_ports[k] if k < len(child_ports) else f"#{k}"
            elif a.formal.kind == "name":
                f = a.formal.id
            elif a.formal.kind == "apply" and a.formal.prefix.kind == "name" and a.formal.prefix.id in CONVERSIONS \
                    and len(a.formal.args) == 1 and a.formal.args[0].kind == "name":
                f = a.formal.args[0].id        # type conversion on the formal: std_logic_vector(o) => actual
            else:
                probs.append(("partial_formal", "", "", "formal is not a simple name"))
                continue
            if f in seen:
                probs.append(("formal_twice", f, exp.get(f, (0, 0, ""))[2], f"formal {f} associated twice"))
                continue
            seen[f] = a
            if f not in exp:
                probs.append(("unknown_formal", f, "", f"formal {f} is not a port of {ename}"))
        autos = []
        for f, (roots, sel, dr) in exp.items():
            if f not in seen:
                probs.append(("formal_missing", f, dr, f"formal {f} of {ename} is not associated"))
                continue
            act = seen[f].actual
            if act is None:
                probs.append(("formal_open", f, dr, f"formal {f} of {ename} is left open"))
                continue
            na = _norm_actual(act)
            if na is None:
                probs.append(("unresolved", f, dr, f"actual of {f} is not a name: {act!r}"))
                continue
            if roots is None:
                want_sel = sel[1] if isinstance(sel, tuple) else None   # slice / index of a computed value
                if na[0] in known or na[1] != want_sel:
                    probs.append(("wrong_actual", f, dr, f"{f}: fresh signal{want_sel or ''} expected, found {na}"))
                if isinstance(sel, tuple):
                    exprs.append((f, na[0], inst["where"]))
                else:
                    autos.append(na[0])
                continue
            if na[0] not in known:
                probs.append(("unresolved", f, dr, f"{f}: actual {na} is not a known object of {t['name']}"))
                continue
            if na[0] not in roots or na[1] != sel:
                probs.append(("wrong_actual", f, dr, f"{f}: spec gave {sorted(roots)}{sel or ''}, port map has {na}"))
        if len(set(autos)) != len(autos):
            probs.append(("auto_shared", "", "", f"helper-created signals shared: {autos}"))
        return probs, exprs

    best = None
    for perm in itertools.permutations(range(len(sinsts))):
        probs, exprs = [], []
        for vi, si in zip(vinsts, perm):
            pr, ex = compare(vi, sinsts[si])
            probs += [(w, f, dr, f"{vi.label_raw}: {txt}") for (w, f, dr, txt) in pr]
            exprs += ex
        hard = [p for p in probs if p[0] != "unresolved"]
        key = (len(hard), len(probs))
        if best is None or key < best[0]:
            best = (key, probs, exprs)
        if key == (0, 0):
            break
    out.counters["assocs_checked"] = out.counters.get("assocs_checked", 0) + sum(len(v.pmap) for v in vinsts)
    for what, f, dr, txt in best[1]:
        if what == "unresolved":
            out.labels.append("struct_unresolved")
        else:
            out.add({"kind": "structure", "what": what, "dir": dr}, f"{t['name']}: {txt}")
    # the signal that stands for a computed actual must be driven (by the assignment of the expression)
    ent = d.entities.get(t["name"].lower())
    if ent is not None and ent.arch is not None and best[0][0] == 0:
        driven = {o.name for o in getattr(ent.arch, "drivers", {})}
        for f, sig, where in best[2]:
            out.counters["expr_actuals_checked"] = out.counters.get("expr_actuals_checked", 0) + 1
            if sig not in driven:
                out.add({"kind": "expr_actual", "what": "undriven", "where": where},
                        f"{t['name']}: formal {f} is associated with signal {sig}, which stands for the computed actual "
                        f"the design gave, but nothing drives {sig}: the expression is never assigned")


def is_portmap_error(e):
    w = str(e.extra.get("where", ""))
    return w.startswith("association of port") or w == "port-association" or \
        (e.rule == "S-struct" and e.extra.get("what") in ("formal-twice", "unknown-formal", "in-open", "in-missing",
                                                           "too-many"))


def portmap_signature(e, classes):
    """root cause of a static error on a port association, from the classes of the actuals the spec
    gave for that formal: the actual's Python type differs from the VHDL type of the printed name
    (view, slice of a numeric vector), or its width differs from the formal's."""
    import re
    m = re.search(r"port (\w+)", e.msg)
    port = m.group(1).lower() if m else ""
    unit = (e.unit or "").lower()
    if unit.startswith("arch_"):
        unit = unit[5:]
    cl = classes.get((unit, port), set())
    dirs = sorted({d for d, _ in cl}) or ["?"]
    parts = {x for _, c in cl for x in c.split("+")}
    cause = "unexplained"
    if e.rule == "S-type" and parts & {"view", "numslice"}:
        cause = "typed_actual"
    elif e.rule == "S-type" and "expr" in parts and "boolean" in e.msg:
        cause = "bool_expr_actual"      # a comparison (bool) given for a Bit formal
    elif e.rule == "S-width" and "narrower" in parts:
        cause = "narrower_actual"
    elif e.rule == "S-width" and "wider" in parts:
        cause = "wider_actual"
    return {"kind": "portmap_static", "rule": e.rule, "dir": "/".join(dirs), "cause": cause}


def _bits(sim, name, partial=None):
    s = sim.get_str(name)
    if partial is not None and isinstance(s, str):
        # only the bits with a reference value count; the others are forced to 0
        bits, mask = partial
        w = len(s)
        s = "".join(c if (mask >> (w - 1 - i)) & 1 else "0" for i, c in enumerate(s))
    if not isinstance(s, str) or any(c not in "01" for c in s):
        return None
    return int(s, 2)


# =============================================================================== check
INOUT_SRC = """from __future__ import annotations
import cohdl
from cohdl import std, Bit, BitVector, Unsigned, Signed, Port, Signal

class L0(cohdl.Entity):
    a0 = Port.input({fty})
    io0 = Port.inout({fty})

    def architecture(self):
        @std.concurrent
        def logic():
            self.io0 <<= self.a0

class Top(cohdl.Entity):
    x1 = Port.input({fty})
    pad1 = Port.inout({rty})

    def architecture(self):
{inst}
"""


def check_inout(case):
    """INOUT formal with a (typed view / slice of a) differently typed actual: both directions of the association
    must be type correct: `<actual type>(formal) => <formal type>(actual)`, no conversion when the VHDL types agree.
    cv.vhdl does not elaborate inout associations, so this is judged on the parsed port map."""
    from cv.harness.loader import Rejected, compile_source
    from cv.vhdl.parser import parse

    c = case["inout"]
    out = Outcome()
    out.identity = "inout:" + json.dumps(c, sort_keys=True)
    fty, rty = R.ty_src([c["fk"], c["w"]]), R.ty_src([c["rk"], c["rw"]])
    act = "self.pad1" + (f"[{c['sl'][0]}:{c['sl'][1]}]" if c["sl"] else "") + \
        ("." + R.VIEW_ATTR[c["view"]] if c["view"] else "")
    call = f"L0(a0=self.x1, io0={act})"
    inst = f"        {call}" if c["where"] == "arch" else f"        @std.concurrent\n        def ctx():\n            {call}"
    out.labels += ["inout", f"where:{c['where']}", "actual:" + ("+".join(
        (["slice" if c["rk"] == "bv" else "numslice"] if c["sl"] else []) + (["view"] if c["view"] else [])) or "whole")]
    try:
        vhdl = compile_source(INOUT_SRC.format(fty=fty, rty=rty, inst=inst), "Top")
    except Rejected as e:
        out.status = "rejected"
        out.labels.append("rejected:inout")
        return out
    out.nontrivial = bool(c["sl"] or c["view"])
    units, _ = parse(vhdl)
    ent = {u.name: u for u in units if u.kind == "entity"}
    for name, port, kind, wd in (("l0", "io0", c["fk"], c["w"]), ("top", "pad1", c["rk"], c["rw"])):
        p = next((q for q in ent[name].ports if q.raw == port), None) if name in ent else None
        if p is None or p.mode != "inout" or p.subtype.mark != VHDL_TY[kind]:
            out.add({"kind": "interface", "what": "inout_port"}, f"{name}.{port}: emitted {p and (p.mode, p.subtype.mark)}")
    arch = next(u for u in units if u.kind == "architecture" and u.entity == "top")
    vi = [s_ for s_ in arch.stmts if s_.kind == "instance"]
    assoc = [a for a in vi[0].pmap if "io0" in repr(a.formal)] if len(vi) == 1 else []
    if len(assoc) != 1:
        out.add({"kind": "structure", "what": "formal_missing", "dir": "inout"}, "io0 is not associated exactly once")
        return out
    a = assoc[0]

    def conv(n):
        if n.kind == "apply" and n.prefix.kind == "name" and n.prefix.id in CONVERSIONS and len(n.args) == 1 \
                and n.args[0].kind != "range":
            return n.prefix.id, n.args[0]
        return None, n
    fconv, fname = conv(a.formal)
    aconv, aexpr = conv(a.actual)
    na = _norm_actual(aexpr)
    want_sel = tuple(c["sl"]) if c["sl"] else None
    if fname.kind != "name" or fname.id != "io0" or na is None or na[0] not in ("pad1", "buffer_pad1") or na[1] != want_sel:
        out.add({"kind": "structure", "what": "wrong_actual", "dir": "inout"}, f"port map has {a!r}")
        return out
    tf, ta = VHDL_TY[c["fk"]], VHDL_TY[c["rk"]]       # a slice keeps the VHDL type of its root
    out.counters["inout_assocs_checked"] = 1
    # value flowing in: type of the (converted) actual must be the formal's; flowing out: the (converted) formal's
    # type must be the actual's
    if (aconv or ta) != tf:
        out.add({"kind": "portmap_static", "rule": "S-type", "dir": "inout", "cause": "actual_side"},
                f"io0 : inout {tf}, actual {ta}: association `{_txt(a)}` gives the formal a value of type {aconv or ta}")
    if (fconv or tf) != ta:
        out.add({"kind": "portmap_static", "rule": "S-type", "dir": "inout", "cause": "formal_side"},
                f"io0 : inout {tf}, actual {ta}: association `{_txt(a)}` gives the actual a value of type {fconv or tf}")
    return out


def _txt(a):
    def t(n):
        if n.kind == "name":
            return n.raw
        if n.kind == "apply":
            x = n.args[0]
            arg = f"{t(x.left)} {x.dir} {t(x.right)}" if x.kind == "range" else t(x)
            return f"{t(n.prefix)}({arg})"
        return str(getattr(n, "value", n.kind))
    return f"{t(a.formal)} => {t(a.actual)}"


def check(case):
    if "inout" in case:
        return check_inout(case)
    from cv.harness.loader import Rejected, compile_source
    from cv.vhdl.analyze import analyse
    from cv.vhdl.parser import parse
    from cv.vhdl.sim import Blocked, Sim
    from cv.vhdl.values import SimError

    spec = case["spec"]
    out = Outcome()
    out.identity = spec_hash(spec)
    n_inst, depth = tree_stats(spec)
    classes = actual_classes(spec)
    flat_cls = sorted({c for v in classes.values() for _, c in v})
    T = spec["templates"]
    reach = reachable(spec)
    helpers = sorted({i["helper"] for ti in reach if T[ti]["kind"] == "node" for i in T[ti]["insts"]})
    wheres = sorted({i["where"] for ti in reach if T[ti]["kind"] == "node" for i in T[ti]["insts"]})
    seq = any((T[ti]["kind"] == "leaf" and T[ti]["seq"]) or T[ti].get("regs") for ti in reach)
    for ti in reach:
        regs = {r["name"] for r in T[ti].get("regs") or []}
        if regs and any(a.get("root") in regs and a.get("sl") is None and not a.get("view") and not a.get("op")
                        for i in T[ti]["insts"] for a in i["conn"].values()):
            out.labels.append("default_register_to_instance_input")
        if any(r["rst"] for r in T[ti].get("regs") or []):
            out.labels.append("register_with_reset")
    repeated = any(len([i for i in T[ti]["insts"]]) != len({i["t"] for i in T[ti]["insts"]})
                   for ti in reach if T[ti]["kind"] == "node")
    out.labels += [f"depth{depth}", f"inst{min(n_inst, 6)}", "seq" if seq else "comb"]
    out.labels += [f"actual:{c}" for c in flat_cls] + [f"helper:{h}" for h in helpers] + [f"where:{w}" for w in wheres]
    if repeated:
        out.labels.append("template_repeated")
    interesting = n_inst >= 2 or depth >= 2 or any(c not in ("whole", "auto") for c in flat_cls)

    hier_src = R.render_hier(spec)
    try:
        vhdl = compile_source(hier_src, "Top")
    except Rejected as e:
        out.status = "rejected"
        msg = str(e)
        cls = "other"
        for key in ("written in multiple contexts", "assignment to port", "no definition provided", "type mismatch",
                    "width mismatch", "is less than source width", "not in the representable"):
            if key in msg:
                cls = key.replace(" ", "_")
        if cls == "other":
            import re
            cls = "other:" + e.exc_type + ":" + re.sub(r"[^A-Za-z ]+", "", msg.split(":", 1)[-1])[:48].strip().replace(" ", "_")
        out.labels.append(f"rejected:{cls}")
        return out

    narrowing = REF.narrowing_connections(spec)
    d = analyse(vhdl)
    if d.unsupported:
        out.status = "blocked"
        out.labels.append("blocked:unsupported")
        return out
    if any(e.rule == "S-parse" for e in d.errors):
        out.status = "blocked_by_static"
        out.labels.append("static:S-parse")
        return out
    units, _ = parse(vhdl)
    out.nontrivial = interesting
    check_interface(spec, d, out)
    check_structure(spec, d, units, out)

    if d.errors:
        other = False
        for e in d.errors:
            if is_portmap_error(e):
                out.add(portmap_signature(e, classes), f"{e.rule} line {e.line} ({e.unit}): {e.msg}")
            else:
                other = True
                out.labels.append(f"static:{e.rule}")
        out.status = "blocked_by_static" if other and not out.findings else "ok"
        out.labels.append("not_simulated")
        return out
    if any(f["signature"].get("kind") == "expr_actual" for f in out.findings):
        out.labels.append("not_simulated")      # the input of the instance is undriven: behaviour is known to differ
        return out
    if narrowing:
        out.labels.append("narrowing_accepted")
        out.status = "unspecified"
        return out

    # ---- behaviour
    try:
        sim_h = Sim(d, top="Top")
    except Blocked:
        out.status = "blocked"
        out.labels.append("blocked:sim")
        return out
    sim_f = None
    try:
        vhdl_f = compile_source(R.render_flat(spec), "Top")
        df = analyse(vhdl_f)
        if df.unsupported or df.errors:
            out.labels.append("flat:static" if df.errors else "flat:unsupported")
        else:
            try:
                sim_f = Sim(df, top="Top")
            except Blocked:
                out.labels.append("flat:blocked")
    except Rejected:
        out.labels.append("flat:rejected")

    ref = REF.Ref(spec)
    total_w = sum(REF.width(p["ty"]) for p in ref.inputs)
    if not ref.clocked and total_w <= 10:
        words = list(range(1 << total_w))
        out.exhaustive_cell = f"spec:{out.identity}"
        out.labels.append("exhaustive_inputs")
    else:
        words = [w & ((1 << total_w) - 1) for w in case["stim"]]
    compared = 0
    skipped = 0
    reported = set()
    if ref.clocked:
        for sim in (sim_h, sim_f):
            if sim is not None:
                sim.poke(clk=0)  # a first edge U -> 1 is not a rising edge
    steps = [(True, w) for w in words]
    if ref.clocked and words:
        steps.insert(0, (False, words[0]))      # power-up values: inputs applied, no clock edge yet
    for step, (edge, word) in enumerate(steps):
        ins = REF.unpack_stimulus(ref.inputs, word)
        exp = ref.clock(ins) if ref.clocked and edge else ref.outputs_for(ins)
        got = {}
        for side, sim in (("hier", sim_h), ("flat", sim_f)):
            if sim is None:
                continue
            try:
                if ref.clocked and edge:
                    sim.clock("clk", **ins)
                else:
                    sim.poke(**ins)
                got[side] = {p["name"]: _bits(sim, p["name"], ref.partial_out.get(p["name"])) for p in ref.outputs}
            except SimError as e:
                if side == "hier":
                    out.add({"kind": "behaviour", "what": "sim_error", "err": e.kind if hasattr(e, "kind") else "?"},
                            f"step {step}: {e}")
                    return out
                out.labels.append("flat:sim_error")
                sim_f = None
        for p in ref.outputs:
            n = p["name"]
            if exp[n] is None and n in ref.partial_out and ref.partial_out[n][1]:
                exp[n] = ref.partial_out[n][0] & ref.partial_out[n][1]
                out.counters["partial_outputs_compared"] = out.counters.get("partial_outputs_compared", 0) + 1
            if exp[n] is None:
                skipped += 1
                continue
            compared += 1
            h = got.get("hier", {}).get(n)
            f = got.get("flat", {}).get(n, exp[n]) if "flat" in got else exp[n]
            if h == exp[n] and f == exp[n]:
                continue
            side = "hier" if f == exp[n] else ("flat" if h == exp[n] else "both")
            sig = {"kind": "behaviour", "what": "mismatch", "side": side, "seq": seq}
            key = json.dumps(sig, sort_keys=True)
            if key not in reported:
                reported.add(key)
                out.add(sig, f"step {step} inputs {ins}: port {n} reference {exp[n]} hierarchical {h} "
                             f"flat {got.get('flat', {}).get(n, 'n/a')}")
    out.counters["values_compared"] = compared
    out.counters["values_skipped_unloaded"] = skipped
    if sim_f is not None:
        out.labels.append("flat_compared")
    return out


def view(case):
    if "inout" in case:
        return case
    spec = case["spec"]
    return {"hier": R.render_hier(spec).split("\n", 9)[-1], "stim": case["stim"][:3]}
