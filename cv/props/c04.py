"""C04 - reset returns every context to its power-up behaviour from any state.

C01/C03 designs with a reset (sync/async x active high/low), per-object noreset flags and
missing defaults, registered on_reset actions and optional step_cond, driven with schedules
in which reset is asserted at arbitrary clocks for arbitrary durations (for asynchronous
resets also as a pulse between two clock edges).  Three oracles:
 (1) the reference interpreter (cv/ref/seq.py) with the reset rule of the property;
 (2) metamorphic, reference-free: for fully resettable designs the trace after
     <any prefix> . <reset pulse> equals the trace from power-up, for the same later inputs;
 (3) the comparison of (1) runs after every clock, including the clocks at which reset is active."""
from __future__ import annotations

import copy

from hypothesis import strategies as st

from cv.gen import stmt as G
from cv.harness.runner import Outcome
from cv.props import _stmt as S
from cv.ref.seq import Machine, Unspecified
from cv.vhdl.values import SimError

PROPERTY = "C04"
TECHNIQUE = ("generated designs x generated reset schedules (Hypothesis): differential simulation against a reference "
             "interpreter plus a reference-free metamorphic relation (prefix . reset == power-up)")
RULE = (
    "case = generated sequential/coroutine design with Reset(sync|async, active high|low), noreset flags, objects without "
    "default, on_reset actions, optional step_cond + input sequence (36 clocks) + reset schedule (reset level per clock; for "
    "async resets additionally pulses between clock edges). non-trivial = reset became active in a state in which at least "
    "one resettable register differed from its default (measured on the reference), distinct = hash of the spec"
)
ASSUMPTIONS = [
    "VHDL semantics as implemented by cv.vhdl (calibrated on 254 upstream ghdl benches)",
    "synchronous reset is sampled at the active clock edge; asynchronous reset acts as soon as it is active and dominates the clock",
    "objects declared inside the body (local Signal/Variable) are outside the reset rule (they have no default)",
]


def plan(tier):
    if tier == "quick":
        return [{"kind": "hyp", "name": f"{fl}{i}", "examples": 30, "flavor": fl} for fl in ("seq", "coro") for i in range(8)]
    return [{"kind": "hyp", "name": f"{fl}{i}", "examples": 350, "flavor": fl} for fl in ("seq", "coro") for i in range(24)]


@st.composite
def _case(draw, flavor):
    rcfg = {"async": draw(st.booleans()), "active_low": draw(st.booleans())}
    spec = draw(G.design(flavor, reset=rcfg, max_stmts=4, depth=2 if flavor == "seq" else 3))
    # noreset flags
    for grp in ("outputs", "sigs", "vars"):
        for o in spec[grp]:
            if o.get("default") is not None and not o.get("push") and not o.get("pyref") and draw(st.integers(0, 6)) == 0:
                o["noreset"] = True
    # on_reset actions: give values to objects the reset rule does not touch
    acts = []
    for o in spec["outputs"] + spec["sigs"]:
        if (o.get("default") is None or o.get("noreset")) and not o.get("push") and draw(st.integers(0, 2)) == 0:
            v = draw(st.integers(0, 1)) if o["kind"] == "bit" else draw(st.integers(0, (1 << spec["W"]) - 1))
            acts.append({"k": "assign", "t": {"name": o["name"]}, "e": ["bconst", v] if o["kind"] == "bit" else ["const", v]})
    if acts:
        spec["ctx"]["reset"]["on_reset"] = acts
    has_push = any(o.get("push") for o in spec["outputs"])
    if not has_push and draw(st.integers(0, 4)) == 0:
        bits = [o["name"] for o in spec["inputs"] if o["kind"] == "bit"]
        spec["ctx"]["step_cond"] = ["in", draw(st.sampled_from(bits))]
    # spelling of the context (all documented to mean the same) / reset derived with or_reset / and_reset
    kind = draw(st.sampled_from(["direct", "direct", "object", "with_params", "call_on_reset", "derive", "derive"]))
    if kind == "derive":
        spec["ctx"]["reset"]["derive"] = {"op": draw(st.sampled_from(["or", "or", "and"])), "active_low": draw(st.booleans())}
    else:
        spec["ctx"]["style"] = kind
    n = 36
    stim = draw(G.stimulus(spec, n))
    # reset schedule: runs of active reset
    resets, pulses = [], []
    k = 0
    while k < n:
        if draw(st.integers(0, 7)) == 0:
            ln = draw(st.integers(1, 3))
            resets += [1] * ln
            k += ln
        else:
            resets.append(0)
            k += 1
    resets = resets[:n]
    pulses = [1 if (rcfg["async"] and not resets[i] and draw(st.integers(0, 11)) == 0) else 0 for i in range(n)]
    lvl = (lambda a: (0 if a else 1)) if rcfg["active_low"] else (lambda a: (1 if a else 0))
    case = {"spec": spec, "stim": stim, "pulses": pulses, "prefix": draw(st.integers(2, 12))}
    dv = spec["ctx"]["reset"].get("derive")
    if dv:
        # `resets` so far is the schedule of the *effective* reset; split it over the parent reset and the condition
        par, cond = [], []
        for a in resets:
            c = draw(st.integers(0, 2))
            if dv["op"] == "or":
                p_, c_ = ((1, 0), (0, 1), (1, 1))[c] if a else (0, 0)
            else:
                p_, c_ = (1, 1) if a else ((0, 0), (1, 0), (0, 1))[c]
            par.append(p_)
            cond.append(c_)
        if rcfg["async"]:
            # the combined reset is an undefaulted Bit signal: it is 'U' for the first delta cycles of a simulation, which an
            # asynchronous active-low test reads as active.  What happens at power-up is therefore not determined by the
            # property; every schedule of such a design starts with one clock of effective reset
            par[0] = cond[0] = 1
            pulses[0] = 0
        case["resets"] = [lvl(a) for a in par]
        case["rx"] = [((0 if a else 1) if dv["active_low"] else (1 if a else 0)) for a in cond]
    else:
        case["resets"] = [lvl(a) for a in resets]
    return case


def strategy(shard):
    return _case(shard["flavor"])


def _level(spec, active):
    low = bool(spec["ctx"]["reset"].get("active_low"))
    return (0 if active else 1) if low else (1 if active else 0)


def _is_active(spec, level, rx=None):
    """is the context's (effective) reset active for these port levels"""
    r = spec["ctx"]["reset"]
    par = bool(level) != bool(r.get("active_low"))
    dv = r.get("derive")
    if not dv or rx is None:
        return par
    cond = bool(rx) != bool(dv.get("active_low"))
    return (par or cond) if dv["op"] == "or" else (par and cond)


def _apply(sim, spec, row, rst, rx):
    """one clock.  With a derived reset the two reset inputs are changed one after the other, in the order in which the
    combined reset cannot glitch (a simultaneous change of both inputs of the and/or is a hazard of the design the user
    wrote, not something the property speaks about); then the data inputs change and the clock ticks"""
    dv = spec["ctx"]["reset"].get("derive")
    if dv and rx is not None:
        p_act = _is_active(spec, rst)
        c_act = bool(rx) != bool(dv.get("active_low"))
        first_active = dv["op"] == "or"
        order = sorted([("rst", rst, p_act), ("rx", rx, c_act)], key=lambda t: t[2] != first_active)
        for name, level, _ in order:
            sim.poke(**{name: level})
    S.apply_step(sim, spec, row, rst, rx)


def _rx_level(spec, active):
    dv = spec["ctx"]["reset"].get("derive")
    if not dv:
        return None
    return (0 if active else 1) if dv.get("active_low") else (1 if active else 0)


def _diff_from_default(m):
    for name, o in m.objs.items():
        if o.get("noreset") or o.get("default") is None:
            continue
        cur = m.sig.get(name) if o["group"] in ("outputs", "sigs") else m.var.get(name)
        if o["group"] in ("outputs", "sigs", "vars") and cur is not None and cur != o["default"]:
            return True
    return m.gen is not None and bool(m.visited_pauses)


def _run(cd, case, out):
    """oracle (1): reference with reset rule, compared after every clock and after every async pulse"""
    spec, stim, resets, pulses = cd.spec, case["stim"], case["resets"], case["pulses"]
    sim = cd.sim(stim[0])
    m = Machine(spec)
    nontriv = False
    rxs = case.get("rx") or [None] * len(stim)
    for k, row in enumerate(stim):
        active = _is_active(spec, resets[k], rxs[k])
        if active and _diff_from_default(m):
            nontriv = True
        try:
            exp = m.step(row, reset=active)
        except Unspecified as u:
            return "unspecified", {"step": k, "why": str(u)}, nontriv, m
        _apply(sim, spec, row, resets[k], rxs[k])
        bad = S.compare(sim, exp, spec)
        if bad:
            return "mismatch", {"step": k, "bad": bad, "phase": "reset_active" if active else "run"}, nontriv, m
        if pulses[k]:
            # the parent reset pulses between two clock edges; whether the context is reset depends on the condition too
            if _is_active(spec, _level(spec, True), rxs[k]):
                if _diff_from_default(m):
                    nontriv = True
                m.step(row, reset=True)
            exp = dict(m.sig)
            sim.poke(rst=_level(spec, True))
            sim.poke(rst=_level(spec, False))
            bad = S.compare(sim, exp, spec)
            if bad:
                return "mismatch", {"step": k, "bad": bad, "phase": "async_pulse"}, nontriv, m
    return "ok", {}, nontriv, m


def _fully_resettable(spec):
    for grp in ("outputs", "sigs", "vars"):
        for o in spec[grp]:
            if o.get("default") is None or o.get("noreset"):
                return False

    def has_local(body):
        for lst in S._stmt_lists({"body": body, "subs": []}):
            for s in lst:
                if s["k"] in ("localsig", "localvar"):
                    return True
        return False
    return not has_local(spec["body"]) and not any(has_local(sub["body"]) for sub in spec.get("subs", []))


def _metamorphic(cd, case):
    """oracle (2): outputs after prefix.reset == outputs from power-up (reference-free)"""
    spec, stim = cd.spec, case["stim"]
    p = min(case.get("prefix", 6), len(stim) - 4)
    prefix, tail = stim[:p], stim[p:]
    inactive, active = _level(spec, False), _level(spec, True)
    xi, xa = _rx_level(spec, False), _rx_level(spec, True)
    a = cd.sim(tail[0])
    b = cd.sim(prefix[0])
    for row in prefix:
        _apply(b, spec, row, inactive, xi)
    _apply(a, spec, tail[0], active, xa)   # both take one reset clock with the same inputs
    _apply(b, spec, tail[0], active, xa)
    for k, row in enumerate(tail[1:]):
        _apply(a, spec, row, inactive, xi)
        _apply(b, spec, row, inactive, xi)
        for port, _ in S.observables(spec):
            if a.get_str(port) != b.get_str(port):
                return {"step": k, "port": port, "powerup": a.get_str(port), "after_reset": b.get_str(port)}
    return None


def check(case):
    spec = case["spec"]
    out = Outcome()
    flavor = spec["ctx"]["type"]
    r = spec["ctx"]["reset"]
    rk = ("async" if r.get("async") else "sync") + ("_low" if r.get("active_low") else "_high")
    dv = r.get("derive")
    ck = (dv["op"] + "_reset" + ("_low" if dv.get("active_low") else "_high")) if dv else spec["ctx"].get("style", "direct")
    out.labels += ["flavor:" + flavor, "reset:" + rk, "ctx:" + ck]
    try:
        cd = S.Compiled(spec)
    except S.Rejected as e:
        out.status = "rejected"
        out.labels.append("rejected:" + S.reject_class(e))
        return out
    d = cd.design
    if d.unsupported:
        out.status = "blocked"
        return out
    if S.blocking(d):
        out.status = "blocked_by_static"
        out.labels += ["static:" + x for x in d.error_rules()]
        return out

    def evaluate(c2, cs):
        try:
            st_, info, nt, m = _run(c2, cs, out)
        except SimError as e:
            return "sim_error:" + e.kind, {"msg": str(e)}, False, None
        if st_ == "mismatch":
            return "mismatch:" + info["phase"], info, nt, m
        if st_ == "ok" and _fully_resettable(c2.spec):
            try:
                mm = _metamorphic(c2, cs)
            except SimError as e:
                return "sim_error:" + e.kind, {"msg": str(e)}, nt, m
            if mm is not None:
                return "metamorphic", mm, nt, m
            return "ok+meta", info, nt, m
        return st_, info, nt, m

    status, info, nontriv, m = evaluate(cd, case)
    if m is not None:
        out.labels += ["ref:" + l for l in sorted(m.labels) if l in ("reset", "step_cond_false", "restart", "push")]
    if r.get("on_reset"):
        out.labels.append("on_reset")
    if any(case["pulses"]):
        out.labels.append("async_pulse")
    if status in ("ok", "ok+meta", "unspecified"):
        out.status = "ok" if status != "unspecified" else "unspecified_tail"
        if status == "ok+meta":
            out.labels.append("metamorphic_checked")
            out.counters["metamorphic_checked"] = 1
        out.nontrivial = nontriv
        return out

    def fails(sp):
        try:
            c2 = S.Compiled(sp)
        except S.Rejected:
            return False
        if c2.design.unsupported or S.blocking(c2.design):
            return False
        cs = dict(case, spec=sp)
        return evaluate(c2, cs)[0] == status
    small = S.minimise(spec, fails)
    try:
        info = evaluate(S.Compiled(small), dict(case, spec=small))[1] if small is not spec else info
    except Exception:  # noqa: BLE001
        pass
    sig = {"property": PROPERTY, "flavor": flavor, "reset": rk, "ctx": ck, "divergence": status, "features": ",".join(S.features(small)),
           "on_reset": bool(small["ctx"]["reset"].get("on_reset")), "step_cond": small["ctx"].get("step_cond") is not None}
    out.status = "mismatch"
    out.add(sig, f"{info}\n--- minimised source ---\n{G.render(small)}")
    return out


def view(case):
    v = S.view(case)
    v["resets"] = case["resets"]
    v["pulses"] = case["pulses"]
    return v
