"""C10 - the compile-time Python subset evaluates exactly like CPython.

Differential test against the interpreter itself.  A case is a JSON tree that is rendered
(by construction) to a module defining ``run()``.  expected = run() executed by CPython in a
freshly loaded module instance; observed = the value a ``@cohdl.pyeval`` probe receives when
``run()`` is called from a traced ``std.concurrent`` context of a tiny entity (second fresh
module instance; the tracer re-interprets run()'s AST, see selfcheck()).

Generators: cv.gen.c10_bind (signatures x call shapes), cv.gen.c10_prog (programs).
"""
from __future__ import annotations

import contextlib
import io
import re

from hypothesis import strategies as st

from cv.gen import c10_bind as B
from cv.gen import c10_prog as P
from cv.gen import c10_rt as RT
from cv.harness import loader
from cv.harness.runner import Outcome

PROPERTY = "C10"
_py_enumerate = enumerate  # the module contract requires a function called `enumerate` below
TECHNIQUE = ("differential testing against CPython: enumerated signature x call-shape space + grammar-based "
             "Hypothesis programs, observed through a pyeval probe inside a traced concurrent context")
RULE = (
    "bind cases = (signature over po/n/*a/ko/**k x defaults, call over positional/keyword/*seq/**dict incl. "
    "duplicates, missing, surplus) in 9 definition contexts; complete enumeration for <=3 params / <=3 values "
    "(stride-sampled in quick) + Hypothesis for up to 6 params; prog cases = typed SSA programs from a grammar "
    "(defs pool: functions, closures, classes; statements: expressions, unpacking, comprehensions, loops, calls, "
    "operator dispatch). non-trivial = accepted by CPython and cohdl with >= 2 feature classes (prog) / a value "
    "compared or a CPython binding error confirmed rejected (bind); distinct = case hash"
)
ASSUMPTIONS = [
    "a CPython exception other than an argument-binding TypeError leaves the outcome unspecified (the statement "
    "only fixes values CPython produces and binding errors)",
    "and/or are only generated in boolean contexts (if/ifexp/comprehension tests, operand of not/bool()), so only "
    "their truth value is compared",
    "dict values are compared without regard to key order; floats by repr; instances of generated classes by "
    "class name and attribute dict; functions and other objects are opaque",
    "pyeval functions (probe, rec) are called natively by the tracer with the constants it computed; rec() is only "
    "placed where no return statement precedes it in the same function",
    "VHDL-level observation (driving int/bool results onto ports and simulating) is not part of this module yet",
]
EXHAUSTIVE = {"quick": False, "thorough": False}

HEAD = """import cohdl
from cohdl import std, Entity, Port, Bit
from cv.gen.c10_rt import probe as _probe, rec

"""

TAIL = """

class Top(Entity):
    o = Port.output(Bit)

    def architecture(self):
        @std.concurrent
        def logic():
            _probe(run())
"""


# ---------------------------------------------------------------------------- plan
ENUM_SPACES = {
    # name: (ctx, max_params, max_values)
    "mod33": ("mod", 3, 3),
    "local32": ("local", 3, 2),
    "method32": ("method", 3, 2),
    "mod42": ("mod", 4, 2),
}
_CHUNK = 2500


def _space_size(name):
    ctx, mp, mv = ENUM_SPACES[name]
    return sum(len(B.calls(s, mv)) for s in B.signatures(mp))


def plan(tier):
    shards = []
    if tier == "quick":
        # stride sample of the enumerated space (complete in thorough)
        for name, stride in (("mod33", 199), ("local32", 53), ("method32", 89)):
            n = _space_size(name)
            per = 2 if name == "mod33" else 1
            for k in range(per):
                shards.append({"kind": "enum", "name": f"bind:{name}:s{k}", "space": name, "lo": 0, "hi": n,
                               "stride": stride * per, "offset": k * stride})
        for i in range(2):
            shards.append({"kind": "hyp", "name": f"bindhyp{i}", "examples": 700, "gen": "bind"})
        for i in range(9):
            shards.append({"kind": "hyp", "name": f"prog{i}", "examples": 300, "gen": "prog"})
    else:
        for name in ENUM_SPACES:
            n = _space_size(name)
            stride = 8 if name == "mod42" else 1  # the 4-parameter space is only sampled
            for lo in range(0, n, _CHUNK * stride):
                shards.append({"kind": "enum", "name": f"bind:{name}:{lo}", "space": name, "lo": lo,
                               "hi": min(n, lo + _CHUNK * stride), "stride": stride, "offset": lo})
        for i in range(16):
            shards.append({"kind": "hyp", "name": f"bindhyp{i}", "examples": 2500, "gen": "bind"})
        for i in range(64):
            shards.append({"kind": "hyp", "name": f"prog{i}", "examples": 1300, "gen": "prog"})
        # coverage-guided (cv/harness/fuzz.py): libFuzzer bytes decoded by the same strategies, coverage of cohdl's tracer
        for i in range(8):
            shards.append({"kind": "fuzz", "name": f"fuzz{'prog' if i % 4 else 'bind'}{i}", "runs": 30000, "max_len": 4096,
                           "gen": "prog" if i % 4 else "bind"})
    return shards


def enumerate(shard):  # noqa: A001 - name fixed by the module contract
    ctx, mp, mv = ENUM_SPACES[shard["space"]]
    lo, hi, stride, offset = shard["lo"], shard["hi"], shard["stride"], shard["offset"]
    idx = 0
    for sig in B.signatures(mp):
        cs = B.calls(sig, mv)
        if idx + len(cs) <= lo:
            idx += len(cs)
            continue
        for call in cs:
            if lo <= idx < hi and (idx - offset) % stride == 0 and idx >= offset:
                case = {"kind": "bind", "ctx": ctx, "sig": sig, "call": call}
                if stride == 1:
                    case["cell"] = shard["space"]  # completely enumerated sub-space
                yield case
            idx += 1
        if idx >= hi:
            return


def strategy(shard):
    if shard["gen"] == "bind":
        return B.bind_case()
    return P.program()


# ---------------------------------------------------------------------------- running both sides
class _Raised:
    def __init__(self, exc):
        self.exc = exc
        self.name = type(exc).__name__
        self.msg = str(exc)


_BINDING_MSG = re.compile(
    r"missing \d+ required|takes (from )?\d+ (to \d+ )?positional argument|takes no arguments|"
    r"takes \d+ positional arguments? but|got an unexpected keyword argument|got multiple values for|"
    r"positional-only arguments? passed as keyword|keywords must be strings|takes no keyword arguments")


class _ModuleRaised(_Raised):
    """The generated module itself raised while being imported (before run() was called)."""


def is_binding_error(r: _Raised) -> bool:
    return r.name == "TypeError" and bool(_BINDING_MSG.search(r.msg))


def module_source(defs: list[str], body: list[str], result: str) -> str:
    lines = [HEAD, *defs, "", "", "def run():"]
    lines += ["    " + l for l in body]
    lines.append(f"    return {result}")
    return "\n".join(lines) + "\n" + TAIL


def run_cpython(src):
    """-> (value | _Raised, log, module)."""
    buf = io.StringIO()
    with contextlib.redirect_stdout(buf), contextlib.redirect_stderr(buf):
        RT.reset()
        try:
            mod = loader.load_module(src)
        except SyntaxError:
            raise  # our own rendering: a generator bug
        except Exception as e:  # noqa: BLE001 - module level code (natively created closures) may raise by design
            import types as _types

            stub = _types.ModuleType("cvgen_failed_import")
            stub.__file__ = None
            return _ModuleRaised(e), [], stub
        try:
            val = mod.run()
        except Exception as e:  # noqa: BLE001 - the program under test may raise by design (incl. RecursionError)
            val = _Raised(e)
    return val, list(RT.LOG), mod


def run_cohdl(src):
    """-> (value | loader.Rejected, log)."""
    buf = io.StringIO()
    RT.reset()
    with contextlib.redirect_stdout(buf), contextlib.redirect_stderr(buf):
        mod = loader.load_module(src)
    try:
        try:
            loader.compile_entity(mod.Top)
        except loader.Rejected as r:
            return r, list(RT.LOG)
        except RecursionError as e:  # the tracer recursed without bound: a rejection like any other
            return loader.Rejected(e), list(RT.LOG)
        if len(RT.OBS) != 1:
            # the context was traced but the probe did not fire exactly once: not a value we can compare
            return loader.Rejected(AssertionError(f"probe fired {len(RT.OBS)} times")), list(RT.LOG)
        return RT.OBS[0], list(RT.LOG)
    finally:
        loader.unload_module(mod)


# ---------------------------------------------------------------------------- structural, type-exact comparison
def canon(v, depth=0):
    """JSON-able canonical form; type-exact (bool is not int, tuple is not list)."""
    if depth > 12:
        return ["deep"]
    if v is None:
        return ["none"]
    if v is NotImplemented:
        return ["notimplemented"]
    t = type(v)
    if t is bool:
        return ["bool", v]
    if t is int:
        return ["int", v]
    if t is float:
        return ["float", repr(v)]
    if t is str:
        return ["str", v]
    if t is tuple:
        return ["tuple", [canon(x, depth + 1) for x in v]]
    if t is list:
        return ["list", [canon(x, depth + 1) for x in v]]
    if t is dict:
        items = [[canon(k, depth + 1), canon(x, depth + 1)] for k, x in v.items()]
        items.sort(key=lambda kv: repr(kv[0]))
        return ["dict", items]
    if t is range:
        return ["range", v.start, v.stop, v.step]
    if t is slice:
        return ["slice", canon(v.start, depth + 1), canon(v.stop, depth + 1), canon(v.step, depth + 1)]
    if isinstance(v, type):
        m = v.__module__
        return ["type", v.__qualname__ if m.startswith("cvgen") else f"{m}.{v.__qualname__}"]
    if t.__name__ in ("function", "method", "builtin_function_or_method", "FunctionDefinition", "method-wrapper"):
        return ["callable"]  # functions are opaque (the tracer keeps its own representation of local functions)
    mod = getattr(t, "__module__", "") or ""
    if mod.startswith("cvgen"):
        d = getattr(v, "__dict__", {})
        return ["obj", t.__qualname__, canon(dict(d), depth + 1)]
    if mod.startswith("cohdl"):
        return ["leak", t.__name__]
    return ["opaque", t.__name__]


def unwrap_leak(v):
    """If v is a leaked frontend statement object that carries a result, return (True, result)."""
    t = type(v)
    if (getattr(t, "__module__", "") or "").startswith("cohdl") and hasattr(v, "result") and callable(v.result):
        try:
            return True, v.result()
        except Exception:  # noqa: BLE001
            return False, v
    return False, v


def first_diff(exp, obs, path=()):
    """First structural difference between two canonical values -> (path, kind) or None."""
    if exp == obs:
        return None
    if exp[0] != obs[0]:
        if obs[0] == "leak":
            return path, f"leak:{obs[1]}"
        return path, f"type:{exp[0]}->{obs[0]}"
    tag = exp[0]
    if tag in ("tuple", "list"):
        if len(exp[1]) != len(obs[1]):
            return path, f"len:{tag}"
        for i, (a, b) in _py_enumerate(zip(exp[1], obs[1])):
            d = first_diff(a, b, path + (i,))
            if d:
                return d
    if tag == "dict":
        ka = [k for k, _ in exp[1]]
        kb = [k for k, _ in obs[1]]
        if ka != kb:
            return path, "dict_keys"
        for (k, a), (_, b) in zip(exp[1], obs[1]):
            d = first_diff(a, b, path + (repr(k),))
            if d:
                return d
    if tag == "obj":
        if exp[1] != obs[1]:
            return path, "obj_class"
        return first_diff(exp[2], obs[2], path + ("attrs",))
    return path, f"value:{tag}"


# ---------------------------------------------------------------------------- check
def check(case) -> Outcome:
    if case["kind"] == "bind":
        return _check_bind(case)
    return _check_prog(case)


def _check_bind(case) -> Outcome:
    out = Outcome()
    sig, call, ctx = case["sig"], case["call"], case["ctx"]
    defs, body, expr = B.render(case)
    src = module_source(defs, body, expr)
    path = "ast" if ctx in ("local", "lambda") else "callable"
    out.labels.append(f"bind:ctx={ctx}")
    if case.get("cell"):
        out.exhaustive_cell = f"bind:{case['cell']}"

    exp, _, m1 = run_cpython(src)
    loader.unload_module(m1)
    model = B.model_bind(sig, call)
    if isinstance(exp, _Raised):
        if not is_binding_error(exp):
            raise AssertionError(f"generator bug: bind program raised {exp.name}: {exp.msg}\n{src}")
        if model[0] != "err":
            raise AssertionError(f"binding model says ok but CPython raised {exp.msg}\n{src}")
    else:
        if model[0] != "ok":
            raise AssertionError(f"binding model says {model} but CPython returned {exp}\n{src}")
        names = [p[0] for p in sig]
        if tuple(model[1][n] for n in names) != exp:
            raise AssertionError(f"binding model {model} disagrees with CPython {exp}\n{src}")

    obs, _ = run_cohdl(src)
    rejected = isinstance(obs, loader.Rejected)

    if isinstance(exp, _Raised):
        why = model[1]
        out.labels.append(f"bind:invalid:{why}")
        if rejected:
            out.status = "ok"
            out.nontrivial = True
            out.labels.append("bind:invalid_confirmed_rejected")
        else:
            out.add({"gen": "bind", "kind": "accepts_invalid", "why": why, "path": path,
                     "dup_via": _dup_via(call) if why in ("dup_keyword", "multiple_values") else "-"},
                    f"CPython: TypeError: {exp.msg}\ncohdl returned {obs!r}\n--- run():\n{_run_text(src)}")
        return out

    out.labels.append("bind:valid")
    if rejected:
        out.status = "rejected"
        out.labels.append(f"bind:valid_rejected:{obs.exc_type}")
        if path == "ast" and any(p[1] == "ko" and not p[2] for p in sig):
            # notes/C10.md section 6: internal AttributeError in _ClassifyNames; a rejection, hence allowed by C10
            out.labels.append("bind:valid_rejected:local_required_kwonly")
        return out
    out.labels.append("bind:valid_accepted")
    out.nontrivial = True
    srcs = B.sources(sig, call)
    # compare parameter by parameter so that each root cause gets its own signature
    if type(obs) is not tuple or len(obs) != len(sig):
        out.add({"gen": "bind", "kind": "shape", "path": path}, f"expected {exp!r}\nobserved {obs!r}\n{_run_text(src)}")
        return out
    for (name, kind, dflt), e, o in zip(sig, exp, obs):
        leaked, inner = unwrap_leak(o)
        if leaked:
            out.add({"gen": "bind", "kind": "value", "path": path, "src": srcs.get(name, kind),
                     "diff": f"leak:{type(o).__name__}"},
                    f"parameter {name} ({kind}): expected {e!r}, observed a {type(o).__module__}.{type(o).__name__} "
                    f"object wrapping {inner!r}\n--- run():\n{_run_text(src)}")
            o = inner
        d = first_diff(canon(e), canon(o))
        if d:
            out.add({"gen": "bind", "kind": "value", "path": path, "param": kind, "src": srcs.get(name, kind),
                     "diff": d[1]},
                    f"parameter {name} ({kind}): expected {e!r}, observed {o!r}\n--- run():\n{_run_text(src)}")
    return out


def _dup_via(call):
    seen = {}
    for it in call:
        if it[0] == "k":
            seen.setdefault(it[1], []).append("k")
        elif it[0] == "d":
            for k, _ in it[1]:
                seen.setdefault(k, []).append("d")
    for k, v in seen.items():
        if len(v) > 1:
            return "+".join(sorted(v))
    return "positional+keyword"


def _run_text(src):
    a = src.index(HEAD) + len(HEAD)
    b = src.index(TAIL)
    return src[a:b].strip("\n")


def _check_prog(case) -> Outcome:
    return P.check_program(case, _Env)


class _Env:
    """What the program checker needs from this module (keeps cv.gen.c10_prog free of cohdl)."""
    Outcome = Outcome
    Rejected = loader.Rejected
    Raised = _Raised
    ModuleRaised = _ModuleRaised
    module_source = staticmethod(module_source)
    run_cpython = staticmethod(run_cpython)
    run_cohdl = staticmethod(run_cohdl)
    unload = staticmethod(loader.unload_module)
    canon = staticmethod(canon)
    first_diff = staticmethod(first_diff)
    unwrap_leak = staticmethod(unwrap_leak)
    is_binding_error = staticmethod(is_binding_error)
    run_text = staticmethod(_run_text)


def view(case):
    if case["kind"] == "bind":
        defs, body, expr = B.render(case)
        return {"kind": "bind", "source": "\n".join([*defs, "def run():", *["    " + l for l in body], f"    return {expr}"])}
    return P.view(case)


# ---------------------------------------------------------------------------- trusted-base self test
def selfcheck():
    """run() must really be interpreted by the tracer (not called natively), pyeval natively."""
    src = module_source(
        ["def helper():", "    return cohdl.evaluated()", "", "@cohdl.pyeval", "def native():", "    return cohdl.evaluated()"],
        ["x = helper()"], "(x, native(), [i for i in range(3)])")
    exp, _, m = run_cpython(src)
    loader.unload_module(m)
    obs, _ = run_cohdl(src)
    assert exp == (False, False, [0, 1, 2]), exp
    assert obs == (True, False, [0, 1, 2]), f"run() is not traced as assumed: {obs!r}"
    # comparison is type exact
    assert first_diff(canon((1, True)), canon((1, 1))) == ((1,), "type:bool->int")
    assert first_diff(canon([1]), canon((1,)))[1] == "type:list->tuple"
    assert first_diff(canon({"a": 1, "b": 2}), canon({"b": 2, "a": 1})) is None


def extra_coverage(tier, results):
    """Acceptance rate per feature class (programs): accepted / rejected statements carrying the feature."""
    acc, rej = {}, {}
    for r in results:
        for k, v in r.get("labels", {}).items():
            if k.startswith("acc:"):
                acc[k[4:]] = acc.get(k[4:], 0) + v
            elif k.startswith("rej:"):
                rej[k[4:]] = rej.get(k[4:], 0) + v
    table = {}
    for f in sorted(set(acc) | set(rej)):
        a, b = acc.get(f, 0), rej.get(f, 0)
        table[f] = {"accepted": a, "rejected": b, "rate": round(a / (a + b), 3)}
    bind = {}
    for r in results:
        for k, v in r.get("labels", {}).items():
            if k.startswith("bind:"):
                bind[k] = bind.get(k, 0) + v
    other = {}
    for r in results:
        for k, v in r.get("labels", {}).items():
            if not k.startswith(("acc:", "rej:", "bind:")):
                other[k] = other.get(k, 0) + v
    return {"acceptance_by_feature": table, "bind_labels": bind, "statement_labels": dict(sorted(other.items()))}
