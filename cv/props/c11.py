"""C11 - compilation is a pure function of the design, independent of history.

Case = a *history* executed in one interpreter: a list of designs (pool name + parameters,
rendered to module source by cv.gen.c11_designs) and a list of operations
    ["c", d, top]  compile the history's class object `top` of design d (exec on first use)
    ["f", d, top]  re-exec the source (new class objects) and compile
    ["a", d, top]  compile the same class object that was compiled last once more
on tops that a fresh interpreter accepts ("valid") or rejects ("invalid", = try_compile).  An op may carry
compile OPTIONS as 4th element ({"reserved": [...]} = additional_reserved_names, {"api": "string"|"library"|"dir"}
= VhdlCompiler.to_string / to_vhdl_library / to_dir); its golden is the fresh-interpreter result of the same
(design, options).

Oracle = golden(design, top): the result of a FRESH interpreter (subprocess, PYTHONHASHSEED=0)
that executes nothing but this one compilation.  For every compile of the history:
    golden accepted, history rejected          -> violation  later_compile_fails
    golden accepted, history accepted, bytes != -> violation  bytes_differ
    golden rejected, history accepted          -> violation  rejected_design_accepted
    golden rejected, history rejected          -> fine (messages are only labelled)
Separate "hashseed" cases compile one design in fresh interpreters under several
PYTHONHASHSEED values and compare the bytes.

The module-level state named in the property anchors is observed after every operation and
reported as labels only (`dirty:<item>:after:<stage>`); it never decides a verdict.  It is
reset at the *start* of a case (cv.gen.c11_exec.sanitize) so that a case does not inherit
the wreckage of the previous case run by the same worker.

Signature of a finding = (effect, class of the failure, minimal cause): the cause is found by re-running
sub-histories in fresh interpreters (first every single preceding compile, then removal of whole kinds of
preceding compiles): `after` = the kinds (pool stages) of rejected compiles that are needed to reproduce the
effect in a fresh interpreter, `with` = whether earlier accepted compiles (of the victim itself / of other
valid designs) are needed as well.
"""
from __future__ import annotations

import atexit
import hashlib
import json
import os
import shutil
import tempfile
import time
from builtins import enumerate as _enumerate  # the module contract shadows `enumerate`
import re
import subprocess
import sys
from concurrent.futures import ThreadPoolExecutor

from hypothesis import strategies as st

from cv.gen import c11_designs as D
from cv.gen import c11_exec as X
from cv.harness.runner import HarnessError, Outcome, canon

PROPERTY = "C11"
TECHNIQUE = ("Hypothesis-generated compilation histories over pools of valid and (differently) invalid designs, "
             "plus enumeration of ordered pairs IxV, VxV (complete in the thorough tier, every third pair in quick) and of hash seeds; differential oracle against a "
             "fresh-interpreter golden per design")
RULE = (
    "case = history of compile / compile-fresh-copy / compile-same-object-again operations (optionally with the "
    "compile options additional_reserved_names / to_vhdl_library / to_dir) over 1-6 designs drawn "
    "from pools of parametrised valid designs and of invalid designs that are rejected at different compiler "
    "stages, all executed in one interpreter; every result is compared with the result of a fresh interpreter "
    "compiling only that design with the same options. Non-trivial = a design accepted by the fresh interpreter is compiled after >= 1 "
    "compile that was rejected, or after a compile of a different design (>= 2 designs interleaved), or after a "
    "compile of the same design with different compile options; hash-seed cases "
    "(one design, fresh interpreters under >= 2 PYTHONHASHSEED values) are non-trivial when the design compiled "
    "under every seed. distinct = case hash"
)
ASSUMPTIONS = [
    "the result of a fresh interpreter (PYTHONHASHSEED=0) compiling only the design is the reference for that design",
    "module and file names of a generated design are a function of its source text (same in every interpreter)",
    "pool designs do not put id()/time/random values into names (their source does not legitimately vary)",
    "the monitored module-level items are reset to their import-time values at the start of every case; state "
    "that is not listed in the property anchors is inherited from earlier cases of the same worker (this only "
    "lengthens the history; each reported finding is re-derived in fresh interpreters for its signature)",
    "error *messages* of rejected designs are not compared, only accepted/rejected and the VHDL bytes",
]
SEEDS_QUICK = [0, 1, 2, 12345]
SEEDS_THOROUGH = [0, 1, 2, 12345, 7, 4294967295]
CHILD_TIMEOUT = 300
# "compiling it repeatedly ... yields byte-identical output": a design that the fresh interpreter rejects but that a
# later compile of the history accepts (and emits VHDL for) has no single output -> reported.  Set to False to
# demote this class to a label.
REJECTED_THEN_ACCEPTED_IS_VIOLATION = True

V_TARGETS = D.targets("V")
I_TARGETS = D.targets("I")


# =============================================================================== plan
def _variant_ids(name, tier):
    n = len(D.variants(name))
    if tier == "thorough":
        return list(range(n))
    return sorted({0, n - 1})


def _instances(targets, tier, first_only=False):
    """[(name, variant index, top)]"""
    return [(n, vi, top) for (n, top) in targets for vi in (_variant_ids(n, tier)[:1] if first_only else _variant_ids(n, tier))]


# quick tier: designs that are compiled with non-default OPTIONS (bounds the number of (design, options) goldens)
OPT_DESIGNS = ["name_collisions", "class_helper_objects", "prefix_named", "sync_flag_delay", "inline_entity",
               "comb_logic"]
QUICK_SHARDS = {"hist": 6, "ixv": 4, "vxv": 3, "opt": 1, "hashseed": 1, "recompile": 8}
QUICK_STRIDE = {"ixv": 6, "vxv": 14}  # quick: every n-th ordered pair per victim (rotating); thorough: all pairs


def plan(tier):
    quick = tier == "quick"
    shards = []
    n_hyp, per, maxlen = (QUICK_SHARDS["hist"], 10, 8) if quick else (48, 60, 24)
    for i in range(n_hyp):
        shards.append({"kind": "hyp", "name": f"hist{i}", "examples": per, "maxlen": maxlen, "pool": i, "tier": tier})
    for space, n_thorough in (("ixv", 24), ("vxv", 24), ("hashseed", 12), ("opt", 8), ("recompile", 10)):
        n = QUICK_SHARDS[space] if quick else n_thorough
        for i in range(n):
            shards.append({"kind": "enum", "name": f"{space}{i}", "space": space, "part": i, "parts": n, "tier": tier})
    only = os.environ.get("C11_ONLY")  # debugging aid: regular expression selecting shards by name
    if only:
        shards = [s for s in shards if re.search(only, s["name"])]
    return shards


def _dspec(name, vi):
    return {"d": name, "p": D.variants(name)[vi]}


RECOMPILE_DESIGNS = ["prefix_in_sequential", "prefix_in_context", "sync_flag_plain_sequential", "prefix_named",
                     "name_collisions"]
RECOMPILE_FILLERS = ["comb_logic", "seq_counter", "enum_state"]


def _enumerate_recompile(shard):
    """Long histories that compile one small design that derives names from counters (std.prefix / std.name /
    NamedQualifier inside a traced context, uniquified names) again and again, interleaved with 0-3 compiles of
    other small designs so that the heap layout differs from compile to compile: effects that depend on the
    allocation history (object addresses reused after a compilation) only show after many compilations."""
    quick = shard["tier"] == "quick"
    # whether addresses are reused depends on the heap layout of the PROCESS: the histories are spread over several
    # shards (= fresh worker processes), one or two short histories each
    designs = (RECOMPILE_DESIGNS[:2] + ["prefix_named"]) if quick else RECOMPILE_DESIGNS
    rounds = [(40, 20), (30, 12)] if quick else [(60, 40), (80, 20)]
    k = 0
    for name in designs:
        for vi in range(min(2, len(D.variants(name)))):
            for back_to_back, mixed in rounds:
                k += 1
                if k % shard["parts"] != shard["part"]:
                    continue
                ds = [_dspec(name, vi)] + [_dspec(f, 0) for f in RECOMPILE_FILLERS]
                # gc before EVERY compile (the garbage of the previous compilation is freed) and a varying number
                # of additional live objects, so that the freed addresses are handed out in shifted order
                def G(i):
                    return {"gc": True, "hold": i % (7 if back_to_back % 20 == 0 else 5)}

                ops = [["c", 0, "Top", G(0)]]
                for i in range(back_to_back):
                    ops.append([("c", "a", "a", "c", "a", "f", "a")[i % 7] if i % 11 else "c", 0, "Top", G(i)])
                for i in range(mixed):  # 0-2 other compilations in between
                    for j in range(i % 3):
                        ops.append(["c", 1 + (i + j) % len(RECOMPILE_FILLERS), "Top", G(i + j)])
                    # the last third without forced collection / held objects
                    ops.append([("c", "a", "c", "a")[i % 4], 0, "Top"] + ([G(i + 5)] if i < 2 * mixed // 3 else []))
                yield {"designs": ds, "ops": ops}


def enumerate(shard):  # noqa: A001 - name fixed by the module contract
    if shard["space"] == "recompile":
        yield from _enumerate_recompile(shard)
        return
    if shard["tier"] == "quick":
        yield from _enumerate_quick(shard)
        return
    for case in _enumerate_space(shard):
        # tag = the pair space is enumerated completely for the victim
        if shard["space"] in ("ixv", "vxv"):
            case["space"] = shard["space"]
        yield case


def _all_names():
    """Object names of the whole valid pool (first variants): the reserved-name set of the quick tier."""
    out = []
    for n in D.names("V"):
        for x in D.object_names(n, D.variants(n)[0]):
            if x not in out:
                out.append(x)
    return out


def _quick_optsets():
    names = _all_names()
    return [{"reserved": names}, {"reserved": names[::2], "api": "dir"}, {"api": "library"}]


def _quick_victims():
    """[(name, variant, top)]: first variant of every valid top; every 4th victim of VxV uses its last variant."""
    return [(n, 0, t) for (n, t) in V_TARGETS]


def _quick_vxv_victims():
    out = []
    for k, (n, t) in _enumerate(V_TARGETS):
        out.append((n, len(D.variants(n)) - 1 if k % 7 == 0 else 0, t))
    return out


def _pair(first, victim):
    (n, v, t), (vn, vv, vt) = first, victim
    if n == vn and v == vv:
        return None if t == vt else {"designs": [_dspec(n, v)], "ops": [["c", 0, t], ["c", 0, vt]]}
    return {"designs": [_dspec(n, v), _dspec(vn, vv)], "ops": [["c", 0, t], ["c", 1, vt]]}


def _enumerate_quick(shard):
    """Small tier: few variants (few distinct goldens), every kind of rejected stage, every op kind."""
    part, parts, space = shard["part"], shard["parts"], shard["space"]
    if space == "ixv":
        firsts = [(n, 0, t) for (n, t) in I_TARGETS]
        for k, victim in _enumerate(_quick_victims()):
            if k % parts != part:
                continue
            for j, first in _enumerate(firsts):
                if (j + k) % QUICK_STRIDE["ixv"] == 0 and not (first[0] == victim[0] and first[1] != victim[1]):
                    case = _pair(first, victim)
                    if case:
                        yield case
    elif space == "vxv":
        firsts = _quick_victims()
        for k, victim in _enumerate(_quick_vxv_victims()):
            if k % parts != part:
                continue
            vn, vv, vt = victim
            if k % 2 == 0:
                yield {"designs": [_dspec(vn, vv)], "ops": [["c", 0, vt], ["a", 0, vt]]}
                yield {"designs": [_dspec(vn, vv)], "ops": [["c", 0, vt], ["f", 0, vt]]}
            else:
                yield {"designs": [_dspec(vn, vv)], "ops": [["a", 0, vt]]}
            for j, first in _enumerate(firsts):
                if first[0] == vn and first[2] != vt:
                    # another top of the victim's module (shared helper / sub-entity classes): always, same module object
                    yield _pair((vn, vv, first[2]), victim)
                elif (j + k) % QUICK_STRIDE["vxv"] == 1 or (
                        first[0] != vn and "bit_order" in D.tags(first[0]) and "bit_order" in D.tags(vn)):
                    # designs with same-width vectors of opposite bit order are always paired, in both orders
                    case = _pair(first, victim)
                    if case:
                        yield case
    elif space == "opt":
        A, B, C = _quick_optsets()
        victims = [(n, 0, "Top") for n in OPT_DESIGNS]
        for (vn, vv, vt) in victims[part::parts]:
            other = "comb_logic" if vn != "comb_logic" else "name_collisions"
            vd, od = _dspec(vn, vv), _dspec(other, 0)
            yield {"designs": [vd], "ops": [["c", 0, vt, A], ["c", 0, vt]]}
            yield {"designs": [od, vd], "ops": [["c", 0, "Top", A], ["f", 1, vt]]}
            yield {"designs": [vd], "ops": [["c", 0, vt], ["c", 0, vt, A], ["c", 0, vt, C]]}
            yield {"designs": [vd], "ops": [["c", 0, vt, B], ["a", 0, vt], ["c", 0, vt, B]]}
    elif space == "hashseed":
        for k, (n, v, t) in _enumerate(_quick_victims()):
            if "alias_unnamed" in D.tags(n):
                # names derived from Python names (known to be order sensitive): all seeds, also in quick
                if part == 0:
                    seeds = (SEEDS_QUICK + [4] if n == "alias_unnamed_closure" else
                             SEEDS_QUICK if n == "alias_unnamed_nested" else SEEDS_QUICK[:3])
                    yield {"designs": [_dspec(n, v)], "ops": [["c", 0, t]], "hashseeds": seeds}
            elif k % 2 == 0 and (k // 2) % parts == part:
                # every second design, one extra fresh interpreter each; the seed values rotate over the designs
                yield {"designs": [_dspec(n, v)], "ops": [["c", 0, t]], "hashseeds": [0, SEEDS_QUICK[1 + (k // 2) % 3]]}
    else:
        raise HarnessError(f"unknown space {space}")


def _enumerate_space(shard):
    tier = shard["tier"]
    part, parts = shard["part"], shard["parts"]
    space = shard["space"]
    if space == "ixv":
        # victims are distributed over the shards (few goldens per shard), every shard sees all I
        victims = _instances(V_TARGETS, tier, first_only=(tier == "quick"))[part::parts]
        firsts = _instances(I_TARGETS, tier, first_only=(tier == "quick"))
        for (vn, vv, vt) in victims:
            for (n, v, t) in firsts:
                if n == vn:
                    if v != vv:
                        continue
                    yield {"designs": [_dspec(n, v)], "ops": [["c", 0, t], ["c", 0, vt]]}
                else:
                    yield {"designs": [_dspec(n, v), _dspec(vn, vv)], "ops": [["c", 0, t], ["c", 1, vt]]}
    elif space == "vxv":
        if tier == "quick":
            firsts = [(n, _variant_ids(n, tier)[0], t) for (n, t) in V_TARGETS]
            victims = [(n, _variant_ids(n, tier)[-1], t) for (n, t) in V_TARGETS][part::parts]
        else:
            firsts = _instances(V_TARGETS, tier)
            victims = _instances(V_TARGETS, "quick")[part::parts]  # first and last variant of every design
        for vidx, (vn, vv, vt) in _enumerate(victims):
            if tier == "quick":
                firsts_v = firsts[(part + vidx) % 2::2]  # quick: every second predecessor (thorough: all)
            else:
                firsts_v = firsts
            yield {"designs": [_dspec(vn, vv)], "ops": [["c", 0, vt], ["a", 0, vt]]}
            yield {"designs": [_dspec(vn, vv)], "ops": [["c", 0, vt], ["f", 0, vt]]}
            yield {"designs": [_dspec(vn, vv)], "ops": [["a", 0, vt]]}
            for (n, v, t) in firsts_v:
                if n == vn and v == vv:
                    if t != vt:
                        yield {"designs": [_dspec(n, v)], "ops": [["c", 0, t], ["c", 0, vt]]}
                else:
                    yield {"designs": [_dspec(n, v), _dspec(vn, vv)], "ops": [["c", 0, t], ["c", 1, vt]]}
    elif space == "opt":
        # compile OPTIONS of the public entry points: a compile with additional_reserved_names / through another
        # entry point must not influence later compiles (and must itself equal the golden of (design, options))
        for (vn, vv, vt) in _instances(V_TARGETS, tier, first_only=(tier == "quick"))[part::parts]:
            names = D.object_names(vn, D.variants(vn)[vv])
            res = {"reserved": names}
            other = "comb_logic" if vn != "comb_logic" else "seq_counter"
            vd, od = _dspec(vn, vv), _dspec(other, 0)
            yield {"designs": [vd], "ops": [["c", 0, vt, res], ["c", 0, vt]]}
            yield {"designs": [vd], "ops": [["c", 0, vt, res], ["f", 0, vt]]}
            yield {"designs": [od, vd], "ops": [["c", 0, "Top", res], ["c", 1, vt]]}
            yield {"designs": [vd], "ops": [["c", 0, vt], ["c", 0, vt, res], ["c", 0, vt, {"api": "library"}]]}
            yield {"designs": [vd], "ops": [["c", 0, vt, {"api": "dir", "reserved": names[:3]}], ["c", 0, vt],
                                            ["c", 0, vt, {"api": "dir"}]]}
    elif space == "hashseed":
        seeds = SEEDS_QUICK if tier == "quick" else SEEDS_THOROUGH
        for (n, v, t) in _instances(V_TARGETS, tier, first_only=(tier == "quick"))[part::parts]:
            yield {"designs": [_dspec(n, v)], "ops": [["c", 0, t]], "hashseeds": seeds}
    else:
        raise HarnessError(f"unknown space {space}")


def _pool(shard):
    """Per-shard sub-pool of design instances (bounds the number of goldens per worker)."""
    k = int(shard.get("pool", 0))
    vs, is_ = [], []
    vnames = D.names("V")
    inames = [n for n in D.names("I") if n not in vnames]
    # every shard: a rotating window of valid / invalid modules, one variant each
    quick = shard.get("tier", "quick") == "quick"  # quick: first variant only (goldens shared with the enum shards)
    nv, ni = 12, 9
    for j in range(nv):
        n = vnames[(k * 5 + j * 3) % len(vnames)]
        var = D.variants(n)
        vs.append({"d": n, "p": var[0 if quick else (k + j) % len(var)]})
    if quick:
        for j in range(2):  # two of the designs that are compiled with options
            n = OPT_DESIGNS[(2 * k + j) % len(OPT_DESIGNS)]
            vs.append({"d": n, "p": D.variants(n)[0]})
    for j in range(ni):
        n = inames[(k * 4 + j * 3) % len(inames)]
        var = D.variants(n)
        is_.append({"d": n, "p": var[0 if quick else (k + j) % len(var)]})

    def uniq(lst):
        seen, out = set(), []
        for x in lst:
            c = canon(x)
            if c not in seen:
                seen.add(c)
                out.append(x)
        return out

    return uniq(vs), uniq(is_)


def _option_sets(vs):
    """Three fixed option dicts per shard (bounds the number of (design, options) goldens)."""
    names = []
    for d in vs:
        for n in D.object_names(d["d"], d["p"]):
            if n not in names:
                names.append(n)
    few = []
    for d in vs[:4]:
        few += [n for n in D.object_names(d["d"], d["p"])[:6] if n not in few]
    return [{"reserved": names}, {"reserved": few, "api": "library"}, {"reserved": names[::2], "api": "dir"}]


def strategy(shard):
    vs, is_ = _pool(shard)
    maxlen = int(shard.get("maxlen", 10))
    quick = shard.get("tier", "quick") == "quick"
    optsets = _quick_optsets() if quick else _option_sets(vs)

    @st.composite
    def case(draw):
        dv = draw(st.lists(st.sampled_from(vs), min_size=1, max_size=4, unique_by=canon))
        di = draw(st.lists(st.sampled_from(is_), min_size=0, max_size=3, unique_by=canon))
        designs = dv + di
        targets = []  # (design index, top, valid?)
        for k, d in _enumerate(designs):
            for top, stg in D.DESIGNS[d["d"]]["tops"].items():
                targets.append((k, top, stg == "valid"))
        valid_t = [t for t in targets if t[2]]
        invalid_t = [t for t in targets if not t[2]]
        none = st.just(None)
        op_v = st.tuples(st.sampled_from(["c", "c", "f", "a"]), st.sampled_from(valid_t), none)
        # quick: only OPT_DESIGNS are compiled with options (their (design, options) goldens are shared by all shards)
        opt_t = [t for t in valid_t if designs[t[0]]["d"] in OPT_DESIGNS] if quick else valid_t
        ops_s = [op_v, op_v, op_v]
        if opt_t:
            ops_s.append(st.tuples(st.sampled_from(["c", "c", "f", "a"]), st.sampled_from(opt_t),
                                   st.sampled_from(optsets)))
        if invalid_t:
            op_i = st.tuples(st.sampled_from(["c", "c", "c", "f", "a"]), st.sampled_from(invalid_t), none)
            ops_s += [op_i, op_i]
        ops = draw(st.lists(st.one_of(*ops_s), min_size=2, max_size=maxlen))
        return {"designs": designs, "ops": [[o, t[0], t[1]] + ([opt] if opt else []) for o, t, opt in ops]}

    return case()


# =============================================================================== fresh interpreters
def _child_env(seed):
    env = dict(os.environ)
    env["PYTHONHASHSEED"] = str(seed)
    return env


def _run_child(sources, ops, seed=0):
    """Run a history in a fresh interpreter; returns the per-op result list."""
    req = json.dumps({"designs": sources, "ops": ops})
    r = subprocess.run([sys.executable, "-m", "cv.gen.c11_exec"], input=req, capture_output=True, text=True,
                       env=_child_env(seed), timeout=CHILD_TIMEOUT,
                       cwd=os.path.dirname(os.path.dirname(os.path.dirname(os.path.abspath(__file__)))))
    if r.returncode != 0 or "@@C11@@" not in r.stdout:
        raise HarnessError(f"C11 child interpreter failed (rc={r.returncode}): {r.stderr[-1500:]}")
    return json.loads(r.stdout.rsplit("@@C11@@", 1)[1])


_GOLDEN: dict = {}  # (source, top, seed) -> result dict, per worker process
_SUBHIST: dict = {}  # canonical (sources, ops) -> per-op results of a fresh interpreter
_GOLDEN_DIR_ENV = "CV_C11_GOLDEN_DIR"  # run-scoped temp dir shared by the workers (created/removed by the parent)


def _golden_path(key):
    d = os.environ.get(_GOLDEN_DIR_ENV)
    if not d or not os.path.isdir(d):
        return None
    return os.path.join(d, hashlib.sha256(canon(list(key)).encode()).hexdigest()[:32] + ".json")


def _goldens(keys, threads=4):
    """keys: iterable of (source, top, seed, optkey); fills the per-process cache.  A golden is the result of a
    fresh interpreter that performs only this compilation.  With a run-scoped directory every distinct golden is
    computed once per run: the worker that creates `<key>.lock` computes it, the others wait for the file."""
    todo, waiting = [], []
    for k in dict.fromkeys(keys):
        if k in _GOLDEN:
            continue
        p = _golden_path(k)
        if p and os.path.exists(p):
            with open(p) as f:
                _GOLDEN[k] = json.load(f)
        elif p:
            try:
                os.close(os.open(p + ".lock", os.O_CREAT | os.O_EXCL | os.O_WRONLY))
                todo.append(k)
            except FileExistsError:
                waiting.append(k)
        else:
            todo.append(k)

    def one(k):
        op = ["c", 0, k[1]] + ([json.loads(k[3])] if len(k) > 3 and k[3] else [])
        return _run_child([k[0]], [op], k[2])[0]

    def compute(ks):
        with ThreadPoolExecutor(min(threads, len(ks))) as ex:
            for k, res in zip(ks, ex.map(one, ks)):
                _GOLDEN[k] = res
                p = _golden_path(k)
                if p:
                    tmp = f"{p}.{os.getpid()}.tmp"
                    with open(tmp, "w") as f:
                        json.dump(res, f)
                    os.replace(tmp, p)

    if todo:
        compute(todo)
    late = []
    for k in waiting:  # computed by another worker of this run
        p = _golden_path(k)
        for _ in range(int(CHILD_TIMEOUT / 0.05)):
            if os.path.exists(p):
                break
            time.sleep(0.05)
        if os.path.exists(p):
            with open(p) as f:
                _GOLDEN[k] = json.load(f)
        else:
            late.append(k)  # the owner died: compute it here
    if late:
        compute(late)


def _optkey(op):
    """canonical text of the compile options of an op ("" = default compile)"""
    if len(op) > 3 and op[3]:
        opts = {k: v for k, v in op[3].items() if k not in ("gc", "hold")}  # history events, not compile options
        return canon(opts) if opts else ""
    return ""


def _golden(source, top, seed=0, optkey=""):
    _goldens([(source, top, seed, optkey)])
    return _GOLDEN[(source, top, seed, optkey)]


def _fresh_history(sources, ops):
    used = sorted({o[1] for o in ops})
    remap = {d: i for i, d in _enumerate(used)}
    srcs = [sources[d] for d in used]
    ops2 = [[o[0], remap[o[1]], o[2]] + list(o[3:]) for o in ops]
    key = canon([srcs, ops2])
    if key not in _SUBHIST:
        _SUBHIST[key] = _run_child(srcs, ops2)
    return _SUBHIST[key]


# =============================================================================== comparison
_IDENT = re.compile(r"[A-Za-z_][A-Za-z0-9_]*")


def _diff_class(golden: str, got: str) -> str:
    """Coarse, value-free class of a byte difference."""
    if _IDENT.sub("I", golden) == _IDENT.sub("I", got):
        return "identifiers_only"
    gl, hl = golden.splitlines(), got.splitlines()
    if len(gl) == len(hl):
        return "same_line_count"
    return "lines_missing" if len(hl) < len(gl) else "lines_added"


def _first_diff(golden: str, got: str) -> str:
    gl, hl = golden.splitlines(), got.splitlines()
    for i in range(max(len(gl), len(hl))):
        a = gl[i] if i < len(gl) else "<eof>"
        b = hl[i] if i < len(hl) else "<eof>"
        if a != b:
            return f"first difference at line {i + 1}:\n  fresh  : {a.strip()[:160]}\n  history: {b.strip()[:160]}"
    return "texts differ only in line terminators"


def _verdict(gold, res):
    """-> None (consistent) or (effect, class)"""
    if gold["ok"] and not res["ok"]:
        return ("later_compile_fails", X.msg_class(res))
    if gold["ok"] and res["ok"]:
        if gold["vhdl"] != res["vhdl"]:
            return ("bytes_differ", _diff_class(gold["vhdl"], res["vhdl"]))
        if "first_vhdl" in res and res["first_vhdl"] != gold["vhdl"]:
            return ("bytes_differ", _diff_class(gold["vhdl"], res["first_vhdl"]))
        f2 = res.get("first_of_two")
        if f2 is not None and not f2["ok"]:
            return ("later_compile_fails", X.msg_class(f2))
        return None
    if not gold["ok"] and res["ok"]:
        return ("rejected_design_accepted", "accepted")
    return None


# =============================================================================== cause reduction
def _cause(case, sources, k, verdict, results, out):
    """Minimal cause of `verdict` at op k, established by re-running sub-histories in fresh interpreters.

    -> (after, with_, confirmed)
       after : "+"-joined sorted kinds of *rejected* compiles that are needed ("no-reject" if none)
       with_ : "" | "same-design" | "valid" | "same-design+valid": accepted compiles that are needed as well
               (same-design = the victim design itself was compiled before / is compiled twice by op "a")
    The reduction removes whole kinds of preceding compiles (all ops of one reject stage, all compiles of
    other valid designs, all earlier compiles of the victim), so its cost is bounded by the number of kinds.
    """
    ops = case["ops"]
    victim = ops[k]
    vkey = (victim[1], victim[2])
    vgold = _golden(sources[victim[1]], victim[2], 0, _optkey(victim))

    def kind(o):
        opt = "/options" if _optkey(o) else ""  # compiles with options are a kind of their own
        if (o[1], o[2]) == vkey:
            return "same-design" + opt
        stg = D.stage(case["designs"][o[1]]["d"], o[2])
        return ("valid" if stg == "valid" else f"reject:{stg}") + opt

    def reproduces(prefix):
        res = _fresh_history(sources, list(prefix) + [victim])
        out.counters["cause_children"] = out.counters.get("cause_children", 0) + 1
        return _verdict(vgold, res[-1]) == verdict

    def describe(prefix):
        full = {kind(o) for o in prefix}
        kinds = {x.split("/")[0] for x in full}
        rej = sorted(x for x in kinds if x.startswith("reject:"))
        acc = [x for x in ("same-design", "valid") if x in kinds]
        if victim[0] == "a" and "same-design" not in acc:
            acc.insert(0, "same-design")  # op "a" compiles the victim's class object twice
        if any(x.endswith("/options") for x in full):
            acc.append("options")  # a preceding compile with non-default options is needed
        return "+".join(rej) if rej else "no-reject", "+".join(acc)

    prefix = [list(o) for o in ops[:k]]
    if not prefix:
        if victim[0] == "a":
            return (*describe([]), True)
        # first compile of the case differs from the fresh interpreter: caused by earlier cases of this worker
        return "earlier-cases-of-this-worker", "", False
    kinds_in_order = []
    for o in prefix:
        if kind(o) not in kinds_in_order:
            kinds_in_order.append(kind(o))
    if len(kinds_in_order) == 1 and len(prefix) == 1 and victim[0] != "a":
        return (*describe(prefix), True)  # the case itself is the minimal history
    if victim[0] == "a" and reproduces([]):
        return (*describe([]), True)
    # shortcut: one single preceding compile; those that dirtied monitored state first, most recent first
    distinct = []
    for o in prefix:
        if (o[1], o[2], _optkey(o)) not in [(d[1], d[2], _optkey(d)) for d in distinct]:
            distinct.append(o)
    dirtied = {(o[1], o[2]) for j, o in _enumerate(prefix) if results[j].get("dirtied")}
    recent_first = distinct[::-1]
    first_choice = [o for o in recent_first if (o[1], o[2]) in dirtied or _optkey(o)]
    cands = first_choice + [o for o in recent_first if o not in first_choice]
    for o in cands[:3]:
        single = ["c" if (o[1], o[2]) != vkey else o[0], o[1], o[2]] + list(o[3:])
        if reproduces([single]):
            return (*describe([single]), True)
    if not reproduces(prefix):
        return "not-reproduced-in-fresh-interpreter", "", False
    # remove whole kinds: other valid designs first, then rejects that did not dirty anything, then the rest
    cur = prefix
    dirty_kinds = {kind(o) for j, o in _enumerate(prefix) if results[j].get("dirtied")}
    order = sorted(kinds_in_order, key=lambda kd: (kd != "valid", kd in dirty_kinds, kd.endswith("/options"),
                                                   kd.startswith("same-design")))
    for kd in order:
        trial = [o for o in cur if kind(o) != kd]
        if len(trial) == len(cur):
            continue
        if reproduces(trial):
            cur = trial
    return (*describe(cur), True)


# =============================================================================== check
def _sources(case):
    return [D.render(d["d"], d["p"]) for d in case["designs"]]


def check(case):
    out = Outcome()
    sources = _sources(case)
    if "hashseeds" in case:
        return _check_hashseed(case, sources, out)

    ops = case["ops"]
    # goldens of the tops the pool declares valid; a top declared invalid only needs one when the
    # history accepted it (a fresh interpreter costs ~0.5 s)
    _goldens([(sources[o[1]], o[2], 0, _optkey(o)) for o in ops if D.stage(case["designs"][o[1]]["d"], o[2]) == "valid"])
    for n in X.sanitize():
        out.labels.append(f"sanitized_at_case_start:{n}")
    results = X.run_history(sources, ops, monitor=True)

    if case.get("space"):
        last = ops[-1]
        out.exhaustive_cell = f"{case['space']}:{case['designs'][last[1]]['d']}.{last[2]}"
    seen_reject = False
    seen_options = False
    seen_configs = set()
    seen_targets = set()
    reported = set()
    for k, (o, res) in _enumerate(list(zip(ops, results))):
        name = case["designs"][o[1]]["d"]
        stg = D.stage(name, o[2])
        if stg != "valid" and not res["ok"]:
            gold = {"ok": False, "exc": res.get("exc"), "msg": res.get("msg"), "assumed": True}
        else:
            gold = _golden(sources[o[1]], o[2], 0, _optkey(o))
        tkey = (o[1], o[2])
        out.counters["compiles"] = out.counters.get("compiles", 0) + 1
        out.labels.append(f"op:{o[0]}:{'valid' if gold['ok'] else 'invalid'}")
        if _optkey(o):
            out.labels.append("op_with_options:" + "+".join(sorted(o[3])))
            if seen_targets:
                out.labels.append("options_after_other_compile")
        elif seen_options:
            out.labels.append("default_compile_after_options")
        if gold["ok"] != (stg == "valid"):
            out.labels.append("pool_expectation_differs_from_fresh_interpreter")
        for item in res.get("dirtied", []):
            out.labels.append(f"dirty:{item}:after:{'accepted' if res['ok'] else 'reject:' + (stg if stg != 'valid' else 'valid-design')}")
        if gold["ok"]:
            if seen_reject:
                out.nontrivial = True
                out.labels.append("valid_after_reject")
            if seen_targets - {tkey}:
                out.nontrivial = True
                out.labels.append("valid_after_other_design")
            if {c for c in seen_configs if c[0] == tkey and c[1] != _optkey(o)}:
                out.nontrivial = True
                out.labels.append("valid_after_same_design_with_other_options")
            elif tkey in seen_targets:
                out.labels.append("valid_after_itself")
        v = _verdict(gold, res)
        if v is not None and v[0] == "rejected_design_accepted" and not REJECTED_THEN_ACCEPTED_IS_VIOLATION:
            out.labels.append("rejected_design_accepted")
            v = None
        if v is None:
            if not gold["ok"] and X.msg_class(gold) != X.msg_class(res):
                out.labels.append("reject_message_depends_on_history")
        else:
            after, with_, confirmed = _cause(case, sources, k, v, results, out)
            sig = {"effect": v[0], "class": v[1], "after": after, "with": with_}
            out.labels.append(f"finding:{v[0]}")
            if canon(sig) not in reported:
                reported.add(canon(sig))
                det = _detail(case, k, gold, res, v, after + (' with ' + with_ if with_ else ''), confirmed)
                det += f"\nmonitored state not clean before this op: {results[k - 1].get('dirty', []) if k else []}"
                out.add(sig, det)
        if not res["ok"]:
            seen_reject = True
        if _optkey(o):
            seen_options = True
        seen_targets.add(tkey)
        seen_configs.add((tkey, _optkey(o)))
    if results and any(r.get("dirty") for r in results[-1:]):
        out.labels.append("case_ends_with_dirty_state")
    return out


def _detail(case, k, gold, res, v, after, confirmed):
    ops = case["ops"]
    lines = [f"history (op, design, top): " + " ; ".join(f"{o[0]} {case['designs'][o[1]]['d']}{case['designs'][o[1]]['p']}.{o[2]}"
                                                        + (f" options={o[3]}" if len(o) > 3 and o[3] else "")
                                                        for o in ops[:k + 1])]
    lines.append(f"op #{k} on a design that a fresh interpreter {'accepts' if gold['ok'] else 'rejects'}: {v[0]} [{v[1]}]")
    if v[0] == "later_compile_fails":
        bad = res if not res["ok"] else res.get("first_of_two", res)
        lines.append(f"exception: {bad.get('exc')}: {bad.get('msg', '')[:300]}  (raised in {bad.get('where')})")
    elif v[0] == "bytes_differ":
        got = res["vhdl"] if res["vhdl"] != gold["vhdl"] else res.get("first_vhdl", "")
        lines.append(_first_diff(gold["vhdl"], got))
    else:
        lines.append(f"fresh interpreter: {gold.get('exc')}: {gold.get('msg', '')[:200]}; history: accepted, "
                     f"{len(res['vhdl'])} bytes of VHDL")
    lines.append(f"minimal cause (re-run in fresh interpreters): {after}" + ("" if confirmed else " (NOT confirmed)"))
    return "\n".join(lines)


def _alias_cause(src, base, other):
    """"aliased-unnamed-object" iff the two outputs differ only in identifiers and every identifier that occurs in
    only one of them is a Python name bound by a plain assignment `name = ...` in the design source (an unnamed
    Signal/Variable takes its VHDL name from one of the Python names it is reachable under)."""
    if _diff_class(base["vhdl"], other["vhdl"]) != "identifiers_only":
        return ""
    ta, tb = set(_IDENT.findall(base["vhdl"])), set(_IDENT.findall(other["vhdl"]))
    bound = set(re.findall(r"^\s+(\w+) = ", src, re.M))
    return "aliased-unnamed-object" if (ta ^ tb) and (ta ^ tb) <= bound else ""


def _check_hashseed(case, sources, out):
    o = case["ops"][0]
    src, top = sources[o[1]], o[2]
    seeds = list(case["hashseeds"])
    _goldens([(src, top, s, "") for s in seeds])
    base = _GOLDEN[(src, top, seeds[0], "")]
    out.counters["fresh_interpreters"] = len(seeds)
    if not base["ok"]:
        out.status = "rejected"
        return out
    all_ok = True
    for s in seeds[1:]:
        r = _GOLDEN[(src, top, s, "")]
        out.labels.append("hashseed_compile")
        v = _verdict(base, r)
        if not r["ok"]:
            all_ok = False
        if v is not None:
            cause = _alias_cause(src, base, r) if r["ok"] else ""
            out.add({"effect": v[0], "class": v[1], "after": "hashseed", "with": cause},
                    f"{case['designs'][0]} top {top}: PYTHONHASHSEED={s} vs {seeds[0]}: {v}\n"
                    + (_first_diff(base["vhdl"], r["vhdl"]) if r["ok"] else f"{r.get('exc')}: {r.get('msg', '')[:300]}"))
    out.nontrivial = all_ok and len(seeds) >= 2
    return out


def view(case):
    v = {
        "designs": [f"{d['d']} {d['p']}" for d in case["designs"]],
        "ops": [f"{o[0]} #{o[1]}.{o[2]}" + (f" options={o[3]}" if len(o) > 3 and o[3] else "") for o in case["ops"]],
    }
    if "hashseeds" in case:
        v["hashseeds"] = case["hashseeds"]
    v["sources"] = _sources(case)
    return v


def selfcheck():
    """Runs in the parent before the workers start.  Trusted base: the pools render and the classifiers
    are value free.  Also creates the run-scoped golden directory (removed at exit) and fills it with exactly
    the goldens that the enumerated cases of this run use (one fresh interpreter each, 16 at a time)."""
    for n in D.names():
        for p in D.variants(n):
            D.render(n, p)
    assert _diff_class("a_1 <= b;", "a_2 <= c;") == "identifiers_only"
    assert _diff_class("a <= b;\n", "a <= b;\nx <= y;\n") == "lines_added"
    assert X.msg_class({"exc": "E", "msg": "name 'abc' used 12 times"}) == "E: name '*' used N times"
    if os.environ.get(_GOLDEN_DIR_ENV):
        return
    d = tempfile.mkdtemp(prefix="cv_c11_goldens_")
    os.environ[_GOLDEN_DIR_ENV] = d  # inherited by the spawned workers
    pid = os.getpid()
    atexit.register(lambda: os.getpid() == pid and shutil.rmtree(d, ignore_errors=True))
    tier = "thorough" if ("thorough" in sys.argv or os.environ.get("VERIF_TIER") == "thorough") else "quick"
    _goldens(_needed_goldens(tier), threads=16)
    # (a valid pool design that a fresh interpreter rejects is not a C11 violation; it is only labelled)


def _needed_goldens(tier):
    """Exactly the goldens used by the enumerated cases of this run (the Hypothesis shards add theirs lazily;
    quick: those are the same (design, options) pairs)."""
    keys, rendered = {}, {}
    for shard in plan(tier):
        if shard["kind"] != "enum":
            continue
        for case in enumerate(shard):
            for o in case["ops"]:
                d = case["designs"][o[1]]
                if D.stage(d["d"], o[2]) != "valid":
                    continue
                ck = canon(d)
                if ck not in rendered:
                    rendered[ck] = D.render(d["d"], d["p"])
                for seed in case.get("hashseeds", [0]):
                    keys[(rendered[ck], o[2], seed, _optkey(o))] = True
    return list(keys)
