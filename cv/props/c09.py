"""C09 - compile-time evaluation of primitives agrees with the emitted run-time logic.

Evaluations of one operation (DESIGN.md section 3 "C09"):

  F  fold: the cohdl Python objects applied to constants (what the tracer does when no operand is
     run-time).  Level "P": called directly.  Level "T": the same expression traced inside a
     `std.concurrent` context on constants, the folded result captured by a `cohdl.pyeval` probe.
     Level "C": constants compiled into a design, the literal printed by the backend simulated.
  M  the reference model cv.ref.values (plain ints, never imports cohdl).
  R  run-time: `render_runtime_entity(cell)` compiled once per cell, the emitted VHDL simulated with
     cv.vhdl for ALL operand valuations (operands on ports a/b, result on o / o_<n>).

Reported divergences carry "pair": F-M (levels P, T), F-R and R-M (level R; F-R is the statement of C09),
C-F (level C).  Helper API: cells(tier), valuations(cell), fold(cell, values), model(cell, values),
render_runtime_entity(cell[, int_values]), runtime_ports(cell[, int_values]), render_const_entity(...).

An exception in F is `fold_rejected`; a run-time design cohdl rejects is `rejected`; static errors of
the emitted VHDL are `blocked_by_static` (C06 owns legality); constructs the engine does not model are
`blocked`.  None of these is a violation.  A SimError where the fold is defined is reported
("div": "sim_error:<kind>").

cell = (op, kinds, widths)
    op      operator name, parameters appended with ':'  e.g. "add", "resize:5:1" (to:zeros), "msb:2" (n),
            "msb_rest:1", "index:2", "slice:2:1"
    kinds   operand kinds: "bit" "bv" "u" "s" "int" (Python int) "Int" (cohdl.Integer)
    widths  operand widths (None for bit/int/Int)
"""
from __future__ import annotations

import builtins
import itertools

from cv.harness.runner import Outcome
from cv.ref import values as rv
from cv.ref.values import UNSPEC, V

_enum = builtins.enumerate  # the module contract names a function `enumerate`

PROPERTY = "C09"
TECHNIQUE = ("complete enumeration of operator x operand-kind x width cells with ALL operand valuations; three-way "
             "differential comparison: cohdl's constant folding (direct call, traced context + pyeval probe, literal "
             "compiled into a design) vs. the emitted VHDL simulated with the operands on ports vs. a reference model "
             "of the documented value semantics on plain ints")
RULE = (
    "case = (level, cell); cell = operator or method x operand kinds (bit, bv, u, s, Python int / cohdl.Integer on "
    "either side) x operand widths 1..3 quick / 1..4 thorough, mixed; every case evaluates ALL operand valuations "
    "(ints: every value in [-2**w-1, 2**w+1] for the width w they adopt; level R: the ints representable in that "
    "width; level C: <= 48 valuations). non-trivial = P/T: the fold produced a result compared with a "
    "model-determined value and the expected results take >= 2 distinct values; R: fold and simulated logic were "
    "both defined for >= 1 valuation and the simulated output took >= 2 distinct values; C: >= 2 distinct "
    "simulated literals; distinct = level:cell name"
)
ASSUMPTIONS = [
    "F-R (fold vs simulated emitted logic) is compared for every valuation where the fold returns fully defined "
    "bits; result type/width of R = type of the Temporary the tracer creates for the run-time expression (pyeval "
    "probe), the output port is declared with the documented type",
    "the VHDL engine cv.vhdl (own numeric_std model, calibrated on the upstream benches) is the trusted base for R",
    "result kind/width rules are those of the C02/C09 statements; operand combinations outside them, ints not "
    "representable in the width they adopt, x/0, shift counts >= width or < 0 are model-UNSPEC: F-M and R-M are "
    "skipped and counted there; unrepresentable ints are simulated for the counters only (unfit_int_*)",
    "`@`, msb/lsb/left/right(n), slices yield BitVector (as the upstream reference designs declare their ports)",
    "an exception raised by cohdl while folding is `fold_rejected`, a rejected run-time design `rejected`, static "
    "errors in emitted VHDL `blocked_by_static`, engine limits `blocked`: never violations",
    "result value of a vector = its bits read through str(x.bitvector); a bit other than 0/1 in a result whose "
    "value the model determines is reported as `undefined_bits`",
]
EXHAUSTIVE = {"quick": False, "thorough": True}

VEC = ("bv", "u", "s")


# ----------------------------------------------------------------------------- op table
# name -> (arity, python expression with {a} {b} and parameter placeholders)
_EXPR = {
    "add": (2, "{a} + {b}"), "sub": (2, "{a} - {b}"), "mul": (2, "{a} * {b}"),
    "floordiv": (2, "{a} // {b}"), "truncdiv": (2, "op.truncdiv({a}, {b})"),
    "mod": (2, "{a} % {b}"), "rem": (2, "op.rem({a}, {b})"),
    "shl": (2, "{a} << {b}"), "shr": (2, "{a} >> {b}"), "concat": (2, "{a} @ {b}"),
    "and": (2, "{a} & {b}"), "or": (2, "{a} | {b}"), "xor": (2, "{a} ^ {b}"),
    "eq": (2, "{a} == {b}"), "ne": (2, "{a} != {b}"), "lt": (2, "{a} < {b}"), "le": (2, "{a} <= {b}"),
    "gt": (2, "{a} > {b}"), "ge": (2, "{a} >= {b}"),
    "inv": (1, "~{a}"), "neg": (1, "-{a}"), "abs": (1, "abs({a})"),
    "signed": (1, "{a}.signed"), "unsigned": (1, "{a}.unsigned"), "bitvector": (1, "{a}.bitvector"),
    "resize": (1, "{a}.resize({p0}, zeros={p1})"),
    "msb": (1, "{a}.msb({p0})"), "lsb": (1, "{a}.lsb({p0})"), "left": (1, "{a}.left({p0})"),
    "right": (1, "{a}.right({p0})"),
    "msb_rest": (1, "{a}.msb(rest={p0})"), "lsb_rest": (1, "{a}.lsb(rest={p0})"),
    "index": (1, "{a}[{p0}]"), "slice": (1, "{a}[{p0}:{p1}]"),
    "to_int": (1, "{a}.to_int()"), "bool": (1, "bool({a})"),
}


def parse_op(opstr):
    """'resize:5:1' -> ('resize', model op name, model params dict, [p0, p1])"""
    name, *ps = opstr.split(":")
    ps = [int(p) for p in ps]
    mname, params = name, {}
    if name == "resize":
        params = {"to": ps[0], "zeros": ps[1]}
    elif name in ("msb", "lsb", "left", "right"):
        params = {"n": ps[0]} if ps else {}
    elif name in ("msb_rest", "lsb_rest"):
        mname, params = name[:3], {"rest": ps[0]}
    elif name == "index":
        params = {"i": ps[0]}
    elif name == "slice":
        params = {"h": ps[0], "l": ps[1]}
    return name, mname, params, ps


def expr_of(opstr, a="a", b="b"):
    name, _, _, ps = parse_op(opstr)
    _, tmpl = _EXPR[name]
    return tmpl.format(a=a, b=b, p0=ps[0] if ps else "", p1=ps[1] if len(ps) > 1 else "")


# ----------------------------------------------------------------------------- cells
def cells(tier):
    """list of (op, kinds, widths); JSON-able (lists)."""
    W = range(1, (3 if tier == "quick" else 4) + 1)
    out = []

    def add(op, kinds, widths):
        out.append((op, list(kinds), list(widths)))

    num_ops = ["add", "sub", "mul", "truncdiv", "mod", "rem", "floordiv", "eq", "ne", "lt", "le", "gt", "ge"]
    for o in num_ops:
        for k in ("u", "s"):
            for wa in W:
                for wb in W:
                    add(o, (k, k), (wa, wb))
            for w in W:
                for ik in ("int", "Int"):
                    add(o, (k, ik), (w, None))
                    add(o, (ik, k), (None, w))
        # combinations the statements do not cover (mixed signedness, BitVector arithmetic): model UNSPEC
        add(o, ("u", "s"), (2, 2))
        add(o, ("s", "u"), (2, 3))
        add(o, ("bv", "bv"), (2, 2))
        add(o, ("bv", "u"), (2, 2))
        add(o, ("bv", "int"), (2, None))
        # Integer with Integer / int
        for kk in (("Int", "int"), ("int", "Int"), ("Int", "Int")):
            add(o, kk, (None, None))
    for o in ("shl", "shr"):
        for k in ("u", "s"):
            for w in W:
                add(o, (k, "int"), (w, None))
                add(o, (k, "Int"), (w, None))
                for wc in (1, 2):
                    add(o, (k, "u"), (w, wc))
            add(o, (k, "s"), (2, 2))
        add(o, ("bv", "int"), (2, None))
        add(o, ("int", "u"), (None, 2))
    ck = [("bit", None)] + [(k, w) for k in VEC for w in W if w <= 3]
    for (ka, wa), (kb, wb) in itertools.product(ck, ck):
        add("concat", (ka, kb), (wa, wb))
    for o in ("and", "or", "xor"):
        add(o, ("bit", "bit"), (None, None))
        for k in VEC:
            for w in W:
                add(o, (k, k), (w, w))
        add(o, ("u", "u"), (2, 3))
        add(o, ("u", "s"), (2, 2))
        add(o, ("bv", "u"), (2, 2))
        add(o, ("u", "int"), (2, None))
        add(o, ("bit", "bv"), (None, 1))
        for kk in (("Int", "int"), ("int", "Int"), ("Int", "Int")):
            add(o, kk, (None, None))
    for o in ("eq", "ne"):
        add(o, ("bit", "bit"), (None, None))
        for w in W:
            add(o, ("bv", "bv"), (w, w))
        add(o, ("bv", "bv"), (2, 3))
        add(o, ("bit", "int"), (None, None))
    # unary operators / methods
    for k in ("bit",):
        add("inv", (k,), (None,))
        add("bool", (k,), (None,))
    for w in W:
        for k in VEC:
            add("inv", (k,), (w,))
            add("bool", (k,), (w,))
            for c in ("signed", "unsigned", "bitvector"):
                add(c, (k,), (w,))
            for side in ("msb", "lsb", "left", "right"):
                add(side, (k,), (w,))
                for n in range(1, w + 1):
                    add(f"{side}:{n}", (k,), (w,))
            for side in ("msb_rest", "lsb_rest"):
                for r in range(0, w):
                    add(f"{side}:{r}", (k,), (w,))
            for i in range(w):
                add(f"index:{i}", (k,), (w,))
            for h in range(w):
                for l in range(h + 1):
                    add(f"slice:{h}:{l}", (k,), (w,))
        for k in ("u", "s"):
            add("neg", (k,), (w,))
            add("abs", (k,), (w,))
            add("to_int", (k,), (w,))
            for to in range(max(1, w - 1), w + 3):
                for z in range(0, 3):
                    add(f"resize:{to}:{z}", (k,), (w,))
        add("neg", ("bv",), (w,))
        add("to_int", ("bv",), (w,))
    add("neg", ("Int",), (None,))
    add("to_int", ("Int",), (None,))
    add("bool", ("Int",), (None,))
    seen, uniq = set(), []
    for c in out:
        n = cell_name(c)
        if n not in seen:
            seen.add(n)
            uniq.append(c)
    return uniq


def cell_name(cell):
    op, kinds, widths = cell
    return op + "(" + ",".join(k if w is None else f"{k}[{w}]" for k, w in zip(kinds, widths)) + ")"


def _adopted_width(cell, idx):
    """width an int operand adopts: the other operand's width (2 if there is none)."""
    _, kinds, widths = cell
    for j, w in _enum(widths):
        if j != idx and w is not None:
            return w
    return 2


def valuations(cell):
    """all operand valuations of the cell: list of tuples of plain ints."""
    _, kinds, widths = cell
    doms = []
    for i, (k, w) in _enum(zip(kinds, widths)):
        mk = "int" if k == "Int" else k
        doms.append(rv.domain(mk, w, _adopted_width(cell, i)))
    return list(itertools.product(*doms))


def model(cell, values):
    op, kinds, widths = cell
    _, mname, params, _ = parse_op(op)
    args = [rv.make("int" if k == "Int" else k, w, v) for k, w, v in zip(kinds, widths, values)]
    return rv.apply(mname, args, params)


# ----------------------------------------------------------------------------- F: cohdl objects
class _C:
    ready = False


def _cohdl():
    if not _C.ready:
        import cohdl
        from cohdl import Bit, BitVector, Integer, Signed, Unsigned, op
        from cohdl._core._boolean import _Boolean, _BooleanLiteral

        _C.cohdl, _C.op = cohdl, op
        _C.Bit, _C.BitVector, _C.Integer, _C.Signed, _C.Unsigned = Bit, BitVector, Integer, Signed, Unsigned
        _C.booleans = (bool, _Boolean, _BooleanLiteral)
        _C.env = {"op": op, "abs": abs, "bool": bool, "int": int, "__builtins__": {}}
        _C.ready = True
    return _C


def _operand(C, kind, width, value):
    if kind == "bit":
        return C.Bit(value)
    if kind == "int":
        return value
    if kind == "Int":
        return C.Integer(value)
    if kind == "u":
        return C.Unsigned[width](value)
    if kind == "s":
        return C.Signed[width](value)
    if kind == "bv":
        return C.BitVector[width](format(value, f"0{width}b"))
    raise ValueError(kind)


def observe(C, r):
    """cohdl object -> ("ok", kind, width, value) with the model's conventions; value 'undef' when a result
    bit is neither 0 nor 1; ("other", type name) for anything else."""
    if isinstance(r, C.booleans):
        return ("ok", "bool", None, int(bool(r)))
    if isinstance(r, int):
        return ("ok", "int", None, r)
    if isinstance(r, C.Integer):
        return ("ok", "int", None, r.get_value())
    if isinstance(r, C.Bit):
        s = str(r)
        return ("ok", "bit", None, int(s) if s in "01" else "undef")
    if isinstance(r, C.BitVector):
        kind = "s" if isinstance(r, C.Signed) else "u" if isinstance(r, C.Unsigned) else "bv"
        s = str(r.bitvector)
        w = r.width
        if len(s) != w:
            return ("other", f"{type(r).__name__}:len(bits)={len(s)}!=width={w}")
        if set(s) - {"0", "1"}:
            return ("ok", kind, w, "undef")
        p = int(s, 2)
        return ("ok", kind, w, rv.wrap(kind, w, p))
    return ("other", type(r).__name__)


_CODE = {}


def _code(opstr):
    c = _CODE.get(opstr)
    if c is None:
        c = _CODE[opstr] = compile(expr_of(opstr), f"<c09:{opstr}>", "eval")
    return c


def fold(cell, values):
    """F for one valuation: ("ok", kind, width, value) | ("other", typename) | ("rejected", exception name)."""
    from cv.gen.c19_probe import Rej, call

    C = _cohdl()
    op, kinds, widths = cell
    objs = call(lambda: [_operand(C, k, w, v) for k, w, v in zip(kinds, widths, values)])
    if isinstance(objs, Rej):
        return ("rejected", "operand:" + objs.exc)
    env = dict(C.env, a=objs[0], b=objs[1] if len(objs) > 1 else None)
    r = call(eval, _code(op), env)
    if isinstance(r, Rej):
        return ("rejected", r.exc)
    return observe(C, r)


# ----------------------------------------------------------------------------- T: traced fold
_TMODS = {}


def _traced_fn(opstr):
    """module with `make_fn(args)`: f(i) evaluates the cell's expression on the i-th constant operand tuple."""
    m = _TMODS.get(opstr)
    if m is None:
        from cv.harness import loader

        src = (
            "from cohdl import op\n\n\n"
            "def make_fn(A, B):\n"
            "    def f(i):\n"
            "        a = A[i]\n"
            "        b = B[i]\n"
            f"        return {expr_of(opstr)}\n"
            "    return f\n"
        )
        m = _TMODS[opstr] = loader.load_module(src, "cv_c09_" + "".join(ch if ch.isalnum() else "_" for ch in opstr))
    return m


# ----------------------------------------------------------------------------- plan / enumerate
def _t_sample(tier):
    """cells for the traced level."""
    # one traced valuation costs ~15 ms: quick = every cell with <= 200 valuations, thorough = every cell
    return [c for c in cells(tier) if len(valuations(c)) <= (200 if tier == "quick" else 600)]


_NSH = {"P": (3, 8), "T": (9, 30), "R": (3, 8), "C": (1, 4)}


def _level_cells(lvl, tier):
    if lvl == "T":
        return _t_sample(tier)
    return cells(tier)  # P, R (run-time design, all valuations simulated), C (compiled fold, sampled valuations)


def plan(tier):
    shards = []
    q = 0 if tier == "quick" else 1
    for lvl in ("P", "T", "R", "C"):
        n = len(_level_cells(lvl, tier))
        k = max(1, min(_NSH[lvl][q], n))
        for i in range(k):
            shards.append({"kind": "enum", "name": f"{lvl}-{i}", "lvl": lvl, "tier": tier, "rem": i, "mod": k})
    return shards


def enumerate(shard):  # noqa: A001 - name fixed by the module contract
    cs = _level_cells(shard["lvl"], shard["tier"])
    for i, c in _enum(cs):
        if i % shard["mod"] == shard["rem"]:
            yield {"lvl": shard["lvl"], "cell": [c[0], c[1], c[2]]}


# ----------------------------------------------------------------------------- check
def _int_side(kinds):
    ints = [k in ("int", "Int") for k in kinds]
    if len(kinds) == 1:
        return "operand" if ints[0] else "none"
    return {(False, False): "none", (True, False): "lhs", (False, True): "rhs", (True, True): "both"}[tuple(ints)]


def _wrel(widths):
    if len(widths) < 2 or None in widths:
        return "na"
    return "eq" if widths[0] == widths[1] else "lt" if widths[0] < widths[1] else "gt"


def check(case):
    from cv.gen.c19_probe import Rej, evaluate

    C = _cohdl()
    out = Outcome()
    lvl = case["lvl"]
    cell = (case["cell"][0], list(case["cell"][1]), list(case["cell"][2]))
    if lvl == "R":
        return _check_runtime(C, out, cell)
    if lvl == "C":
        return _check_compiled_fold(C, out, cell)
    op, kinds, widths = cell
    name = cell_name(cell)
    vals = valuations(cell)
    opname = parse_op(op)[0]
    base = {"op": opname, "kinds": ",".join(kinds), "int_side": _int_side(kinds), "wrel": _wrel(widths), "lvl": lvl,
            "pair": "F-M"}

    if lvl == "P":
        res = [fold(cell, v) for v in vals]
    else:
        # operands are built outside the context (constants), the expression is folded by the tracer
        from cv.gen.c19_probe import call

        objs = [call(lambda v=v: [_operand(C, k, w, x) for k, w, x in zip(kinds, widths, v)]) for v in vals]
        good = [i for i, o in _enum(objs) if not isinstance(o, Rej)]
        A = [objs[i][0] for i in good]
        B = [objs[i][1] if len(kinds) > 1 else None for i in good]
        env = C.env
        code = _code(op)
        got = evaluate("T", lambda j: eval(code, dict(env, a=A[j], b=B[j])), len(good),
                       lambda: _traced_fn(op).make_fn(A, B))
        res = [("rejected", "operand:" + o.exc) if isinstance(o, Rej) else None for o in objs]
        for j, i in _enum(good):
            r = got[j]
            res[i] = ("rejected", r.exc) if isinstance(r, Rej) else observe(C, r)

    n_rej = n_unspec = n_noval = n_cmp = 0
    expected_values = set()
    for v, f in zip(vals, res):
        m = model(cell, v)
        if f[0] == "rejected":
            n_rej += 1
            key = "fold_rejected_" + f[1]
            out.counters[key] = out.counters.get(key, 0) + 1
            if m is not UNSPEC and m.value is not None:
                out.counters["fold_rejected_where_model_defined"] = out.counters.get(
                    "fold_rejected_where_model_defined", 0) + 1
            continue
        if m is UNSPEC:
            n_unspec += 1
            continue
        desc = f"{name} {lvl}: {expr_of(op)} with (a, b) = {v}"
        if f[0] == "other":
            out.add(dict(base, div="type", exp=m.kind, got="other"), f"{desc}: result is a {f[1]}, documented {m.kind}")
            continue
        _, fk, fw, fv = f
        if fk != m.kind:
            out.add(dict(base, div="type", exp=m.kind, got=fk),
                    f"{desc}: result {V(fk, fw, fv)}, documented {m}")
            continue
        if fw != m.width:
            out.add(dict(base, div="width"), f"{desc}: result {fk}[{fw}], documented width {m.width}")
            continue
        if m.value is None:
            n_noval += 1
            continue
        n_cmp += 1
        expected_values.add(m.value)
        if fv == "undef":
            out.add(dict(base, div="undefined_bits"), f"{desc}: result has undefined bits, documented {m}")
        elif fv != m.value:
            out.add(dict(base, div="value"), f"{desc}: folded to {V(fk, fw, fv)}, documented {m}")

    n = len(vals)
    out.identity = f"{lvl}:{name}"
    out.counters.update({"valuations": n, "fold_rejected": n_rej, "model_unspec": n_unspec,
                         "model_value_unspec": n_noval, "compared": n_cmp, f"valuations_{lvl}": n})
    cls = f"{opname}.{','.join(kinds)}"
    if n_rej == n:
        out.status = "rejected"
        out.labels.append(f"{cls}:all_fold_rejected")
    elif n_cmp == 0:
        out.status = "unspecified"
        out.labels.append(f"{cls}:unspecified")
    else:
        out.labels.append(f"{cls}:compared" + ("+rejections" if n_rej else ""))
        out.exhaustive_cell = out.identity
        out.nontrivial = len(expected_values) >= 2
    out.labels.append(f"lvl_{lvl}")
    return out


def view(case):
    c = case["cell"]
    return f"{case['lvl']}:{cell_name((c[0], c[1], c[2]))}  expr: {expr_of(c[0])}"


def selfcheck():
    rv.selfcheck()
    for tier in ("quick", "thorough"):
        cs = cells(tier)
        assert len({cell_name(c) for c in cs}) == len(cs), "duplicate cells"
        for c in cs:
            expr_of(c[0])


# ----------------------------------------------------------------------------- R: run-time side
def _ptype(kind, width):
    return {"bit": "Bit", "bool": "bool", "bv": f"BitVector[{width}]", "u": f"Unsigned[{width}]",
            "s": f"Signed[{width}]"}.get(kind)


_HEADER = (
    "import cohdl\n"
    "from cohdl import Entity, Port, Bit, BitVector, Unsigned, Signed, Integer, op, std\n\n"
    "RESULT = {}\n\n\n"
    "@cohdl.pyeval\n"
    "def _cv_probe(name, v):\n"
    "    RESULT[name] = v\n\n\n"
)


def runtime_ports(cell, int_values=None):
    """Ports of render_runtime_entity(cell): {"inputs": [(name, kind, width)], "outputs": [(name, kind, width,
    ints)]} where `ints` maps the int operand position to the constant used for that output, or None if the
    cell has no run-time form (result kind int, model UNSPEC for every valuation, no non-int operand).

    Operands of kind int/Int are constants in the design (a Python int cannot be a port): there is one output
    per int value (default: every value of the cell's int domain that the model accepts as representable)."""
    op, kinds, widths = cell
    vals = valuations(cell)
    ms = [model(cell, v) for v in vals]
    det = [m for m in ms if m is not UNSPEC]
    if not det:
        return None
    rk, rw = det[0].kind, det[0].width
    if _ptype(rk, rw) is None:
        return None
    inputs = []
    int_pos = []
    for i, (k, w) in _enum(zip(kinds, widths)):
        if k in ("int", "Int"):
            int_pos.append(i)
        else:
            inputs.append(("ab"[i], k, w))
    if not inputs:
        return None
    outputs = []
    if not int_pos:
        outputs.append(("o", rk, rw, None))
    else:
        i = int_pos[0]
        if int_values is None:
            int_values = sorted({v[i] for v, m in zip(vals, ms) if m is not UNSPEC and m.value is not None})
        for n, iv in _enum(int_values):
            outputs.append((f"o_{n}", rk, rw, {i: iv}))
    return {"inputs": inputs, "outputs": outputs}


def render_runtime_entity(cell, int_values=None, top="Top"):
    """Python source of the run-time design of a cell: operands on input ports `a`/`b` (declared with the
    operand kind/width), the result driven onto output port `o` from a concurrent context, declared with the
    documented result kind/width.  For cells with an int operand: outputs `o_<n>`, one per constant
    (see runtime_ports).  The module also defines RESULT: after compilation RESULT[<output port>] is the
    Temporary cohdl created for the expression (its run-time result type).  None if there is no run-time form."""
    ports = runtime_ports(cell, int_values)
    if ports is None:
        return None
    op, kinds, widths = cell
    lines = [f"class {top}(Entity):"]
    for nme, k, w in ports["inputs"]:
        lines.append(f"    {nme} = Port.input({_ptype(k, w)})")
    for nme, k, w, _ in ports["outputs"]:
        lines.append(f"    {nme} = Port.output({_ptype(k, w)})")
    lines += ["", "    def architecture(self):"]
    body = []
    for n, (nme, k, w, ints) in _enum(ports["outputs"]):
        names = []
        for i, kd in _enum(kinds):
            if kd == "int":
                names.append(f"({ints[i]})")
            elif kd == "Int":
                # cohdl.Integer constants are created outside the traced context
                lines.append(f"        c_{n} = Integer({ints[i]})")
                names.append(f"c_{n}")
            else:
                names.append(f"self.{'ab'[i]}")
        e = expr_of(op, names[0], names[1] if len(names) > 1 else "")
        body += [f"            t_{n} = {e}", f"            _cv_probe({nme!r}, t_{n})", f"            self.{nme} <<= t_{n}"]
    lines += ["", "        @std.concurrent", "        def logic():"] + body
    return _HEADER + "\n".join(lines) + "\n"


def _const_src(kind, width, value):
    if kind == "bit":
        return f"Bit({value})"
    if kind == "int":
        return f"({value})"
    if kind == "Int":
        return f"Integer({value})"
    if kind == "u":
        return f"Unsigned[{width}]({value})"
    if kind == "s":
        return f"Signed[{width}]({value})"
    return f"BitVector[{width}]({format(value, f'0{width}b')!r})"


def render_const_entity(cell, vals, rkind, rwidth, top="Top"):
    """compiled fold: the cell's expression on constant operands (created in `architecture`, outside the
    context), one output `o_<n>` per valuation in `vals`; the tracer folds the expression and the backend
    has to print the result as a VHDL literal."""
    op, kinds, widths = cell
    lines = [f"class {top}(Entity):"]
    for n in range(len(vals)):
        lines.append(f"    o_{n} = Port.output({_ptype(rkind, rwidth)})")
    lines += ["", "    def architecture(self):"]
    body = []
    for n, v in _enum(vals):
        names = []
        for i, (k, w, x) in _enum(zip(kinds, widths, v)):
            if k == "int":
                names.append(f"({x})")
            else:
                lines.append(f"        {'ab'[i]}_{n} = {_const_src(k, w, x)}")
                names.append(f"{'ab'[i]}_{n}")
        e = expr_of(op, names[0], names[1] if len(names) > 1 else "")
        body.append(f"            self.o_{n} <<= {e}")
    lines += ["", "        @std.concurrent", "        def logic():"] + body
    return _HEADER + "\n".join(lines) + "\n"


def _type_of_temp(C, t):
    """(kind, width) of the Temporary the tracer created for a run-time expression."""
    from cohdl import std

    T = std.base_type(t)
    if T is bool or issubclass(T, C.booleans[1:]):
        return ("bool", None)
    if issubclass(T, C.Bit):
        return ("bit", None)
    if issubclass(T, C.Signed):
        return ("s", T.width)
    if issubclass(T, C.Unsigned):
        return ("u", T.width)
    if issubclass(T, C.BitVector):
        return ("bv", T.width)
    if T is int or issubclass(T, C.Integer):
        return ("int", None)
    return ("other:" + getattr(T, "__name__", str(T)), None)


from cv.gen.c19_probe import Design as _Design  # noqa: E402


def _poke_value(kind, width, v):
    return v % (1 << width) if kind == "s" else v


def _finish_design_status(out, cls, ds, lvl):
    out.status = ds.status
    out.labels += [f"{cls}:{lvl}_{ds.status}", f"{lvl}_{ds.status}:{ds.why}", f"lvl_{lvl}"]
    return out


def _count_unfit(out, cell, unfit, vals, F, ip):
    """ints that do not fit the width they adopt: simulate, count agreement/disagreement with the fold; never a finding."""
    def bump(k, n=1):
        out.counters[k] = out.counters.get(k, 0) + n

    ds = _Design(render_runtime_entity(cell, unfit))
    if ds.status != "ok":
        bump("unfit_int_design_" + ds.status)
        return
    ports = runtime_ports(cell, unfit)
    in_names = [(nm, k, w, "ab".index(nm)) for nm, k, w in ports["inputs"]]
    out_of = {o[3][ip]: o[0] for o in ports["outputs"]}
    keys = sorted({tuple(v[i] for _, _, _, i in in_names) for v in vals})
    rs = dict(zip(keys, ds.run([{nm: _poke_value(k, w, key[j]) for j, (nm, k, w, _) in _enum(in_names)} for key in keys],
                               list(out_of.values()))))
    for v, f in zip(vals, F):
        if v[ip] not in out_of or not (f[0] == "ok" and f[3] != "undef"):
            continue
        r = rs[tuple(v[i] for _, _, _, i in in_names)]
        if isinstance(r, tuple):
            bump("unfit_int_" + r[0] + "_" + r[1])
            continue
        rval = r[out_of[v[ip]]]
        rval = int(rval) if isinstance(rval, bool) else rval
        bump("unfit_int_F_R_equal" if rval == f[3] else "unfit_int_F_R_differ")


def _check_runtime(C, out, cell):
    """R: one compiled design per cell, all valuations simulated; F-R (the statement of C09) and R-M."""
    op, kinds, widths = cell
    name = cell_name(cell)
    opname = parse_op(op)[0]
    cls = f"{opname}.{','.join(kinds)}"
    base = {"op": opname, "kinds": ",".join(kinds), "int_side": _int_side(kinds), "wrel": _wrel(widths), "lvl": "R"}
    out.identity = f"R:{name}"
    vals = valuations(cell)
    if runtime_ports(cell) is None:
        out.status = "unspecified"
        out.labels += [f"{cls}:no_runtime_form", "lvl_R"]
        return out
    F = [fold(cell, v) for v in vals]
    M = [model(cell, v) for v in vals]
    int_pos = [i for i, k in _enum(kinds) if k in ("int", "Int")]
    ip = int_pos[0] if int_pos else None

    def f_defined(f):
        return f[0] == "ok" and f[3] != "undef"

    # int constants of the design: the values that are representable in the width they adopt (model-defined).
    # The other ints of the domain for which the fold still yields a value are simulated in a second design
    # for the counters only (statement silent: an unrepresentable int is outside the documented semantics).
    ints = None
    if ip is not None:
        ints = sorted({v[ip] for v, m in zip(vals, M) if m is not UNSPEC and m.value is not None})
        if not ints:
            out.status = "unspecified"
            out.labels += [f"{cls}:no_int_value", "lvl_R"]
            return out
        unfit = sorted({v[ip] for v, f in zip(vals, F) if f_defined(f)} - set(ints))
        if unfit:
            _count_unfit(out, cell, unfit, vals, F, ip)
    ds = _Design(render_runtime_entity(cell, ints))
    if ds.status != "ok":
        return _finish_design_status(out, cls, ds, "R")
    ports = runtime_ports(cell, ints)
    outs = [o[0] for o in ports["outputs"]]
    out_of_int = {o[3][ip]: o[0] for o in ports["outputs"]} if ip is not None else None

    # type / width: F's result type against the type of the Temporary cohdl created for the run-time expression
    ftypes = {(f[1], f[2]) for f in F if f[0] == "ok"}
    rtypes = {_type_of_temp(C, ds.result[o]) for o in outs if o in ds.result}
    if len(ftypes) == 1 and len(rtypes) == 1:
        (fk, fw), (rk, rw) = next(iter(ftypes)), next(iter(rtypes))
        if fk != rk:
            out.add(dict(base, pair="F-R", div="type", exp=fk, got=rk),
                    f"{name}: fold yields {fk}[{fw}], the run-time expression has type {rk}[{rw}]")
        elif fw != rw:
            out.add(dict(base, pair="F-R", div="width"), f"{name}: fold yields {fk}[{fw}], run-time {rk}[{rw}]")
    elif len(rtypes) > 1:
        out.add(dict(base, pair="F-R", div="type", exp="one", got="several"), f"{name}: run-time types {sorted(rtypes)}")

    # simulate: one poke per distinct input tuple; on a run-time error fall back to one design per int value
    in_names = [(nm, k, w, "ab".index(nm)) for nm, k, w in ports["inputs"]]

    def pokes_of(v):
        return {nm: _poke_value(k, w, v[i]) for nm, k, w, i in in_names}

    keyed = {}
    order = []
    for v in vals:
        key = tuple(v[i] for _, _, _, i in in_names)
        if key not in keyed:
            keyed[key] = pokes_of(v)
            order.append(key)
    sims = dict(zip(order, ds.run([keyed[k] for k in order], outs)))
    R = {}
    if ip is not None and any(isinstance(r, tuple) for r in sims.values()):
        # an error in one output's expression kills the whole design: separate the int values
        out.counters["per_int_designs"] = out.counters.get("per_int_designs", 0) + len(ints)
        for iv in ints:
            d1 = _Design(render_runtime_entity(cell, [iv]))
            if d1.status != "ok":
                for key in order:
                    R[(iv, key)] = ("design", d1.status)
                continue
            rs = d1.run([keyed[k] for k in order], ["o_0"])
            for key, r in zip(order, rs):
                R[(iv, key)] = r if isinstance(r, tuple) else ("ok", r["o_0"])
    else:
        for key in order:
            r = sims[key]
            for o in ports["outputs"]:
                iv = o[3][ip] if ip is not None else None
                R[(iv, key)] = r if isinstance(r, tuple) else ("ok", r[o[0]])

    n_cmp = n_rm = 0
    seen = set()
    for v, f, m in zip(vals, F, M):
        iv = v[ip] if ip is not None else None
        key = tuple(v[i] for _, _, _, i in in_names)
        r = R.get((iv, key))
        if r is None:
            continue  # this int value is not in the design
        sig = dict(base)
        desc = f"{name} R: {expr_of(op)} with (a, b) = {v}"
        if r[0] == "design" or r[0] == "blocked":
            out.counters["runtime_point_blocked"] = out.counters.get("runtime_point_blocked", 0) + 1
            continue
        mdef = m is not UNSPEC and m.value is not None
        if r[0] == "sim_error":
            out.counters["sim_error_" + r[1]] = out.counters.get("sim_error_" + r[1], 0) + 1
            if f_defined(f):
                out.add(dict(sig, pair="F-R", div="sim_error:" + r[1]),
                        f"{desc}: folds to {V(f[1], f[2], f[3])}, the emitted VHDL stops with {r[1]}")
            elif mdef:
                out.add(dict(sig, pair="R-M", div="sim_error:" + r[1]),
                        f"{desc}: documented {m}, the emitted VHDL stops with {r[1]}")
            continue
        rval = r[1]
        if isinstance(rval, bool):
            rval = int(rval)
        if f_defined(f):
            n_cmp += 1
            seen.add(rval)
            if rval is None:
                out.add(dict(sig, pair="F-R", div="undefined_bits"),
                        f"{desc}: folds to {V(f[1], f[2], f[3])}, simulated output has undefined bits")
            elif rval != f[3]:
                out.add(dict(sig, pair="F-R", div="value"),
                        f"{desc}: folds to {V(f[1], f[2], f[3])}, emitted logic yields {rval}")
        elif f[0] == "rejected":
            out.counters["fold_rejected"] = out.counters.get("fold_rejected", 0) + 1
        if mdef:
            n_rm += 1
            if rval is None:
                out.add(dict(sig, pair="R-M", div="undefined_bits"), f"{desc}: documented {m}, simulated output undefined")
            elif rval != m.value:
                out.add(dict(sig, pair="R-M", div="value"), f"{desc}: documented {m}, emitted logic yields {rval}")
    out.counters.update({"valuations": len(vals), "valuations_R": len(vals), "compared_F_R": n_cmp,
                         "compared_R_M": n_rm})
    out.labels += [f"{cls}:R_simulated", "lvl_R"]
    if n_cmp or n_rm:
        out.exhaustive_cell = out.identity
    out.nontrivial = n_cmp > 0 and len(seen) >= 2
    return out


def _check_compiled_fold(C, out, cell, max_points=48):
    """C: the fold with the backend on the path - constants compiled into a design, output simulated."""
    op, kinds, widths = cell
    name = cell_name(cell)
    opname = parse_op(op)[0]
    cls = f"{opname}.{','.join(kinds)}"
    base = {"op": opname, "kinds": ",".join(kinds), "int_side": _int_side(kinds), "wrel": _wrel(widths), "lvl": "C",
            "pair": "C-F"}
    out.identity = f"C:{name}"
    vals = valuations(cell)
    F = [fold(cell, v) for v in vals]
    good = [(v, f) for v, f in zip(vals, F) if f[0] == "ok" and f[3] != "undef" and _ptype(f[1], f[2])]
    if not good:
        out.status = "unspecified"
        out.labels += [f"{cls}:no_compiled_form", "lvl_C"]
        return out
    step = -(-len(good) // max_points)
    good = good[::step]
    rk, rw = good[0][1][1], good[0][1][2]
    ds = _Design(render_const_entity(cell, [v for v, _ in good], rk, rw))
    if ds.status != "ok":
        return _finish_design_status(out, cls, ds, "C")
    outs = [f"o_{n}" for n in range(len(good))]
    r = ds.run([{}], outs)[0]
    if isinstance(r, tuple):
        out.add(dict(base, div="sim_error:" + r[1]), f"{name} C: design with literal results stops with {r[1]}")
        out.labels += [f"{cls}:C_simulated", "lvl_C"]
        return out
    seen = set()
    for n, (v, f) in _enum(good):
        rval = r[f"o_{n}"]
        if isinstance(rval, bool):
            rval = int(rval)
        seen.add(rval)
        desc = f"{name} C: {expr_of(op)} with constants (a, b) = {v}"
        if rval is None:
            out.add(dict(base, div="undefined_bits"), f"{desc}: folds to {V(f[1], f[2], f[3])}, compiled literal undefined")
        elif rval != f[3]:
            out.add(dict(base, div="value"), f"{desc}: folds to {V(f[1], f[2], f[3])}, compiled literal reads {rval}")
    out.counters.update({"valuations": len(good), "valuations_C": len(good), "compared_C_F": len(good)})
    out.labels += [f"{cls}:C_simulated", "lvl_C"]
    out.exhaustive_cell = None
    out.nontrivial = len(seen) >= 2
    return out
