#!/usr/bin/env python3
"""Regenerates the generated parts of DESIGN.md (between <!-- BEGIN x --> / <!-- END x --> markers):
 findings  : table of known_findings.json
 seeded    : table of seeded/*/meta.json"""
import glob, json, os, re
ROOT = os.path.dirname(os.path.dirname(os.path.abspath(__file__)))

def findings():
    d = json.load(open(f"{ROOT}/known_findings.json"))
    rows = ["| property | id | status | commit | where | what |", "|---|---|---|---|---|---|"]
    for e in sorted(d, key=lambda e: (e["property"], e["status"], e["id"])):
        rows.append(f"| {e['property']} | {e['id']} | {e['status']} | {e.get('commit') or ''} | "
                    f"{(e.get('call_site') or '').replace('|','/')[:90]} | {(e.get('description') or '').replace('|','/')[:260]} |")
    return "\n".join(rows)

def seeded():
    rows = ["| seeded change | breaks | what it needs to manifest | suite | demo fails | detected by (quick tier) |", "|---|---|---|---|---|---|"]
    for p in sorted(glob.glob(f"{ROOT}/seeded/*/meta.json")):
        m = json.load(open(p))
        name = os.path.basename(os.path.dirname(p))
        det = ", ".join(m.get("detected_by") or []) or "**missed**"
        if not m.get("applies_to_current_tree", True):
            det = "(patch no longer applies)"
        rows.append(f"| {name} | {m.get('property')} | {(m.get('needs') or '').replace('|','/')[:220]} | "
                    f"{(m.get('suite_with_change') or '')[:24]} | {m.get('demo_fails_with_change')} | {det} |")
    return "\n".join(rows)

def checks():
    m = json.load(open(f"{ROOT}/MANIFEST.json"))
    rows = ["| property | deciding method | what the check covers (as built) |", "|---|---|---|"]
    for c in m["checks"]:
        rows.append(f"| {c['property_id']} | {c.get('technique','').replace('|','/')} | {c['level_claimed']['text'].replace('|','/')} |")
    return "\n".join(rows)

def main():
    p = f"{ROOT}/DESIGN.md"
    s = open(p).read()
    for key, fn in (("findings", findings), ("seeded", seeded), ("checks", checks)):
        b, e = f"<!-- BEGIN {key} -->", f"<!-- END {key} -->"
        if b in s:
            s = s[:s.index(b) + len(b)] + "\n" + fn() + "\n" + s[s.index(e):]
    open(p, "w").write(s)

if __name__ == "__main__":
    main()
