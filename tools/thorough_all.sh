#!/bin/sh
# runs the thorough tier of every check once (smoke run for harness errors and deep exploration); prints one line each
cd "$(dirname "$0")/.."
for id in ${IDS:-C13 C10 C09 C19 C05 C02 C03 C01 C04 C08 C06 C07 C12 C14 C15 C16 C17 C18 C11 C20}; do
  start=$(date +%s)
  out=$(./check $id --tier thorough 2>&1); rc=$?
  end=$(date +%s)
  echo "== $id rc=$rc $((end-start))s $(echo "$out" | grep '^property=' | cut -c1-220)"
  echo "$out" | grep '^VIOLATION\|^HARNESS\|^KNOWN\|signature' | cut -c1-260 | head -12
done
