"""Per-property level claims (text used by tools/gen_manifest.py)."""

SIM_NOTE = ("VHDL semantics as implemented by cv.vhdl (independent parser, static checker and event-driven "
            "simulator for the subset the backend prints, with a numeric_std model self-tested exhaustively "
            "at small widths); reference models in cv/ref written from the property text")


def register(claim):
    claim("C10",
          "Differential PBT against CPython itself: complete enumeration (thorough) / stride sample (quick) of the "
          "signature x call-shape space (<= 3 params / <= 3 values, module-level, local and method contexts) plus Hypothesis "
          "up to 6 params in 9 definition contexts; grammar-generated SSA programs over the supported constant-evaluable "
          "subset (closures, nonlocal, lambdas with defaults, classes, inheritance, super, properties, __call__, operator "
          "dispatch with reflected fallback, unpacking, comprehensions, constant control flow) executed natively and traced "
          "inside a concurrent context (value read through a pyeval probe), compared type-exact per statement.",
          "CPython non-binding exceptions are unspecified; cohdl rejections are allowed; run() is verified to be traced "
          "(cohdl.evaluated()) on every run", "DESIGN.md 3/C10")
    claim("C11",
          "Generated compilation histories (compile / re-exec'd copy / same object again over parametrised pools of 28 valid "
          "and 27 differently-rejected tops; enumeration of ordered pairs rejected x valid and valid x valid (complete in thorough, every third in quick), and "
          "PYTHONHASHSEED in {0,1,2,12345,...}) compared byte-for-byte with the output of a fresh interpreter compiling only "
          "that design; causes are reduced to a minimal set of preceding rejected stages by re-running sub-histories in fresh "
          "interpreters. Exploration: pools and history length are bounded.",
          "differential oracle = fresh-interpreter golden; module-level state named in the anchors is monitored as labels only",
          "DESIGN.md 3/C11")
    claim("C12",
          "Generated instantiation trees (depth <= 3, fan-out <= 3, repeated templates; whole, slice, index, view, pass-through "
          "and width-mismatched actuals; instances in architecture(), via std.OpenEntity/ConnectedEntity and inside concurrent "
          "contexts): emitted interface equals declared ports; one unit per template emitted before use; every formal "
          "associated once with the given actual (parsed port maps); simulated hierarchical = flat = plain-Python reference on "
          "every output every clock, all input valuations for combinational trees <= 10 input bits.",
          SIM_NOTE + "; designs whose port map has a static error are judged statically only", "DESIGN.md 3/C12")
    claim("C13",
          "Generated histories of first uses of the lazily cached parametrised classes (fresh widths per example, "
          "so cache-miss paths run in the generated order) checked against a dict model (identity/distinctness) and "
          "the transitive closure of the documented subclass edges; generated view chains (.unsigned/.signed/.bitvector, slices, "
          "indices, msb/lsb/left/right, iteration, slices of slices) checked against a bit-position model for root, qualifier, "
          "read and write-through aliasing at Python level and for the index text in emitted VHDL. "
          "Exploration, not proof: widths and nesting are bounded.",
          "Python-level observation of cohdl classes; lattice model written from the property statement",
          "DESIGN.md 3/C13")

    claim("C01",
          "Grammar-generated async process bodies (awaits on conditions, await true/false, while with break/continue, "
          "branches containing awaits, awaited sub-coroutines with return, mixed with the sequential statement language) "
          "are compiled; the emitted state machine is simulated and compared after EVERY clock on every output/internal "
          "signal with the same body executed directly as a Python generator under the pause rules of the property; "
          "additionally a bounded breadth-first lock-step exploration applies every input symbol in every reachable "
          "simulator state. Divergences are minimised to a root-cause signature. Bounded exploration, not proof.",
          SIM_NOTE, "DESIGN.md 3/C01")
    claim("C02",
          "Complete enumeration of 1- and 2-operator expression cells over operand kinds (Bit, bool, BitVector, Unsigned, "
          "Signed, Python int on either side, enum, array) and widths with ALL operand valuations, plus Hypothesis-generated "
          "depth <= 3 expression trees (widths 1..8 and 16/31/32/33/64): the emitted VHDL is simulated in a concurrent and in a "
          "clocked context and compared, value by value, with a reference model of the documented semantics; result kind and "
          "width are compared with the model as well.",
          SIM_NOTE + "; model returns UNSPEC where the statement is silent (x/0, unrepresentable ints, shift >= width)",
          "DESIGN.md 3/C02")
    claim("C03",
          "Grammar-generated bodies of clocked, combinational and concurrent contexts (if/elif/else, match, for-break[-else], "
          "helper calls with returns in nested branches, all assignment forms incl. push, slice/bit targets, local "
          "declarations, cohdl.always) are compiled, the emitted VHDL is simulated and compared after EVERY step on EVERY "
          "output and internal signal with a reference interpreter executing the same spec on Python ints. Divergences are "
          "minimised to a root-cause signature. Exploration over programs and input sequences, bounded depth/size.",
          SIM_NOTE, "DESIGN.md 3/C03")
    claim("C04",
          "Generated sequential and coroutine designs with every reset flavour (sync/async x active high/low), noreset "
          "flags, objects without default, on_reset actions and step_cond are driven with generated schedules asserting "
          "reset at arbitrary clocks and durations (async: also as pulses between edges). Oracles: a reference interpreter "
          "implementing the reset rule of the property, compared after every clock incl. the clocks with active reset, and "
          "a reference-free metamorphic relation (trace after <prefix>.<reset> == trace from power-up) on fully resettable "
          "designs. Bounded exploration.",
          SIM_NOTE, "DESIGN.md 3/C04")
    claim("C05",
          "Complete enumeration of (source kind, target kind, widths 1..3/4, assignment form, source qualifier) cells; the "
          "decision table is the property statement: must-reject cells that cohdl accepts are violations; every accepted "
          "may-accept cell is simulated for ALL source values and the target must hold the same number / bits.",
          SIM_NOTE + "; cells the statement does not classify are unspecified", "DESIGN.md 3/C05")
    claim("C06",
          "Generated designs with hostile names in every naming slot (reserved words, predefined identifiers the backend "
          "prints, case variants, underscore decorations, collisions with compiler-generated names, numeric-suffix families; "
          "complete enumeration of slot x hostile name) and generated expression/cast/slice/array/enum/sub-entity mixes; every "
          "accepted design is analysed by the independent VHDL static checker (LRM rules, VHDL-93 u 2008 union), elaborated "
          "and smoke-simulated; every static error is a violation with a root-cause signature.",
          "the static rule set of cv.vhdl is the meaning of 'a standards-conforming tool accepts'; rules never demand more "
          "than some conforming edition", "DESIGN.md 3/C06")
    claim("C07",
          "Complete enumeration of 2 sites x 2 objects placements and Hypothesis sampling of 2-4 sites x 1-3 objects (signals, "
          "ports, variables, intermediates; whole/slice/element/run-time element; sequential, concurrent, always-expression, "
          "sub-entity instance output, inline entity): must-reject placements that are accepted are violations, and for every "
          "accepted design the driver sets and variable scopes are recomputed from the emitted VHDL.",
          SIM_NOTE, "DESIGN.md 3/C07")
    claim("C08",
          "Enumerated control-flow skeletons (if/if-else/elif chains/match +- default/for-break +- else, optionally nested, "
          "in clocked, combinational and coroutine contexts) x placements of the definition and use of an intermediate, plus "
          "grammar-generated programs. Oracles: the must-reject table of the property (use reachable without a binding in the "
          "same activation, or across an await); an independent definite-assignment dataflow over every emitted process; and "
          "a metamorphic simulation in which all intermediates are re-poisoned before every activation (two poison values) "
          "and must not change any output.",
          SIM_NOTE, "DESIGN.md 3/C08")
    claim("C09",
          "Every operator/method x operand-kind pair (bit, bv, u, s, Python int and cohdl.Integer on either side) x widths "
          "1..4 x ALL operand valuations: cohdl's constant folding (direct call and traced context + pyeval probe) compared "
          "with a reference model of the documented kind/width/value rules; exhaustive per cell.",
          "model returns UNSPEC / value-None where the statements are silent (x/0, unrepresentable int, shift >= width, mixed "
          "signedness); fold exceptions are counted as fold_rejected", "DESIGN.md 3/C09")
    claim("C14",
          "354 Fifo/Stack configurations (N 2..9, three element types, all delay settings, one/two contexts, both stack modes) "
          "wrapped in a request-driven entity that applies the documented preconditions; drawn request schedules (<= 80 clocks) "
          "with per-clock comparison of accepted pushes, popped values, empty/full/size/front against deque/list models "
          "(validity predicates for delayed Fifos), plus breadth-first lock-step exploration to closure (= all request "
          "sequences over a 2-symbol data alphabet) for the small configurations listed in the evidence.",
          SIM_NOTE + "; delayed-Fifo latency is not specified and not asserted", "DESIGN.md 3/C14")
    claim("C15",
          "All tx/rx delay pairs 0..3 x same/two-context topologies x plain/await styles of SyncFlag and Mailbox with a trace "
          "monitor for rules (i)-(v) of the property over drawn schedules, and exhaustive exploration over all per-clock "
          "(want_send, want_recv[, payload]) choices to closure for delays <= 1 (quick) / <= 3 (thorough).",
          SIM_NOTE + "; liveness only up to a drain phase", "DESIGN.md 3/C15")
    claim("C16",
          "Complete enumeration of the n/period/option cells of wait_for, Waiter, delayed/DelayLine, continuous_counter, "
          "ClockDivider, ToggleSignal and debounce with exhaustive input/enable sequences of <= 8-10 clocks plus drawn long "
          "sequences, compared per clock with counter-level reference models written from the property and docstrings.",
          SIM_NOTE + "; ClockDivider phase and debounce output-register timing follow the upstream mock models",
          "DESIGN.md 3/C16")
    claim("C17",
          "Hypothesis-generated type compositions (depth <= 3, all listed type kinds incl. inherited/templated records, "
          "BitFields) plus an enumerated catalogue, all bit patterns for widths <= 10, against an independent layout model: "
          "round-trip, width and layout laws at plain-Python and traced-constant level; BitField reads and Signal writes touch "
          "exactly the declared range; the emitted round-trip entity is compiled (simulation level being added).",
          "traced level runs on a sample because tracing costs 0.1-0.7 s per member", "DESIGN.md 3/C17")
    claim("C18",
          "37 std helpers over enumerated configuration tables (widths 1..9, lengths 1..9, batch sizes 1..7, all legal "
          "shift/rotate/pad amounts) x exhaustive or corner+drawn values against mathematical definitions transcribed from the "
          "docstrings (CRC: GF(2) long division, one or k bits per step) at plain-Python and traced-constant level.",
          "count_set_bits/count_clear_bits are rejected by cohdl on constants and are only reachable through the simulated level",
          "DESIGN.md 3/C18")
    claim("C19",
          "Complete enumeration (thorough: all 36 formats -3<=r<=l<=4, both signednesses, every source x target x round x "
          "overflow cell with ALL raw values; all + - * format pairs of width <= 4 with all raw pairs; constructor and "
          "equality cells) compared with an exact rational (Fraction) reference: floor / round-half-even, then wrap or "
          "saturate. Observed on Python objects (all cells) and through a traced context with a pyeval probe (sampled).",
          "any cohdl exception counts as rejected; always-rejected cell classes are visible in the label histogram",
          "DESIGN.md 3/C19")

    claim("C20",
          "Generated register maps (words, multi-field registers, flags, notifications, input/output, arrays, nested RegFile, "
          "hardware side) x generated master schedules (mapped/unaligned/unmapped addresses; full, partial and empty strobes; "
          "AW/W skew; BREADY/RREADY delays; back-to-back, pipelined and overlapping transfers; hardware events) simulated clock "
          "by clock: AXI4-Lite handshake rules on all channels every clock, one response per request and none without, writes "
          "change exactly the strobed bytes of the addressed register per field kind, reads return the current value, unmapped "
          "accesses change nothing, exposed values and notifications change within the access window.",
          SIM_NOTE + "; RESP values and data of unmapped reads are not asserted (undocumented); liveness is bounded response",
          "DESIGN.md 3/C20")


NOT_APPLICABLE = {}
