"""Per-property level claims (text used by tools/gen_manifest.py)."""

SIM_NOTE = ("VHDL semantics as implemented by cv.vhdl (independent parser, static checker and event-driven "
            "simulator for the subset the backend prints, with a numeric_std model self-tested exhaustively "
            "at small widths); reference models in cv/ref written from the property text")


def register(claim):
    claim("C13",
          "Generated histories of first uses of the lazily cached parametrised classes (fresh widths per example, "
          "so cache-miss paths run in the generated order) checked against a dict model (identity/distinctness) and "
          "the transitive closure of the documented subclass edges; view chains checked for root/qualifier/aliasing. "
          "Exploration, not proof: widths and nesting are bounded.",
          "Python-level observation of cohdl classes; lattice model written from the property statement",
          "DESIGN.md 3/C13")


NOT_APPLICABLE = {}
