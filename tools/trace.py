#!/venv/bin/python
"""tools/trace.py <case.json|replay.json> : print source, VHDL process and the per-clock trace
(reference vs simulation) of a statement-language case (C01/C03/C04)."""
import json, sys
sys.path.insert(0, "/verif"); sys.path.insert(0, "/repo")
from cv.gen import stmt as G
from cv.props import _stmt as S
from cv.ref.seq import Machine, Unspecified
d = json.load(open(sys.argv[1]))
case = d.get("case", d)
spec, stim = case["spec"], case["stim"]
cd = S.Compiled(spec)
print(cd.src[cd.src.index("class Top"):])
i = min([j for j in (cd.vhdl.find("  proc: process"), cd.vhdl.find("combined_reset <=")) if j >= 0] or [-1])
print(cd.vhdl[i:] if i >= 0 else cd.vhdl)
print(cd.design.errors)
sim = cd.sim(); m = Machine(spec)
resets = case.get("resets")
rxs = case.get("rx")
from cv.props import c04 as _c04
for k, row in enumerate(stim):
    r = resets[k] if resets else None
    x = rxs[k] if rxs else None
    try:
        active = r is not None and _c04._is_active(spec, r, x)
        exp = S.ref_step(m, spec, row, reset=active)
    except Unspecified as u:
        print("unspecified:", u); break
    (_c04._apply(sim, spec, row, r, x) if x is not None else S.apply_step(sim, spec, row, r))
    got = {name: sim.get_str(port) for port, name in S.observables(spec)}
    bad = S.compare(sim, exp, spec)
    st = ""
    try: st = sim.find("s_proc").cur
    except Exception: pass
    print(k, row, "rst=", r, "exp", exp, "got", got, "state", st, "<<<< MISMATCH" if bad else "")
    if bad: break
