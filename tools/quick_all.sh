#!/bin/sh
# runs the quick tier of every check once at VERIF_SEED (default 1); prints one line each
cd "$(dirname "$0")/.."
for id in ${IDS:-C01 C02 C03 C04 C05 C06 C07 C08 C09 C10 C11 C12 C13 C14 C15 C16 C17 C18 C19 C20}; do
  start=$(date +%s)
  out=$(./check $id --tier quick 2>&1); rc=$?
  end=$(date +%s)
  echo "== $id rc=$rc $((end-start))s $(echo "$out" | grep '^property=' | cut -c1-200)"
  echo "$out" | grep '^VIOLATION\|^HARNESS\|^KNOWN\|signature' | cut -c1-240 | head -8
done
