#!/bin/sh
# tools/mutant.sh <patch-file> <ID> [<ID>...] : run quick checks against a scratch copy of /repo/cohdl with the
# patch applied (the running agents' /repo is left untouched).  Prints one line per check.
patch=$1; shift
d=$(mktemp -d /tmp/mutrun.XXXXXX)
cp -r /repo/cohdl "$d/"
if ! patch -s -p1 -d "$d" < "$patch"; then echo "PATCH DOES NOT APPLY: $patch"; rm -rf "$d"; exit 3; fi
find "$d" -name __pycache__ -prune -exec rm -rf {} +
for id in "$@"; do
  out=$(cd /verif && CV_REPO="$d" VERIF_NO_SHRINK=${VERIF_NO_SHRINK:-1} ./check "$id" --tier quick --workers ${WORKERS:-8} 2>&1)
  rc=$?
  echo "== $id rc=$rc $(echo "$out" | grep -c '^VIOLATION') violation(s); $(echo "$out" | grep '^property=' | cut -c1-160)"
  echo "$out" | grep -A1 '^VIOLATION' | grep signature | cut -c1-220 | head -4
done
rm -rf "$d"
