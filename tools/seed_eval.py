#!/venv/bin/python
"""tools/seed_eval.py <ID> [--checks C01,C13] [--variants a,b]

Confirms a seeded change produced by an independent sub-agent (/tmp/mut/<ID>/_out/{a,b}.patch,
{a,b}_demo.py, meta.json) and evaluates the registered checks against it:
  1. the patch applies to a scratch copy of /repo's current tree;
  2. the repository's own suite still passes on the patched copy (66 passed);
  3. the demonstration fails with the patch and passes without it;
  4. the quick tier of the property's check (and extra checks) is run against the patched copy.
Writes /verif/seeded/<ID>-<variant>/{patch.diff, demo.py, meta.json}.  /repo itself is never touched.
"""
import argparse
import json
import os
import re
import shutil
import subprocess
import sys
import tempfile

ROOT = os.path.dirname(os.path.dirname(os.path.abspath(__file__)))


def sh(cmd, cwd=None, env=None, timeout=3600):
    p = subprocess.run(cmd, shell=True, cwd=cwd, env=env, capture_output=True, text=True, timeout=timeout)
    return p.returncode, p.stdout + p.stderr


def main():
    ap = argparse.ArgumentParser()
    ap.add_argument("id")
    ap.add_argument("--checks", default=None)
    ap.add_argument("--variants", default="a,b")
    ap.add_argument("--workers", default="8")
    ap.add_argument("--seeds", default="1")
    ap.add_argument("--root", default="/tmp/mut")
    ap.add_argument("--tag", default="")
    a = ap.parse_args()
    pid = a.id
    src = f"{a.root}/{pid}/_out"
    meta_in = json.load(open(f"{src}/meta.json")) if os.path.exists(f"{src}/meta.json") else {}
    checks = (a.checks or pid).split(",")
    for v in a.variants.split(","):
        patch = f"{src}/{v}.patch"
        demo = f"{src}/{v}_demo.py"
        if not os.path.exists(patch):
            print(f"{pid}-{v}: no patch")
            continue
        d = tempfile.mkdtemp(prefix="seedeval.")
        try:
            shutil.copytree("/repo/cohdl", f"{d}/cohdl", ignore=shutil.ignore_patterns("__pycache__"))
            shutil.copytree("/repo/tests", f"{d}/tests", ignore=shutil.ignore_patterns("__pycache__", "test_build", "test_sim"))
            for f in ("pyproject.toml",):
                if os.path.exists(f"/repo/{f}"):
                    shutil.copy(f"/repo/{f}", d)
            env = dict(os.environ, PYTHONPATH=d, PYTHONDONTWRITEBYTECODE="1")
            res = {"property": pid, "variant": v, "summary": meta_in.get(v, {}).get("summary"),
                   "needs": meta_in.get(v, {}).get("needs"), "files": meta_in.get(v, {}).get("files")}
            rc0, out0 = sh(f"/venv/bin/python {demo}", cwd=d, env=env)
            res["demo_passes_without_change"] = rc0 == 0
            rc, out = sh(f"patch -s -p1 -d {d} < {patch}")
            res["applies_to_current_tree"] = rc == 0
            if rc != 0:
                res["note"] = out[-300:]
            else:
                rc, out = sh("/venv/bin/python -m pytest -q -p no:cacheprovider --timeout=900 --continue-on-collection-errors 2>&1 | tail -1",
                             cwd=d, env=env)
                res["suite_with_change"] = out.strip()[-80:]
                rc1, out1 = sh(f"/venv/bin/python {demo}", cwd=d, env=env)
                res["demo_fails_with_change"] = rc1 != 0
                res["checks"] = {}
                for cid in checks:
                    per_seed = {}
                    for seed in a.seeds.split(","):
                        e2 = dict(os.environ, CV_REPO=d, VERIF_NO_SHRINK="1", VERIF_SEED=seed)
                        rc2, out2 = sh(f"./check {cid} --tier quick --workers {a.workers}", cwd=ROOT, env=e2, timeout=7200)
                        sigs = re.findall(r"signature: (\{.*?\}) cases", out2)
                        line = next((l for l in out2.splitlines() if l.startswith("property=")), "")
                        per_seed[seed] = {"exit": rc2, "violations": out2.count("\nVIOLATION") + out2.startswith("VIOLATION"),
                                          "signatures": sigs[:6], "summary": line[:200]}
                    res["checks"][cid] = per_seed
                res["detected_by"] = sorted(c for c, ps in res["checks"].items() if any(x["exit"] == 1 for x in ps.values()))
            out_dir = f"{ROOT}/seeded/{pid}-{v}{a.tag}"
            os.makedirs(out_dir, exist_ok=True)
            shutil.copy(patch, f"{out_dir}/patch.diff")
            if os.path.exists(demo):
                shutil.copy(demo, f"{out_dir}/demo.py")
            res["ran"] = (f"tools/seed_eval.py {pid} --checks {','.join(checks)} --variants {v}: scratch copy of /repo (cohdl/, tests/) "
                          f"+ patch; suite; demo with/without; CV_REPO=<copy> ./check <ID> --tier quick at seeds {a.seeds}")
            json.dump(res, open(f"{out_dir}/meta.json", "w"), indent=1)
            print(f"{pid}-{v}{a.tag}: applies={res.get('applies_to_current_tree')} suite={res.get('suite_with_change')} "
                  f"demo_ok_clean={res['demo_passes_without_change']} demo_fails={res.get('demo_fails_with_change')} "
                  f"detected_by={res.get('detected_by')}")
        finally:
            shutil.rmtree(d, ignore_errors=True)


if __name__ == "__main__":
    main()
