#!/venv/bin/python
"""Regenerates MANIFEST.json from the table below (keeps it schema-valid)."""
import json, os, sys
ROOT = os.path.dirname(os.path.dirname(os.path.abspath(__file__)))
sys.path.insert(0, ROOT)

ALL = [f"C{i:02d}" for i in range(1, 21)]

# property -> (category, text, level_note, design_ref)
CLAIMS = {}

def claim(pid, text, note, ref, category="exploration"):
    CLAIMS[pid] = (category, text, note, ref)

from tools.claims import register  # noqa: E402
register(claim)

NOT_APPLICABLE = {}
try:
    from tools.claims import NOT_APPLICABLE as NA
    NOT_APPLICABLE.update(NA)
except ImportError:
    pass

def main():
    import importlib
    checks = []
    for pid in ALL:
        if pid not in CLAIMS:
            continue
        cat, text, note, ref = CLAIMS[pid]
        import ast
        tree = ast.parse(open(os.path.join(ROOT, "cv", "props", f"{pid.lower()}.py")).read())
        tech = "property-based testing"
        for node in tree.body:
            if isinstance(node, ast.Assign) and getattr(node.targets[0], "id", None) == "TECHNIQUE":
                tech = ast.literal_eval(node.value)
        checks.append({
            "property_id": pid,
            "quick_cmd": f"./check {pid} --tier quick",
            "thorough_cmd": f"./check {pid} --tier thorough",
            "evidence_file": f"/verif/evidence/{pid}.json",
            "replay_cmd_template": f"./check {pid} --replay {{path}}",
            "engine": "cv",
            "level_claimed": {"category": cat, "text": text, "design_ref": ref},
            "level_note": note,
            "technique": tech,
        })
    na = []
    for pid in ALL:
        if pid not in CLAIMS:
            na.append({"property_id": pid, "reason": NOT_APPLICABLE.get(pid, "check not built yet in this round (planned, see DESIGN.md section 3)")})
    man = {
        "version": 1,
        "setup_cmd": "./setup.sh",
        "hooks": {
            "guard": "COHDL_VERIF",
            "enable": "no hooks are compiled into cohdl: every check observes through the public API, module attributes and pyeval probes; COHDL_VERIF=1 is reserved and currently has no effect",
            "baseline_off_cmd": "cd /repo && /venv/bin/python -m pytest -ra -q -p no:cacheprovider --timeout=900 --continue-on-collection-errors",
            "source_commits": [],
            "add_only": True,
        },
        "engines": [
            {"name": "cv", "path": "/verif/cv", "serves_properties": sorted(CLAIMS),
             "kind_free_text": "Hypothesis strategies + exhaustive enumeration driving cohdl; reference models in cv/ref; independent VHDL parser/static checker/simulator in cv/vhdl; sharded collect-then-shrink runner"},
        ],
        "checks": checks,
        "not_applicable": na,
        "notes": "All checks: ./check <ID> --tier quick|thorough; VERIF_SEED honoured; exit 0 held / 1 VIOLATION / 2 harness error. known_findings.json lists recorded defects; regress/<ID>/ holds shrunk replays.",
    }
    with open(os.path.join(ROOT, "MANIFEST.json"), "w") as f:
        json.dump(man, f, indent=1)
    try:
        import jsonschema
        jsonschema.validate(man, json.load(open("/root/.vp/MANIFEST.schema.json")))
        print("manifest valid;", len(checks), "checks;", len(na), "not_applicable")
    except ImportError:
        print("manifest written (jsonschema not importable here)")

if __name__ == "__main__":
    main()
