#!/bin/sh
# Offline setup: make sure hypothesis is importable in /venv (it is pre-installed; the
# wheelhouse install is the fallback) and run the engine self-tests.
set -e
cd "$(dirname "$0")"
/venv/bin/python -c "import hypothesis" 2>/dev/null || \
  /venv/bin/pip install --no-index --find-links /opt/veriftools/wheels hypothesis
# atheris (coverage-guided shards, cv/harness/fuzz.py) goes beside the checkout; without it those shards are skipped
[ -d .deps/atheris ] || /venv/bin/pip install -q --no-index --find-links /opt/veriftools/wheels --target .deps atheris || true
/venv/bin/python -c "import hypothesis, cohdl; print('hypothesis', hypothesis.__version__)"
if [ -f selftest/run.py ]; then PYTHONPATH=/verif:/repo /venv/bin/python selftest/run.py --quick; fi
