library ieee;
use ieee.std_logic_1164.all;
use ieee.numeric_std.all;


entity test_stack_01 is
  port (
    clk : in std_logic;
    reset : in std_logic;
    data_1 : in std_logic;
    push_1 : in std_logic;
    pop_1 : in std_logic;
    reset_1 : in std_logic;
    out_1 : out std_logic;
    front_1 : out std_logic;
    empty_1 : out std_logic;
    full_1 : out std_logic;
    size_1 : out unsigned(3 downto 0)
    );
end test_stack_01;


architecture arch_test_stack_01 of test_stack_01 is
  function cohdl_bool_to_std_logic(inp: boolean) return std_logic is
  begin
    if inp then
      return('1');
    else
      return('0');
    end if;
  end function cohdl_bool_to_std_logic;
  signal buffer_out_1 : std_logic := '0';
  signal buffer_front_1 : std_logic := '0';
  signal buffer_empty_1 : std_logic := '1';
  signal buffer_full_1 : std_logic := '0';
  signal buffer_size_1 : unsigned(3 downto 0) := unsigned'("0000");
  signal stack_cnt : unsigned(2 downto 0) := unsigned'("000");
  signal stack_index : unsigned(2 downto 0) := unsigned'("000");
  type array_type is array(0 to 4) of std_logic_vector(0 downto 0);
  signal stack_stack_mem : array_type;
begin
  
  -- CONCURRENT BLOCK (buffer assignment)
  out_1 <= buffer_out_1;
  front_1 <= buffer_front_1;
  empty_1 <= buffer_empty_1;
  full_1 <= buffer_full_1;
  size_1 <= buffer_size_1;
  

  proc_stack_01: process(clk)
    variable temp : boolean;
    variable temp1 : boolean;
    variable inp : std_logic;
    variable temp2 : std_logic_vector(1 downto 0);
    variable temp3 : unsigned(2 downto 0);
    variable temp4 : unsigned(2 downto 0);
    variable temp5 : boolean;
    variable temp6 : unsigned(2 downto 0);
    variable temp7 : unsigned(2 downto 0);
    variable temp8 : boolean;
    variable temp9 : unsigned(2 downto 0);
    variable temp10 : boolean;
    variable temp11 : boolean;
    variable temp12 : unsigned(2 downto 0);
    variable temp13 : unsigned(2 downto 0);
    variable temp14 : boolean;
    variable index : unsigned(2 downto 0);
    variable temp15 : unsigned(2 downto 0);
    variable temp16 : std_logic;
    variable temp17 : boolean;
    variable temp18 : boolean;
    variable temp19 : boolean;
    variable temp20 : unsigned(2 downto 0);
    variable temp21 : boolean;
    variable temp22 : boolean;
    variable temp23 : unsigned(2 downto 0);
    variable temp24 : boolean;
    variable index1 : unsigned(2 downto 0);
    variable temp25 : unsigned(2 downto 0);
    variable temp26 : std_logic;
  begin
    if rising_edge(clk) then
      temp := reset = '1';
      if temp then
        stack_cnt <= unsigned'("000");
        stack_index <= unsigned'("000");
        buffer_out_1 <= '0';
        buffer_empty_1 <= '1';
        buffer_full_1 <= '0';
        buffer_size_1 <= unsigned'("0000");
        buffer_front_1 <= '0';
      else
        temp1 := push_1 = '1';
        if temp1 then
          inp := data_1;
          temp2 := (inp) & (inp);
          temp3 := stack_index;
          stack_stack_mem(to_integer(temp3)) <= std_logic_vector(temp2(0 downto 0));
          temp4 := (stack_cnt) + (1);
          temp5 := (stack_cnt = 5);
          case temp5 is
            when true =>
              temp6 := unsigned'("101");
            when others =>
              temp6 := temp4;
          end case;
          stack_cnt <= temp6;
          temp7 := (stack_index) + (1);
          temp8 := (stack_index /= 4);
          case temp8 is
            when true =>
              temp9 := temp7;
            when others =>
              temp9 := unsigned'("000");
          end case;
          stack_index <= temp9;
        end if;
        temp10 := pop_1 = '1';
        if temp10 then
          temp11 := (stack_cnt /= 0);
          assert temp11 report "pop from empty stack";
          temp12 := (stack_cnt) - (1);
          stack_cnt <= temp12;
          temp13 := (stack_index) - (1);
          temp14 := (stack_index = 0);
          case temp14 is
            when true =>
              index := unsigned'("100");
            when others =>
              index := temp13;
          end case;
          stack_index <= index;
          temp15 := index;
          temp16 := stack_stack_mem(to_integer(temp15))(0);
          buffer_out_1 <= temp16;
        end if;
        temp17 := reset_1 = '1';
        if temp17 then
          stack_index <= unsigned'("000");
          stack_cnt <= unsigned'("000");
        end if;
        temp18 := (stack_cnt = 0);
        buffer_empty_1 <= cohdl_bool_to_std_logic(temp18);
        temp19 := (stack_cnt = 5);
        buffer_full_1 <= cohdl_bool_to_std_logic(temp19);
        temp20 := stack_cnt;
        buffer_size_1 <= resize(temp20, 4);
        temp21 := (stack_cnt = 0);
        temp22 := not (temp21);
        if temp22 then
          temp23 := (stack_index) - (1);
          temp24 := (stack_index = 0);
          case temp24 is
            when true =>
              index1 := unsigned'("100");
            when others =>
              index1 := temp23;
          end case;
          temp25 := index1;
          temp26 := stack_stack_mem(to_integer(temp25))(0);
          buffer_front_1 <= temp26;
        else
          buffer_front_1 <= '0';
        end if;
      end if;
    end if;
  end process;
end architecture arch_test_stack_01;