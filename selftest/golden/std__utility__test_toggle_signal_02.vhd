library ieee;
use ieee.std_logic_1164.all;
use ieee.numeric_std.all;


entity test_toggle_signal_02 is
  port (
    clk : in std_logic;
    reset_toggle : in std_logic;
    first_interval : in unsigned(2 downto 0);
    second_interval : in unsigned(2 downto 0);
    result : out std_logic_vector(2 downto 0);
    callback_rising : out std_logic;
    callback_falling : out std_logic
    );
end test_toggle_signal_02;


architecture arch_test_toggle_signal_02 of test_toggle_signal_02 is
  function cohdl_bool_to_std_logic(inp: boolean) return std_logic is
  begin
    if inp then
      return('1');
    else
      return('0');
    end if;
  end function cohdl_bool_to_std_logic;
  signal buffer_result : std_logic_vector(2 downto 0);
  signal buffer_callback_rising : std_logic := '0';
  signal buffer_callback_falling : std_logic := '0';
  signal temp : unsigned(3 downto 0);
  signal temp1 : unsigned(3 downto 0);
  signal temp2 : unsigned(3 downto 0);
  signal temp3 : boolean;
  signal temp4 : unsigned(3 downto 0);
  signal counter_end : unsigned(3 downto 0);
  signal combined_reset : std_logic;
  signal toggle_reset : std_logic := '0';
  signal toggle_counter : unsigned(3 downto 0) := unsigned'("0000");
  signal toggle_state : std_logic := '0';
  signal toggle_rising : std_logic := '0';
  signal toggle_falling : std_logic := '0';
begin
  
  -- CONCURRENT BLOCK (buffer assignment)
  result <= buffer_result;
  callback_rising <= buffer_callback_rising;
  callback_falling <= buffer_callback_falling;
  
  -- CONCURRENT BLOCK (logic)
  temp <= resize(first_interval, 4);
  temp1 <= resize(second_interval, 4);
  temp2 <= (temp) + (temp1);
  temp3 <= (temp2 /= 0);
  assert temp3 report "counter end was set to 0";
  temp4 <= (temp2) - (1);
  counter_end <= temp4;
  
  -- CONCURRENT BLOCK (logic)
  combined_reset <= toggle_reset;
  

  proc: process(clk)
    variable temp5 : boolean;
    variable temp6 : unsigned(3 downto 0);
    variable temp7 : boolean;
    variable next_cnt : unsigned(3 downto 0);
    variable temp8 : boolean;
    variable temp9 : boolean;
    variable temp10 : boolean;
    variable temp11 : boolean;
    variable temp12 : boolean;
    variable temp13 : boolean;
    variable temp14 : boolean;
    variable temp15 : boolean;
    variable temp16 : boolean;
    variable temp17 : boolean;
  begin
    if rising_edge(clk) then
      temp5 := combined_reset = '1';
      if temp5 then
        toggle_counter <= unsigned'("0000");
        toggle_state <= '0';
        toggle_rising <= '0';
        toggle_falling <= '0';
        buffer_callback_rising <= '0';
        buffer_callback_falling <= '0';
      else
        buffer_callback_rising <= '0';
        buffer_callback_falling <= '0';
        temp6 := (toggle_counter) + (1);
        temp7 := (toggle_counter >= counter_end);
        case temp7 is
          when true =>
            next_cnt := unsigned'("0000");
          when others =>
            next_cnt := temp6;
        end case;
        toggle_counter <= next_cnt;
        temp8 := (next_cnt < first_interval);
        temp9 := not (temp8);
        toggle_state <= cohdl_bool_to_std_logic(temp9);
        temp10 := toggle_state = '1';
        temp11 := not (temp10);
        temp12 := temp11 and temp9;
        temp13 := not (temp9);
        temp14 := toggle_state = '1';
        temp15 := temp14 and temp13;
        toggle_rising <= cohdl_bool_to_std_logic(temp12);
        toggle_falling <= cohdl_bool_to_std_logic(temp15);
        temp16 := temp12;
        if temp16 then
          buffer_callback_rising <= '1';
        end if;
        temp17 := temp15;
        if temp17 then
          buffer_callback_falling <= '1';
        end if;
      end if;
    end if;
  end process;
  
  -- CONCURRENT BLOCK (logic)
  toggle_reset <= reset_toggle;
  
  -- CONCURRENT BLOCK (logic)
  buffer_result(0) <= toggle_state;
  buffer_result(1) <= toggle_rising;
  buffer_result(2) <= toggle_falling;
end architecture arch_test_toggle_signal_02;