library ieee;
use ieee.std_logic_1164.all;
use ieee.numeric_std.all;


entity test_context_manager_04 is
  port (
    clk : in std_logic;
    reset : in std_logic;
    start : in std_logic;
    condition : in unsigned(7 downto 0);
    result : out unsigned(15 downto 0);
    counter : out unsigned(15 downto 0)
    );
end test_context_manager_04;


architecture arch_test_context_manager_04 of test_context_manager_04 is
  function cohdl_bool_to_std_logic(inp: boolean) return std_logic is
  begin
    if inp then
      return('1');
    else
      return('0');
    end if;
  end function cohdl_bool_to_std_logic;
  signal buffer_result : unsigned(15 downto 0);
  signal buffer_counter : unsigned(15 downto 0);
  type state_proc is (state_0, state_1, state_2, state_3, state_4, state_5, state_6, state_7, state_8, state_9, state_10, state_11, state_12, state_13, state_14, state_15, state_16, state_17, state_18, state_19, state_20, state_21, state_22, state_23);
  signal s_proc : state_proc := state_0;
begin
  
  -- CONCURRENT BLOCK (buffer assignment)
  result <= buffer_result;
  counter <= buffer_counter;
  

  proc: process(clk)
    variable temp : boolean;
    variable temp1 : boolean;
    variable temp2 : unsigned(15 downto 0);
    variable temp3 : unsigned(15 downto 0);
    variable temp4 : unsigned(15 downto 0);
    variable temp5 : boolean;
    variable temp6 : boolean;
    variable temp7 : boolean;
    variable temp8 : boolean;
    variable temp9 : unsigned(15 downto 0);
    variable temp10 : unsigned(15 downto 0);
    variable temp11 : unsigned(15 downto 0);
    variable temp12 : boolean;
    variable temp13 : boolean;
    variable temp14 : boolean;
    variable temp15 : unsigned(15 downto 0);
    variable temp16 : boolean;
    variable temp17 : unsigned(15 downto 0);
    variable temp18 : unsigned(15 downto 0);
    variable temp19 : unsigned(15 downto 0);
    variable temp20 : unsigned(15 downto 0);
    variable temp21 : unsigned(15 downto 0);
    variable temp22 : unsigned(15 downto 0);
    variable temp23 : unsigned(15 downto 0);
    variable temp24 : boolean;
    variable temp25 : unsigned(15 downto 0);
    variable temp26 : unsigned(15 downto 0);
  begin
    if rising_edge(clk) then
      temp := reset = '1';
      if temp then
        s_proc <= state_0;
      else
        case s_proc is
          when state_0 =>
            s_proc <= state_1;
            buffer_counter <= unsigned'("0000000000000000");
            buffer_result <= unsigned'("0000000000000000");
          when state_1 =>
            if start = '1' then
              s_proc <= state_2;
            end if;
          when state_2 =>
            temp1 := (condition = 0);
            if temp1 then
              s_proc <= state_3;
              temp2 := (buffer_counter) + (1);
              buffer_result <= temp2;
            else
              s_proc <= state_5;
            end if;
          when state_3 =>
            s_proc <= state_4;
            temp3 := (buffer_counter) + (1);
            buffer_counter <= temp3;
          when state_4 =>
            s_proc <= state_0;
          when state_5 =>
            s_proc <= state_6;
            temp4 := (buffer_counter) + (1);
            buffer_counter <= temp4;
          when state_6 =>
            temp5 := (condition = 6);
            temp6 := (condition = 11);
            temp7 := temp5 or temp6;
            if temp7 then
              temp8 := (condition = 11);
              if temp8 then
                s_proc <= state_7;
              else
                s_proc <= state_0;
                temp9 := (buffer_counter) + (4);
                buffer_result <= temp9;
              end if;
            else
              s_proc <= state_10;
            end if;
          when state_7 =>
            s_proc <= state_8;
            temp10 := (buffer_counter) + (17);
            buffer_result <= temp10;
          when state_8 =>
            s_proc <= state_9;
            temp11 := (buffer_counter) + (1);
            buffer_counter <= temp11;
          when state_9 =>
            s_proc <= state_0;
          when state_10 =>
            s_proc <= state_11;
          when state_11 =>
            temp12 := (condition = 7);
            temp13 := (condition = 8);
            temp14 := temp12 or temp13;
            if temp14 then
              s_proc <= state_12;
              temp15 := (buffer_counter) + (11);
              buffer_result <= temp15;
            else
              temp16 := (condition = 4);
              if temp16 then
                s_proc <= state_16;
                temp17 := (buffer_counter) + (1);
                buffer_result <= temp17;
              else
                s_proc <= state_20;
              end if;
            end if;
          when state_12 =>
            s_proc <= state_13;
            temp18 := (buffer_counter) + (1);
            buffer_counter <= temp18;
          when state_13 =>
            s_proc <= state_14;
          when state_14 =>
            s_proc <= state_15;
            temp19 := (buffer_counter) + (1);
            buffer_counter <= temp19;
          when state_15 =>
            s_proc <= state_0;
          when state_16 =>
            s_proc <= state_17;
            temp20 := (buffer_counter) + (1);
            buffer_counter <= temp20;
          when state_17 =>
            s_proc <= state_18;
          when state_18 =>
            s_proc <= state_19;
            temp21 := (buffer_counter) + (1);
            buffer_counter <= temp21;
          when state_19 =>
            s_proc <= state_0;
          when state_20 =>
            s_proc <= state_21;
            temp22 := (buffer_counter) + (1);
            buffer_counter <= temp22;
          when state_21 =>
            s_proc <= state_22;
          when state_22 =>
            s_proc <= state_23;
            temp23 := (buffer_counter) + (1);
            buffer_counter <= temp23;
          when state_23 =>
            temp24 := (condition = 13);
            if temp24 then
              s_proc <= state_0;
              temp25 := (buffer_counter) + (7);
              buffer_result <= temp25;
            else
              s_proc <= state_0;
              temp26 := (buffer_counter) + (13);
              buffer_result <= temp26;
            end if;
          when others =>
            null;
        end case;
      end if;
    end if;
  end process;
end architecture arch_test_context_manager_04;