library ieee;
use ieee.std_logic_1164.all;
use ieee.numeric_std.all;


entity test_operations is
  port (
    sw : in std_logic_vector(3 downto 0);
    a : in signed(3 downto 0);
    b : in signed(3 downto 0);
    b_div : in signed(3 downto 0);
    op_add : out signed(3 downto 0);
    op_sub : out signed(3 downto 0);
    op_mul : out signed(7 downto 0);
    op_div : out signed(3 downto 0);
    op_mod : out signed(3 downto 0);
    cast_a : out std_logic_vector(3 downto 0);
    cast_b : out std_logic_vector(3 downto 0);
    cast_c : out std_logic_vector(4 downto 0);
    cast_e : out unsigned(3 downto 0);
    cast_f : out signed(3 downto 0);
    cast_g : out unsigned(3 downto 0);
    cast_h : out signed(3 downto 0);
    array_inp : in std_logic_vector(3 downto 0);
    array_out : out std_logic_vector(3 downto 0);
    array_index : in std_logic_vector(3 downto 0);
    slice_s_a : out std_logic_vector(2 downto 0);
    slice_s_b : out std_logic_vector(2 downto 0);
    slice_s_c : out std_logic_vector(2 downto 0);
    slice_s_d : out std_logic_vector(2 downto 0);
    init_from_same : out signed(3 downto 0);
    init_from_shorter : out signed(4 downto 0);
    init_from_shorter2 : out signed(5 downto 0);
    init_from_unsigned1 : out signed(4 downto 0);
    init_from_unsigned2 : out signed(5 downto 0);
    init_from_unsigned3 : out signed(6 downto 0);
    choose_shorter1 : out signed(4 downto 0);
    choose_shorter2 : out signed(5 downto 0);
    choose_shorter3 : out signed(6 downto 0);
    choose_unsigned : out signed(5 downto 0)
    );
end test_operations;


architecture arch_test_operations of test_operations is
  function cohdl_bool_to_std_logic(inp: boolean) return std_logic is
  begin
    if inp then
      return('1');
    else
      return('0');
    end if;
  end function cohdl_bool_to_std_logic;
  signal buffer_op_add : signed(3 downto 0);
  signal buffer_op_sub : signed(3 downto 0);
  signal buffer_op_mul : signed(7 downto 0);
  signal buffer_op_div : signed(3 downto 0);
  signal buffer_op_mod : signed(3 downto 0);
  signal buffer_cast_a : std_logic_vector(3 downto 0);
  signal buffer_cast_b : std_logic_vector(3 downto 0);
  signal buffer_cast_c : std_logic_vector(4 downto 0);
  signal buffer_cast_e : unsigned(3 downto 0);
  signal buffer_cast_f : signed(3 downto 0);
  signal buffer_cast_g : unsigned(3 downto 0);
  signal buffer_cast_h : signed(3 downto 0);
  signal buffer_array_out : std_logic_vector(3 downto 0);
  signal buffer_slice_s_a : std_logic_vector(2 downto 0);
  signal buffer_slice_s_b : std_logic_vector(2 downto 0);
  signal buffer_slice_s_c : std_logic_vector(2 downto 0);
  signal buffer_slice_s_d : std_logic_vector(2 downto 0);
  signal buffer_init_from_same : signed(3 downto 0);
  signal buffer_init_from_shorter : signed(4 downto 0);
  signal buffer_init_from_shorter2 : signed(5 downto 0);
  signal buffer_init_from_unsigned1 : signed(4 downto 0);
  signal buffer_init_from_unsigned2 : signed(5 downto 0);
  signal buffer_init_from_unsigned3 : signed(6 downto 0);
  signal buffer_choose_shorter1 : signed(4 downto 0);
  signal buffer_choose_shorter2 : signed(5 downto 0);
  signal buffer_choose_shorter3 : signed(6 downto 0);
  signal buffer_choose_unsigned : signed(5 downto 0);
  signal temp : signed(3 downto 0);
  signal temp1 : signed(3 downto 0);
  signal temp2 : signed(7 downto 0);
  signal temp3 : signed(3 downto 0);
  signal temp4 : signed(3 downto 0);
  signal temp5 : signed(3 downto 0);
  type array_type is array(0 to 7) of std_logic_vector(3 downto 0);
  signal array1 : array_type;
  signal temp6 : signed(3 downto 0);
  signal sig : signed(3 downto 0);
  signal sig1 : signed(4 downto 0);
  signal sig2 : signed(5 downto 0);
  signal sig3 : signed(4 downto 0);
  signal sig4 : signed(5 downto 0);
  signal sig5 : signed(6 downto 0);
  signal temp7 : boolean;
  signal temp8 : boolean;
  signal temp9 : signed(3 downto 0);
  signal temp10 : boolean;
  signal temp11 : boolean;
  signal temp12 : signed(5 downto 0);
  signal temp13 : boolean;
  signal temp14 : boolean;
  signal temp15 : signed(6 downto 0);
  signal temp16 : boolean;
  signal temp17 : boolean;
  signal temp18 : signed(5 downto 0);
begin
  
  -- CONCURRENT BLOCK (buffer assignment)
  op_add <= buffer_op_add;
  op_sub <= buffer_op_sub;
  op_mul <= buffer_op_mul;
  op_div <= buffer_op_div;
  op_mod <= buffer_op_mod;
  cast_a <= buffer_cast_a;
  cast_b <= buffer_cast_b;
  cast_c <= buffer_cast_c;
  cast_e <= buffer_cast_e;
  cast_f <= buffer_cast_f;
  cast_g <= buffer_cast_g;
  cast_h <= buffer_cast_h;
  array_out <= buffer_array_out;
  slice_s_a <= buffer_slice_s_a;
  slice_s_b <= buffer_slice_s_b;
  slice_s_c <= buffer_slice_s_c;
  slice_s_d <= buffer_slice_s_d;
  init_from_same <= buffer_init_from_same;
  init_from_shorter <= buffer_init_from_shorter;
  init_from_shorter2 <= buffer_init_from_shorter2;
  init_from_unsigned1 <= buffer_init_from_unsigned1;
  init_from_unsigned2 <= buffer_init_from_unsigned2;
  init_from_unsigned3 <= buffer_init_from_unsigned3;
  choose_shorter1 <= buffer_choose_shorter1;
  choose_shorter2 <= buffer_choose_shorter2;
  choose_shorter3 <= buffer_choose_shorter3;
  choose_unsigned <= buffer_choose_unsigned;
  
  -- CONCURRENT BLOCK (logic_simple)
  temp <= (a) + (b);
  buffer_op_add <= temp;
  temp1 <= (a) - (b);
  buffer_op_sub <= temp1;
  temp2 <= (a) * (b);
  buffer_op_mul <= temp2;
  temp3 <= (a) / (b_div);
  buffer_op_div <= temp3;
  temp4 <= (a) mod (b_div);
  buffer_op_mod <= temp4;
  buffer_cast_a <= std_logic_vector(a);
  buffer_cast_b <= "0110";
  buffer_cast_c <= std_logic_vector(resize(a, 5));
  buffer_cast_e <= unsigned(sw);
  buffer_cast_f <= signed(sw);
  buffer_cast_g <= unsigned(sw);
  buffer_cast_h <= signed(sw);
  temp5 <= signed(array_index);
  array1(to_integer(temp5)) <= array_inp;
  temp6 <= signed(array_index);
  buffer_array_out <= array1(to_integer(temp6));
  
  -- CONCURRENT BLOCK (logic_slices)
  buffer_slice_s_a <= std_logic_vector(signed(b(2 downto 0)));
  buffer_slice_s_b <= std_logic_vector(signed(b(2 downto 0)));
  buffer_slice_s_c <= std_logic_vector(signed(b(3 downto 1)));
  buffer_slice_s_d <= std_logic_vector(signed(b(3 downto 1)));
  
  -- CONCURRENT BLOCK (logic_init)
  sig <= a;
  buffer_init_from_same <= sig;
  sig1 <= resize(a, 5);
  buffer_init_from_shorter <= sig1;
  sig2 <= resize(a, 6);
  buffer_init_from_shorter2 <= sig2;
  sig3 <= signed(std_logic_vector(resize(unsigned(std_logic_vector(a)), 5)));
  buffer_init_from_unsigned1 <= sig3;
  sig4 <= signed(std_logic_vector(resize(unsigned(std_logic_vector(a)), 6)));
  buffer_init_from_unsigned2 <= sig4;
  sig5 <= signed(std_logic_vector(resize(unsigned(std_logic_vector(a)), 7)));
  buffer_init_from_unsigned3 <= sig5;
  temp7 <= (a < b);
  temp8 <= temp7;
  with temp8 select temp9 <=
    a when true,
    b when others;
  buffer_choose_shorter1 <= resize(temp9, 5);
  temp10 <= (a < b);
  temp11 <= temp10;
  with temp11 select temp12 <=
    resize(buffer_init_from_shorter, 6) when true,
    resize(b, 6) when others;
  buffer_choose_shorter2 <= temp12;
  temp13 <= (a < b);
  temp14 <= temp13;
  with temp14 select temp15 <=
    resize(b, 7) when true,
    resize(buffer_init_from_shorter2, 7) when others;
  buffer_choose_shorter3 <= temp15;
  temp16 <= (a < b);
  temp17 <= temp16;
  with temp17 select temp18 <=
    resize(a, 6) when true,
    signed(std_logic_vector(resize(unsigned(std_logic_vector(b)), 6))) when others;
  buffer_choose_unsigned <= temp18;
end architecture arch_test_operations;