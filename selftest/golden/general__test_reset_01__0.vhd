library ieee;
use ieee.std_logic_1164.all;
use ieee.numeric_std.all;


entity test_reset_01 is
  port (
    clk : in std_logic;
    reset : in std_logic;
    out_bit : out std_logic;
    out_bitvector : out std_logic_vector(2 downto 0);
    resetable_bit : out std_logic;
    resetable_bitvector : out std_logic_vector(2 downto 0)
    );
end test_reset_01;


architecture arch_test_reset_01 of test_reset_01 is
  function cohdl_bool_to_std_logic(inp: boolean) return std_logic is
  begin
    if inp then
      return('1');
    else
      return('0');
    end if;
  end function cohdl_bool_to_std_logic;
  signal buffer_out_bit : std_logic;
  signal buffer_out_bitvector : std_logic_vector(2 downto 0);
  signal buffer_resetable_bit : std_logic := '0';
  signal buffer_resetable_bitvector : std_logic_vector(2 downto 0) := "000";
  signal cnt : unsigned(2 downto 0) := unsigned'("011");
begin
  
  -- CONCURRENT BLOCK (buffer assignment)
  out_bit <= buffer_out_bit;
  out_bitvector <= buffer_out_bitvector;
  resetable_bit <= buffer_resetable_bit;
  resetable_bitvector <= buffer_resetable_bitvector;
  

  proc: process(clk, reset)
    variable temp : boolean;
    variable temp1 : unsigned(2 downto 0);
  begin
    temp := reset = '1';
    if temp then
      cnt <= unsigned'("011");
      buffer_resetable_bit <= '0';
      buffer_resetable_bitvector <= "000";
    else
      if rising_edge(clk) then
        temp1 := (cnt) + (1);
        cnt <= temp1;
        buffer_out_bit <= cnt(1);
        buffer_resetable_bit <= cnt(1);
        buffer_out_bitvector <= std_logic_vector(cnt);
        buffer_resetable_bitvector <= std_logic_vector(cnt);
      end if;
    end if;
  end process;
end architecture arch_test_reset_01;