library ieee;
use ieee.std_logic_1164.all;
use ieee.numeric_std.all;


entity test_fifo_01 is
  port (
    clk : in std_logic;
    reset : in std_logic;
    data_in : in std_logic_vector(3 downto 0);
    push : in std_logic;
    data_out : out std_logic_vector(3 downto 0);
    front : out std_logic_vector(3 downto 0);
    pop : in std_logic;
    empty : out std_logic;
    full : out std_logic
    );
end test_fifo_01;


architecture arch_test_fifo_01 of test_fifo_01 is
  function cohdl_bool_to_std_logic(inp: boolean) return std_logic is
  begin
    if inp then
      return('1');
    else
      return('0');
    end if;
  end function cohdl_bool_to_std_logic;
  signal buffer_data_out : std_logic_vector(3 downto 0);
  signal buffer_front : std_logic_vector(3 downto 0);
  signal buffer_empty : std_logic;
  signal buffer_full : std_logic;
  signal fifo_wr_index : unsigned(2 downto 0) := unsigned'("000");
  signal fifo_rd_index : unsigned(2 downto 0) := unsigned'("000");
  signal temp : boolean;
  signal fifo_empty : std_logic;
  signal temp1 : unsigned(2 downto 0);
  signal temp2 : boolean;
  signal fifo_full : std_logic;
  signal temp3 : unsigned(2 downto 0);
  signal temp4 : std_logic_vector(3 downto 0);
  type array_type is array(0 to 7) of std_logic_vector(3 downto 0);
  signal fifo_fifo_mem : array_type;
begin
  
  -- CONCURRENT BLOCK (buffer assignment)
  data_out <= buffer_data_out;
  front <= buffer_front;
  empty <= buffer_empty;
  full <= buffer_full;
  
  -- CONCURRENT BLOCK (logic)
  temp <= (fifo_wr_index = fifo_rd_index);
  fifo_empty <= cohdl_bool_to_std_logic(temp);
  temp1 <= (fifo_wr_index) + (1);
  temp2 <= (temp1 = fifo_rd_index);
  fifo_full <= cohdl_bool_to_std_logic(temp2);
  
  -- CONCURRENT BLOCK (logic)
  temp3 <= fifo_rd_index;
  temp4 <= fifo_fifo_mem(to_integer(temp3));
  buffer_front <= temp4;
  buffer_empty <= fifo_empty;
  buffer_full <= fifo_full;
  

  data_receiver: process(clk)
    variable temp5 : boolean;
    variable temp6 : boolean;
    variable temp7 : boolean;
    variable temp8 : boolean;
    variable inp : std_logic_vector(3 downto 0);
    variable temp9 : std_logic_vector(3 downto 0);
    variable temp10 : unsigned(2 downto 0);
    variable temp11 : unsigned(2 downto 0);
  begin
    if rising_edge(clk) then
      temp5 := reset = '1';
      if temp5 then
        fifo_wr_index <= unsigned'("000");
      else
        temp6 := push = '1';
        if temp6 then
          temp7 := fifo_full = '1';
          temp8 := not (temp7);
          assert temp8 report "writing to full fifo";
          inp := data_in;
          temp9 := inp;
          temp10 := fifo_wr_index;
          fifo_fifo_mem(to_integer(temp10)) <= temp9;
          temp11 := (fifo_wr_index) + (1);
          fifo_wr_index <= temp11;
        end if;
      end if;
    end if;
  end process;
  

  data_transmitter: process(clk)
    variable temp5 : boolean;
    variable temp6 : boolean;
    variable temp7 : boolean;
    variable temp8 : boolean;
    variable temp9 : unsigned(2 downto 0);
    variable temp10 : unsigned(2 downto 0);
    variable temp11 : std_logic_vector(3 downto 0);
  begin
    if rising_edge(clk) then
      temp5 := reset = '1';
      if temp5 then
        fifo_rd_index <= unsigned'("000");
      else
        temp6 := pop = '1';
        if temp6 then
          temp7 := fifo_empty = '1';
          temp8 := not (temp7);
          assert temp8 report "reading from empty fifo";
          temp9 := (fifo_rd_index) + (1);
          fifo_rd_index <= temp9;
          temp10 := fifo_rd_index;
          temp11 := fifo_fifo_mem(to_integer(temp10));
          buffer_data_out <= temp11;
        end if;
      end if;
    end if;
  end process;
end architecture arch_test_fifo_01;