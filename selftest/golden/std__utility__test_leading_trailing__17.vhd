library ieee;
use ieee.std_logic_1164.all;
use ieee.numeric_std.all;


entity test_leading_trailing is
  port (
    input : in unsigned(9 downto 0);
    leading_0 : out unsigned(3 downto 0);
    leading_1 : out unsigned(3 downto 0);
    trailing_0 : out unsigned(3 downto 0);
    trailing_1 : out unsigned(3 downto 0)
    );
end test_leading_trailing;


architecture arch_test_leading_trailing of test_leading_trailing is
  function cohdl_bool_to_std_logic(inp: boolean) return std_logic is
  begin
    if inp then
      return('1');
    else
      return('0');
    end if;
  end function cohdl_bool_to_std_logic;
  signal buffer_leading_0 : unsigned(3 downto 0);
  signal buffer_leading_1 : unsigned(3 downto 0);
  signal buffer_trailing_0 : unsigned(3 downto 0);
  signal buffer_trailing_1 : unsigned(3 downto 0);
begin
  
  -- CONCURRENT BLOCK (buffer assignment)
  leading_0 <= buffer_leading_0;
  leading_1 <= buffer_leading_1;
  trailing_0 <= buffer_trailing_0;
  trailing_1 <= buffer_trailing_1;
  

  logic_assign: process(input)
    variable a : std_logic_vector(1 downto 0);
    variable b : std_logic_vector(1 downto 0);
    variable a1 : std_logic_vector(1 downto 0);
    variable b1 : std_logic_vector(1 downto 0);
    variable b2 : std_logic_vector(1 downto 0);
    variable a2 : std_logic_vector(3 downto 0);
    variable b3 : std_logic_vector(3 downto 0);
    variable a3 : std_logic_vector(7 downto 0);
    variable seq : std_logic_vector(9 downto 0);
    variable temp : boolean;
    variable temp1 : boolean;
    variable temp2 : boolean;
    variable temp3 : boolean;
    variable temp4 : boolean;
    variable temp5 : boolean;
    variable temp6 : boolean;
    variable temp7 : boolean;
    variable temp8 : boolean;
    variable temp9 : boolean;
    variable temp10 : unsigned(3 downto 0);
    variable temp11 : unsigned(3 downto 0);
    variable temp12 : unsigned(3 downto 0);
    variable temp13 : unsigned(3 downto 0);
    variable temp14 : unsigned(3 downto 0);
    variable temp15 : unsigned(3 downto 0);
    variable temp16 : unsigned(3 downto 0);
    variable temp17 : unsigned(3 downto 0);
    variable temp18 : unsigned(3 downto 0);
    variable arg : unsigned(3 downto 0);
    variable a4 : std_logic_vector(1 downto 0);
    variable b4 : std_logic_vector(1 downto 0);
    variable a5 : std_logic_vector(1 downto 0);
    variable b5 : std_logic_vector(1 downto 0);
    variable b6 : std_logic_vector(1 downto 0);
    variable a6 : std_logic_vector(3 downto 0);
    variable b7 : std_logic_vector(3 downto 0);
    variable a7 : std_logic_vector(7 downto 0);
    variable seq1 : std_logic_vector(9 downto 0);
    variable temp19 : boolean;
    variable temp20 : boolean;
    variable temp21 : boolean;
    variable temp22 : boolean;
    variable temp23 : boolean;
    variable temp24 : boolean;
    variable temp25 : boolean;
    variable temp26 : boolean;
    variable temp27 : boolean;
    variable temp28 : boolean;
    variable temp29 : unsigned(3 downto 0);
    variable temp30 : unsigned(3 downto 0);
    variable temp31 : unsigned(3 downto 0);
    variable temp32 : unsigned(3 downto 0);
    variable temp33 : unsigned(3 downto 0);
    variable temp34 : unsigned(3 downto 0);
    variable temp35 : unsigned(3 downto 0);
    variable temp36 : unsigned(3 downto 0);
    variable temp37 : unsigned(3 downto 0);
    variable arg1 : unsigned(3 downto 0);
    variable temp38 : boolean;
    variable temp39 : boolean;
    variable temp40 : boolean;
    variable temp41 : boolean;
    variable temp42 : boolean;
    variable temp43 : boolean;
    variable temp44 : boolean;
    variable temp45 : boolean;
    variable temp46 : boolean;
    variable temp47 : boolean;
    variable temp48 : unsigned(3 downto 0);
    variable temp49 : unsigned(3 downto 0);
    variable temp50 : unsigned(3 downto 0);
    variable temp51 : unsigned(3 downto 0);
    variable temp52 : unsigned(3 downto 0);
    variable temp53 : unsigned(3 downto 0);
    variable temp54 : unsigned(3 downto 0);
    variable temp55 : unsigned(3 downto 0);
    variable temp56 : unsigned(3 downto 0);
    variable arg2 : unsigned(3 downto 0);
    variable temp57 : boolean;
    variable temp58 : boolean;
    variable temp59 : boolean;
    variable temp60 : boolean;
    variable temp61 : boolean;
    variable temp62 : boolean;
    variable temp63 : boolean;
    variable temp64 : boolean;
    variable temp65 : boolean;
    variable temp66 : boolean;
    variable temp67 : unsigned(3 downto 0);
    variable temp68 : unsigned(3 downto 0);
    variable temp69 : unsigned(3 downto 0);
    variable temp70 : unsigned(3 downto 0);
    variable temp71 : unsigned(3 downto 0);
    variable temp72 : unsigned(3 downto 0);
    variable temp73 : unsigned(3 downto 0);
    variable temp74 : unsigned(3 downto 0);
    variable temp75 : unsigned(3 downto 0);
    variable arg3 : unsigned(3 downto 0);
  begin
    a := (input(0)) & (input(1));
    b := (input(2)) & (input(3));
    a1 := (input(4)) & (input(5));
    b1 := (input(6)) & (input(7));
    b2 := (input(8)) & (input(9));
    a2 := (a) & (b);
    b3 := (a1) & (b1);
    a3 := (a2) & (b3);
    seq := (a3) & (b2);
    temp := (seq(0) /= '0');
    temp1 := (seq(1) /= '0');
    temp2 := (seq(2) /= '0');
    temp3 := (seq(3) /= '0');
    temp4 := (seq(4) /= '0');
    temp5 := (seq(5) /= '0');
    temp6 := (seq(6) /= '0');
    temp7 := (seq(7) /= '0');
    temp8 := (seq(8) /= '0');
    temp9 := (seq(9) /= '0');
    case temp9 is
      when true =>
        temp10 := unsigned'("1001");
      when others =>
        temp10 := unsigned'("1010");
    end case;
    case temp8 is
      when true =>
        temp11 := unsigned'("1000");
      when others =>
        temp11 := temp10;
    end case;
    case temp7 is
      when true =>
        temp12 := unsigned'("0111");
      when others =>
        temp12 := temp11;
    end case;
    case temp6 is
      when true =>
        temp13 := unsigned'("0110");
      when others =>
        temp13 := temp12;
    end case;
    case temp5 is
      when true =>
        temp14 := unsigned'("0101");
      when others =>
        temp14 := temp13;
    end case;
    case temp4 is
      when true =>
        temp15 := unsigned'("0100");
      when others =>
        temp15 := temp14;
    end case;
    case temp3 is
      when true =>
        temp16 := unsigned'("0011");
      when others =>
        temp16 := temp15;
    end case;
    case temp2 is
      when true =>
        temp17 := unsigned'("0010");
      when others =>
        temp17 := temp16;
    end case;
    case temp1 is
      when true =>
        temp18 := unsigned'("0001");
      when others =>
        temp18 := temp17;
    end case;
    case temp is
      when true =>
        arg := unsigned'("0000");
      when others =>
        arg := temp18;
    end case;
    buffer_leading_0 <= arg;
    a4 := (input(0)) & (input(1));
    b4 := (input(2)) & (input(3));
    a5 := (input(4)) & (input(5));
    b5 := (input(6)) & (input(7));
    b6 := (input(8)) & (input(9));
    a6 := (a4) & (b4);
    b7 := (a5) & (b5);
    a7 := (a6) & (b7);
    seq1 := (a7) & (b6);
    temp19 := (seq1(0) /= '1');
    temp20 := (seq1(1) /= '1');
    temp21 := (seq1(2) /= '1');
    temp22 := (seq1(3) /= '1');
    temp23 := (seq1(4) /= '1');
    temp24 := (seq1(5) /= '1');
    temp25 := (seq1(6) /= '1');
    temp26 := (seq1(7) /= '1');
    temp27 := (seq1(8) /= '1');
    temp28 := (seq1(9) /= '1');
    case temp28 is
      when true =>
        temp29 := unsigned'("1001");
      when others =>
        temp29 := unsigned'("1010");
    end case;
    case temp27 is
      when true =>
        temp30 := unsigned'("1000");
      when others =>
        temp30 := temp29;
    end case;
    case temp26 is
      when true =>
        temp31 := unsigned'("0111");
      when others =>
        temp31 := temp30;
    end case;
    case temp25 is
      when true =>
        temp32 := unsigned'("0110");
      when others =>
        temp32 := temp31;
    end case;
    case temp24 is
      when true =>
        temp33 := unsigned'("0101");
      when others =>
        temp33 := temp32;
    end case;
    case temp23 is
      when true =>
        temp34 := unsigned'("0100");
      when others =>
        temp34 := temp33;
    end case;
    case temp22 is
      when true =>
        temp35 := unsigned'("0011");
      when others =>
        temp35 := temp34;
    end case;
    case temp21 is
      when true =>
        temp36 := unsigned'("0010");
      when others =>
        temp36 := temp35;
    end case;
    case temp20 is
      when true =>
        temp37 := unsigned'("0001");
      when others =>
        temp37 := temp36;
    end case;
    case temp19 is
      when true =>
        arg1 := unsigned'("0000");
      when others =>
        arg1 := temp37;
    end case;
    buffer_leading_1 <= arg1;
    temp38 := (input(0) /= '0');
    temp39 := (input(1) /= '0');
    temp40 := (input(2) /= '0');
    temp41 := (input(3) /= '0');
    temp42 := (input(4) /= '0');
    temp43 := (input(5) /= '0');
    temp44 := (input(6) /= '0');
    temp45 := (input(7) /= '0');
    temp46 := (input(8) /= '0');
    temp47 := (input(9) /= '0');
    case temp47 is
      when true =>
        temp48 := unsigned'("1001");
      when others =>
        temp48 := unsigned'("1010");
    end case;
    case temp46 is
      when true =>
        temp49 := unsigned'("1000");
      when others =>
        temp49 := temp48;
    end case;
    case temp45 is
      when true =>
        temp50 := unsigned'("0111");
      when others =>
        temp50 := temp49;
    end case;
    case temp44 is
      when true =>
        temp51 := unsigned'("0110");
      when others =>
        temp51 := temp50;
    end case;
    case temp43 is
      when true =>
        temp52 := unsigned'("0101");
      when others =>
        temp52 := temp51;
    end case;
    case temp42 is
      when true =>
        temp53 := unsigned'("0100");
      when others =>
        temp53 := temp52;
    end case;
    case temp41 is
      when true =>
        temp54 := unsigned'("0011");
      when others =>
        temp54 := temp53;
    end case;
    case temp40 is
      when true =>
        temp55 := unsigned'("0010");
      when others =>
        temp55 := temp54;
    end case;
    case temp39 is
      when true =>
        temp56 := unsigned'("0001");
      when others =>
        temp56 := temp55;
    end case;
    case temp38 is
      when true =>
        arg2 := unsigned'("0000");
      when others =>
        arg2 := temp56;
    end case;
    buffer_trailing_0 <= arg2;
    temp57 := (input(0) /= '1');
    temp58 := (input(1) /= '1');
    temp59 := (input(2) /= '1');
    temp60 := (input(3) /= '1');
    temp61 := (input(4) /= '1');
    temp62 := (input(5) /= '1');
    temp63 := (input(6) /= '1');
    temp64 := (input(7) /= '1');
    temp65 := (input(8) /= '1');
    temp66 := (input(9) /= '1');
    case temp66 is
      when true =>
        temp67 := unsigned'("1001");
      when others =>
        temp67 := unsigned'("1010");
    end case;
    case temp65 is
      when true =>
        temp68 := unsigned'("1000");
      when others =>
        temp68 := temp67;
    end case;
    case temp64 is
      when true =>
        temp69 := unsigned'("0111");
      when others =>
        temp69 := temp68;
    end case;
    case temp63 is
      when true =>
        temp70 := unsigned'("0110");
      when others =>
        temp70 := temp69;
    end case;
    case temp62 is
      when true =>
        temp71 := unsigned'("0101");
      when others =>
        temp71 := temp70;
    end case;
    case temp61 is
      when true =>
        temp72 := unsigned'("0100");
      when others =>
        temp72 := temp71;
    end case;
    case temp60 is
      when true =>
        temp73 := unsigned'("0011");
      when others =>
        temp73 := temp72;
    end case;
    case temp59 is
      when true =>
        temp74 := unsigned'("0010");
      when others =>
        temp74 := temp73;
    end case;
    case temp58 is
      when true =>
        temp75 := unsigned'("0001");
      when others =>
        temp75 := temp74;
    end case;
    case temp57 is
      when true =>
        arg3 := unsigned'("0000");
      when others =>
        arg3 := temp75;
    end case;
    buffer_trailing_1 <= arg3;
  end process;
end architecture arch_test_leading_trailing;