library ieee;
use ieee.std_logic_1164.all;
use ieee.numeric_std.all;


entity test_context_01 is
  port (
    clk : in std_logic;
    reset : in std_logic;
    step : in std_logic;
    out_bit : out std_logic;
    out_bitvector : out std_logic_vector(2 downto 0);
    resetable_bit : out std_logic;
    resetable_bitvector : out std_logic_vector(2 downto 0)
    );
end test_context_01;


architecture arch_test_context_01 of test_context_01 is
  function cohdl_bool_to_std_logic(inp: boolean) return std_logic is
  begin
    if inp then
      return('1');
    else
      return('0');
    end if;
  end function cohdl_bool_to_std_logic;
  signal buffer_out_bit : std_logic;
  signal buffer_out_bitvector : std_logic_vector(2 downto 0);
  signal buffer_resetable_bit : std_logic := '0';
  signal buffer_resetable_bitvector : std_logic_vector(2 downto 0) := "000";
  type state_proc is (state_0, state_1, state_2);
  signal s_proc : state_proc := state_0;
  signal cnt : unsigned(2 downto 0) := unsigned'("011");
begin
  
  -- CONCURRENT BLOCK (buffer assignment)
  out_bit <= buffer_out_bit;
  out_bitvector <= buffer_out_bitvector;
  resetable_bit <= buffer_resetable_bit;
  resetable_bitvector <= buffer_resetable_bitvector;
  

  proc: process(clk)
    variable temp : boolean;
    variable temp1 : boolean;
    variable temp2 : unsigned(2 downto 0);
    variable temp3 : unsigned(2 downto 0);
  begin
    if rising_edge(clk) then
      temp := reset = '1';
      if temp then
        s_proc <= state_0;
        cnt <= unsigned'("011");
        buffer_resetable_bit <= '0';
        buffer_resetable_bitvector <= "000";
      else
        temp1 := step = '1';
        if temp1 then
          case s_proc is
            when state_0 =>
              s_proc <= state_1;
              temp2 := (cnt) + (1);
              cnt <= temp2;
            when state_1 =>
              s_proc <= state_2;
              buffer_out_bit <= cnt(1);
              buffer_resetable_bit <= cnt(1);
              temp3 := (cnt) + (1);
              cnt <= temp3;
            when state_2 =>
              s_proc <= state_0;
              buffer_out_bitvector <= std_logic_vector(cnt);
              buffer_resetable_bitvector <= std_logic_vector(cnt);
            when others =>
              null;
          end case;
        end if;
      end if;
    end if;
  end process;
end architecture arch_test_context_01;