library ieee;
use ieee.std_logic_1164.all;
use ieee.numeric_std.all;


entity test_pad is
  port (
    inp_bit : in std_logic;
    inp_a : in std_logic_vector(0 downto 0);
    inp_b : in unsigned(3 downto 0);
    left_a_1 : out std_logic_vector(0 downto 0);
    left_a_2 : out std_logic_vector(1 downto 0);
    left_a_4 : out std_logic_vector(3 downto 0);
    left_a_8_bit : out std_logic_vector(7 downto 0);
    left_a_8_null : out std_logic_vector(7 downto 0);
    left_a_8_full : out std_logic_vector(7 downto 0);
    right_b_4 : out std_logic_vector(3 downto 0);
    right_b_5 : out std_logic_vector(4 downto 0);
    right_b_7 : out std_logic_vector(6 downto 0);
    right_b_8_bit : out std_logic_vector(7 downto 0);
    right_b_8_null : out std_logic_vector(7 downto 0);
    right_b_8_full : out std_logic_vector(7 downto 0)
    );
end test_pad;


architecture arch_test_pad of test_pad is
  function cohdl_bool_to_std_logic(inp: boolean) return std_logic is
  begin
    if inp then
      return('1');
    else
      return('0');
    end if;
  end function cohdl_bool_to_std_logic;
  signal buffer_left_a_1 : std_logic_vector(0 downto 0);
  signal buffer_left_a_2 : std_logic_vector(1 downto 0);
  signal buffer_left_a_4 : std_logic_vector(3 downto 0);
  signal buffer_left_a_8_bit : std_logic_vector(7 downto 0);
  signal buffer_left_a_8_null : std_logic_vector(7 downto 0);
  signal buffer_left_a_8_full : std_logic_vector(7 downto 0);
  signal buffer_right_b_4 : std_logic_vector(3 downto 0);
  signal buffer_right_b_5 : std_logic_vector(4 downto 0);
  signal buffer_right_b_7 : std_logic_vector(6 downto 0);
  signal buffer_right_b_8_bit : std_logic_vector(7 downto 0);
  signal buffer_right_b_8_null : std_logic_vector(7 downto 0);
  signal buffer_right_b_8_full : std_logic_vector(7 downto 0);
  signal arg : std_logic_vector(0 downto 0);
  signal arg1 : std_logic_vector(1 downto 0);
  signal arg2 : std_logic_vector(3 downto 0);
  signal b : std_logic_vector(1 downto 0);
  signal b1 : std_logic_vector(3 downto 0);
  signal a : std_logic_vector(2 downto 0);
  signal temp : std_logic_vector(6 downto 0);
  signal arg3 : std_logic_vector(7 downto 0);
  signal arg4 : std_logic_vector(7 downto 0);
  signal arg5 : std_logic_vector(7 downto 0);
  signal arg6 : std_logic_vector(3 downto 0);
  signal arg7 : std_logic_vector(4 downto 0);
  signal arg8 : std_logic_vector(6 downto 0);
  signal temp1 : std_logic_vector(1 downto 0);
  signal first : std_logic_vector(3 downto 0);
  signal arg9 : std_logic_vector(7 downto 0);
  signal arg10 : std_logic_vector(7 downto 0);
  signal arg11 : std_logic_vector(7 downto 0);
begin
  
  -- CONCURRENT BLOCK (buffer assignment)
  left_a_1 <= buffer_left_a_1;
  left_a_2 <= buffer_left_a_2;
  left_a_4 <= buffer_left_a_4;
  left_a_8_bit <= buffer_left_a_8_bit;
  left_a_8_null <= buffer_left_a_8_null;
  left_a_8_full <= buffer_left_a_8_full;
  right_b_4 <= buffer_right_b_4;
  right_b_5 <= buffer_right_b_5;
  right_b_7 <= buffer_right_b_7;
  right_b_8_bit <= buffer_right_b_8_bit;
  right_b_8_null <= buffer_right_b_8_null;
  right_b_8_full <= buffer_right_b_8_full;
  
  -- CONCURRENT BLOCK (logic)
  arg <= inp_a;
  buffer_left_a_1 <= arg;
  arg1 <= ("0") & (inp_a);
  buffer_left_a_2 <= arg1;
  arg2 <= ("000") & (inp_a);
  buffer_left_a_4 <= arg2;
  b <= (inp_bit) & (inp_bit);
  b1 <= (b) & (b);
  a <= (inp_bit) & (b);
  temp <= (a) & (b1);
  arg3 <= (temp) & (inp_a);
  buffer_left_a_8_bit <= arg3;
  arg4 <= ("0000000") & (inp_a);
  buffer_left_a_8_null <= arg4;
  arg5 <= ("1111111") & (inp_a);
  buffer_left_a_8_full <= arg5;
  arg6 <= std_logic_vector(inp_b);
  buffer_right_b_4 <= arg6;
  arg7 <= (std_logic_vector(inp_b)) & ("0");
  buffer_right_b_5 <= arg7;
  arg8 <= (std_logic_vector(inp_b)) & ("000");
  buffer_right_b_7 <= arg8;
  temp1 <= (inp_bit) & (inp_bit);
  first <= (temp1) & (temp1);
  arg9 <= (std_logic_vector(inp_b)) & (first);
  buffer_right_b_8_bit <= arg9;
  arg10 <= (std_logic_vector(inp_b)) & ("0000");
  buffer_right_b_8_null <= arg10;
  arg11 <= (std_logic_vector(inp_b)) & ("1111");
  buffer_right_b_8_full <= arg11;
end architecture arch_test_pad;