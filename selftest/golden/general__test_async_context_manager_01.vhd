library ieee;
use ieee.std_logic_1164.all;
use ieee.numeric_std.all;


entity test_async_context_manager_01 is
  port (
    clk : in std_logic;
    reset : in std_logic;
    enable : in std_logic;
    ctx_a : out unsigned(3 downto 0);
    ctx_b : out unsigned(3 downto 0);
    ctx_c : out unsigned(3 downto 0);
    ctx_d : out unsigned(3 downto 0);
    level : out unsigned(3 downto 0)
    );
end test_async_context_manager_01;


architecture arch_test_async_context_manager_01 of test_async_context_manager_01 is
  function cohdl_bool_to_std_logic(inp: boolean) return std_logic is
  begin
    if inp then
      return('1');
    else
      return('0');
    end if;
  end function cohdl_bool_to_std_logic;
  signal buffer_ctx_a : unsigned(3 downto 0) := unsigned'("0000");
  signal buffer_ctx_b : unsigned(3 downto 0) := unsigned'("0000");
  signal buffer_ctx_c : unsigned(3 downto 0) := unsigned'("0000");
  signal buffer_ctx_d : unsigned(3 downto 0) := unsigned'("0000");
  signal buffer_level : unsigned(3 downto 0) := unsigned'("0000");
  type state_proc is (state_0, state_1, state_2, state_3, state_4, state_5, state_6, state_7, state_8, state_9, state_10, state_11, state_12, state_13);
  signal s_proc : state_proc := state_0;
  signal sig : unsigned(1 downto 0);
  signal sig1 : unsigned(0 downto 0);
  signal sig2 : unsigned(0 downto 0);
begin
  
  -- CONCURRENT BLOCK (buffer assignment)
  ctx_a <= buffer_ctx_a;
  ctx_b <= buffer_ctx_b;
  ctx_c <= buffer_ctx_c;
  ctx_d <= buffer_ctx_d;
  level <= buffer_level;
  

  proc: process(clk)
    variable temp : boolean;
    variable counter : unsigned(3 downto 0);
    variable temp1 : unsigned(3 downto 0);
    variable temp2 : unsigned(3 downto 0);
    variable temp3 : boolean;
    variable temp4 : unsigned(1 downto 0);
    variable temp5 : unsigned(3 downto 0);
    variable temp6 : unsigned(3 downto 0);
    variable temp7 : unsigned(3 downto 0);
    variable temp8 : boolean;
    variable temp9 : unsigned(0 downto 0);
    variable temp10 : boolean;
    variable temp11 : boolean;
    variable temp12 : unsigned(3 downto 0);
    variable temp13 : boolean;
    variable temp14 : boolean;
    variable temp15 : unsigned(3 downto 0);
    variable temp16 : boolean;
    variable temp17 : boolean;
    variable temp18 : unsigned(3 downto 0);
    variable temp19 : boolean;
    variable temp20 : unsigned(0 downto 0);
    variable temp21 : unsigned(3 downto 0);
    variable temp22 : boolean;
    variable temp23 : boolean;
    variable temp24 : unsigned(3 downto 0);
    variable temp25 : boolean;
  begin
    if rising_edge(clk) then
      temp := reset = '1';
      if temp then
        s_proc <= state_0;
        buffer_ctx_a <= unsigned'("0000");
        buffer_level <= unsigned'("0000");
        buffer_ctx_b <= unsigned'("0000");
        buffer_ctx_c <= unsigned'("0000");
        buffer_ctx_d <= unsigned'("0000");
      else
        case s_proc is
          when state_0 =>
            s_proc <= state_1;
            counter := unsigned'("0000");
          when state_1 =>
            if enable = '1' then
              s_proc <= state_2;
              temp1 := (counter) + (1);
              counter := temp1;
              buffer_ctx_a <= counter;
              buffer_level <= counter;
              temp2 := (counter) + (1);
              counter := temp2;
              buffer_ctx_b <= counter;
              buffer_level <= counter;
              sig <= unsigned'("10");
            end if;
          when state_2 =>
            temp3 := (sig /= 0);
            if temp3 then
              s_proc <= state_2;
              temp4 := (sig) - (1);
              sig <= temp4;
            else
              s_proc <= state_3;
            end if;
          when state_3 =>
            if enable = '1' then
              s_proc <= state_4;
              temp5 := (counter) + (1);
              counter := temp5;
              buffer_ctx_c <= counter;
              buffer_level <= counter;
            end if;
          when state_4 =>
            s_proc <= state_5;
          when state_5 =>
            if enable = '1' then
              s_proc <= state_6;
              temp6 := (counter) + (1);
              counter := temp6;
              buffer_ctx_d <= counter;
              buffer_level <= counter;
            end if;
          when state_6 =>
            if enable = '1' then
              s_proc <= state_7;
              temp7 := (counter) + (1);
              counter := temp7;
              buffer_ctx_c <= counter;
              buffer_level <= counter;
              sig1 <= unsigned'("1");
            end if;
          when state_7 =>
            temp8 := (sig1 /= 0);
            if temp8 then
              s_proc <= state_7;
              temp9 := (sig1) - (1);
              sig1 <= temp9;
            else
              s_proc <= state_8;
            end if;
          when state_8 =>
            temp10 := enable = '1';
            temp11 := not (temp10);
            if temp11 then
              s_proc <= state_8;
            else
              s_proc <= state_9;
              temp12 := (counter) - (1);
              counter := temp12;
              buffer_ctx_c <= counter;
              buffer_level <= counter;
            end if;
          when state_9 =>
            temp13 := enable = '1';
            temp14 := not (temp13);
            if temp14 then
              s_proc <= state_9;
            else
              s_proc <= state_10;
              temp15 := (counter) - (1);
              counter := temp15;
              buffer_ctx_d <= counter;
              buffer_level <= counter;
            end if;
          when state_10 =>
            s_proc <= state_11;
          when state_11 =>
            temp16 := enable = '1';
            temp17 := not (temp16);
            if temp17 then
              s_proc <= state_11;
            else
              s_proc <= state_12;
              temp18 := (counter) - (1);
              counter := temp18;
              buffer_ctx_c <= counter;
              buffer_level <= counter;
              sig2 <= unsigned'("1");
            end if;
          when state_12 =>
            temp19 := (sig2 /= 0);
            if temp19 then
              s_proc <= state_12;
              temp20 := (sig2) - (1);
              sig2 <= temp20;
            else
              s_proc <= state_13;
              temp21 := (counter) - (1);
              counter := temp21;
              buffer_ctx_b <= counter;
              buffer_level <= counter;
            end if;
          when state_13 =>
            temp22 := enable = '1';
            temp23 := not (temp22);
            if temp23 then
              s_proc <= state_13;
            else
              s_proc <= state_0;
              temp24 := (counter) - (1);
              counter := temp24;
              buffer_ctx_a <= counter;
              buffer_level <= counter;
              temp25 := (counter = 0);
              assert temp25;
            end if;
          when others =>
            null;
        end case;
      end if;
    end if;
  end process;
end architecture arch_test_async_context_manager_01;