library ieee;
use ieee.std_logic_1164.all;
use ieee.numeric_std.all;


entity test_select_with is
  port (
    sw : in std_logic_vector(3 downto 0);
    sel_bit : out std_logic;
    sel_bitvector : out std_logic_vector(3 downto 0);
    sel_signed : out signed(3 downto 0);
    sel_unsigned : out unsigned(3 downto 0);
    sel_bitvector_signal : out std_logic_vector(3 downto 0);
    sel_nested : out std_logic_vector(3 downto 0);
    test_inp : in std_logic_vector(3 downto 0);
    test_out : out std_logic_vector(3 downto 0)
    );
end test_select_with;


architecture arch_test_select_with of test_select_with is
  function cohdl_bool_to_std_logic(inp: boolean) return std_logic is
  begin
    if inp then
      return('1');
    else
      return('0');
    end if;
  end function cohdl_bool_to_std_logic;
  signal buffer_sel_bit : std_logic;
  signal buffer_sel_bitvector : std_logic_vector(3 downto 0);
  signal buffer_sel_signed : signed(3 downto 0);
  signal buffer_sel_unsigned : unsigned(3 downto 0);
  signal buffer_sel_bitvector_signal : std_logic_vector(3 downto 0);
  signal buffer_sel_nested : std_logic_vector(3 downto 0);
  signal buffer_test_out : std_logic_vector(3 downto 0);
  signal temp : std_logic;
  signal temp1 : std_logic_vector(3 downto 0);
  signal temp2 : std_logic_vector(3 downto 0);
  signal temp3 : std_logic_vector(3 downto 0);
  signal temp4 : unsigned(3 downto 0);
  signal temp5 : signed(3 downto 0);
  signal temp6 : boolean;
  signal temp7 : std_logic_vector(3 downto 0);
  signal temp8 : std_logic_vector(3 downto 0);
  signal temp9 : std_logic_vector(3 downto 0);
  signal temp10 : std_logic_vector(3 downto 0);
begin
  
  -- CONCURRENT BLOCK (buffer assignment)
  sel_bit <= buffer_sel_bit;
  sel_bitvector <= buffer_sel_bitvector;
  sel_signed <= buffer_sel_signed;
  sel_unsigned <= buffer_sel_unsigned;
  sel_bitvector_signal <= buffer_sel_bitvector_signal;
  sel_nested <= buffer_sel_nested;
  test_out <= buffer_test_out;
  
  -- CONCURRENT BLOCK (logic_select_with)
  buffer_test_out <= test_inp;
  with sw(0) select temp <=
    '1' when '0',
    '0' when '1',
    '0' when others;
  buffer_sel_bit <= temp;
  with std_logic_vector'(sw(1 downto 0)) select temp1 <=
    "0011" when "01",
    "1100" when "10",
    "0000" when others;
  buffer_sel_bitvector <= temp1;
  temp2 <= not (sw);
  with std_logic_vector'(sw(1 downto 0)) select temp3 <=
    "1111" when "00",
    sw when "01",
    temp2 when "10",
    "0000" when others;
  buffer_sel_bitvector_signal <= temp3;
  with std_logic_vector'(sw(1 downto 0)) select temp4 <=
    unsigned'("0100") when "00",
    unsigned'("0011") when "01",
    unsigned'("0010") when "10",
    unsigned'("0001") when "11",
    unsigned'("0000") when others;
  buffer_sel_unsigned <= temp4;
  with std_logic_vector'(sw(1 downto 0)) select temp5 <=
    signed'("1110") when "00",
    signed'("1111") when "01",
    signed'("0001") when "10",
    signed'("0010") when "11",
    signed'("0000") when others;
  buffer_sel_signed <= temp5;
  
  -- CONCURRENT BLOCK (logic_select_nested)
  temp6 <= sw(3) = '1';
  with temp6 select temp7 <=
    sw when true,
    "1111" when others;
  temp8 <= not (sw);
  with sw(3) select temp9 <=
    sw when '0',
    temp8 when '1',
    "1111" when others;
  with std_logic_vector'(sw(1 downto 0)) select temp10 <=
    temp7 when "00",
    "1011" when "01",
    temp9 when "10",
    "0000" when others;
  buffer_sel_nested <= temp10;
end architecture arch_test_select_with;