library ieee;
use ieee.std_logic_1164.all;
use ieee.numeric_std.all;


entity test_shift_out_vec is
  port (
    clk : in std_logic;
    start : in std_logic;
    vec_inp : in std_logic_vector(5 downto 0);
    res : out std_logic_vector(1 downto 0);
    res_delay : out std_logic_vector(1 downto 0);
    res_msb : out std_logic_vector(1 downto 0);
    res_msb_delay : out std_logic_vector(1 downto 0)
    );
end test_shift_out_vec;


architecture arch_test_shift_out_vec of test_shift_out_vec is
  function cohdl_bool_to_std_logic(inp: boolean) return std_logic is
  begin
    if inp then
      return('1');
    else
      return('0');
    end if;
  end function cohdl_bool_to_std_logic;
  signal buffer_res : std_logic_vector(1 downto 0);
  signal buffer_res_delay : std_logic_vector(1 downto 0);
  signal buffer_res_msb : std_logic_vector(1 downto 0);
  signal buffer_res_msb_delay : std_logic_vector(1 downto 0);
  type state_proc_out is (state_0, state_1);
  signal s_proc_out : state_proc_out := state_0;
  signal out_shift_out : std_logic_vector(6 downto 0);
  type state_proc_out1 is (state_0, state_1, state_2, state_3);
  signal s_proc_out1 : state_proc_out1 := state_0;
  signal out_shift_out1 : std_logic_vector(6 downto 0);
  signal sig : std_logic_vector(6 downto 0);
  type state_proc_out2 is (state_0, state_1);
  signal s_proc_out2 : state_proc_out2 := state_0;
  signal out_shift_out2 : std_logic_vector(6 downto 0);
  type state_proc_out3 is (state_0, state_1, state_2, state_3);
  signal s_proc_out3 : state_proc_out3 := state_0;
  signal out_shift_out3 : std_logic_vector(6 downto 0);
  signal sig1 : std_logic_vector(6 downto 0);
begin
  
  -- CONCURRENT BLOCK (buffer assignment)
  res <= buffer_res;
  res_delay <= buffer_res_delay;
  res_msb <= buffer_res_msb;
  res_msb_delay <= buffer_res_msb_delay;
  

  proc_out: process(clk)
    variable val : std_logic_vector(6 downto 0);
    variable alias_out_shift_out : std_logic_vector(6 downto 0);
    variable temp : std_logic_vector(6 downto 0);
    variable temp1 : boolean;
    variable temp2 : boolean;
    variable temp3 : boolean;
    variable temp4 : boolean;
    variable temp5 : boolean;
    variable temp6 : std_logic_vector(6 downto 0);
    variable temp7 : boolean;
    variable temp8 : boolean;
  begin
    if rising_edge(clk) then
      case s_proc_out is
        when state_0 =>
          if start = '1' then
            s_proc_out <= state_1;
            val := ('1') & (vec_inp);
            alias_out_shift_out := val;
            out_shift_out <= val;
            temp := ("00") & (std_logic_vector(alias_out_shift_out(6 downto 2)));
            temp1 := (temp /= "0000000");
            temp2 := temp1;
            assert temp2 report "invalid shift, register already empty";
            out_shift_out <= temp;
            buffer_res <= std_logic_vector(alias_out_shift_out(1 downto 0));
          end if;
        when state_1 =>
          temp3 := (std_logic_vector(out_shift_out(6 downto 1)) /= "000000");
          temp4 := not (temp3);
          temp5 := not (temp4);
          if temp5 then
            s_proc_out <= state_1;
            temp6 := ("00") & (std_logic_vector(out_shift_out(6 downto 2)));
            temp7 := (temp6 /= "0000000");
            temp8 := temp7;
            assert temp8 report "invalid shift, register already empty";
            out_shift_out <= temp6;
            buffer_res <= std_logic_vector(out_shift_out(1 downto 0));
          else
            s_proc_out <= state_0;
          end if;
        when others =>
          null;
      end case;
    end if;
  end process;
  

  proc_out1: process(clk)
    variable val : std_logic_vector(6 downto 0);
    variable temp : boolean;
    variable temp1 : boolean;
    variable temp2 : boolean;
    variable temp3 : std_logic_vector(6 downto 0);
    variable temp4 : boolean;
    variable temp5 : boolean;
    variable val1 : std_logic_vector(6 downto 0);
    variable alias1 : std_logic_vector(6 downto 0);
    variable temp6 : boolean;
    variable temp7 : boolean;
    variable temp8 : boolean;
    variable temp9 : std_logic_vector(6 downto 0);
    variable temp10 : boolean;
    variable temp11 : boolean;
  begin
    if rising_edge(clk) then
      case s_proc_out1 is
        when state_0 =>
          if start = '1' then
            s_proc_out1 <= state_1;
            val := ('1') & (vec_inp);
            out_shift_out1 <= val;
          end if;
        when state_1 =>
          temp := (std_logic_vector(out_shift_out1(6 downto 1)) /= "000000");
          temp1 := not (temp);
          temp2 := not (temp1);
          if temp2 then
            s_proc_out1 <= state_1;
            temp3 := ("00") & (std_logic_vector(out_shift_out1(6 downto 2)));
            temp4 := (temp3 /= "0000000");
            temp5 := temp4;
            assert temp5 report "invalid shift, register already empty";
            out_shift_out1 <= temp3;
            buffer_res_delay <= std_logic_vector(out_shift_out1(1 downto 0));
          else
            s_proc_out1 <= state_2;
          end if;
        when state_2 =>
          if start = '1' then
            s_proc_out1 <= state_3;
            val1 := ('1') & (vec_inp);
            alias1 := val1;
            sig <= val1;
            out_shift_out1 <= alias1;
          end if;
        when state_3 =>
          temp6 := (std_logic_vector(out_shift_out1(6 downto 1)) /= "000000");
          temp7 := not (temp6);
          temp8 := not (temp7);
          if temp8 then
            s_proc_out1 <= state_3;
            temp9 := ("00") & (std_logic_vector(out_shift_out1(6 downto 2)));
            temp10 := (temp9 /= "0000000");
            temp11 := temp10;
            assert temp11 report "invalid shift, register already empty";
            out_shift_out1 <= temp9;
            buffer_res_delay <= std_logic_vector(out_shift_out1(1 downto 0));
          else
            s_proc_out1 <= state_0;
          end if;
        when others =>
          null;
      end case;
    end if;
  end process;
  

  proc_out2: process(clk)
    variable val : std_logic_vector(6 downto 0);
    variable alias_out_shift_out : std_logic_vector(6 downto 0);
    variable temp : std_logic_vector(6 downto 0);
    variable temp1 : boolean;
    variable temp2 : boolean;
    variable temp3 : boolean;
    variable temp4 : boolean;
    variable temp5 : boolean;
    variable temp6 : std_logic_vector(6 downto 0);
    variable temp7 : boolean;
    variable temp8 : boolean;
  begin
    if rising_edge(clk) then
      case s_proc_out2 is
        when state_0 =>
          if start = '1' then
            s_proc_out2 <= state_1;
            val := (vec_inp) & ('1');
            alias_out_shift_out := val;
            out_shift_out2 <= val;
            temp := (std_logic_vector(alias_out_shift_out(4 downto 0))) & ("00");
            temp1 := (temp /= "0000000");
            temp2 := temp1;
            assert temp2 report "invalid shift, register already empty";
            out_shift_out2 <= temp;
            buffer_res_msb <= std_logic_vector(alias_out_shift_out(6 downto 5));
          end if;
        when state_1 =>
          temp3 := (std_logic_vector(out_shift_out2(5 downto 0)) /= "000000");
          temp4 := not (temp3);
          temp5 := not (temp4);
          if temp5 then
            s_proc_out2 <= state_1;
            temp6 := (std_logic_vector(out_shift_out2(4 downto 0))) & ("00");
            temp7 := (temp6 /= "0000000");
            temp8 := temp7;
            assert temp8 report "invalid shift, register already empty";
            out_shift_out2 <= temp6;
            buffer_res_msb <= std_logic_vector(out_shift_out2(6 downto 5));
          else
            s_proc_out2 <= state_0;
          end if;
        when others =>
          null;
      end case;
    end if;
  end process;
  

  proc_out3: process(clk)
    variable val : std_logic_vector(6 downto 0);
    variable temp : boolean;
    variable temp1 : boolean;
    variable temp2 : boolean;
    variable temp3 : std_logic_vector(6 downto 0);
    variable temp4 : boolean;
    variable temp5 : boolean;
    variable val1 : std_logic_vector(6 downto 0);
    variable alias1 : std_logic_vector(6 downto 0);
    variable temp6 : boolean;
    variable temp7 : boolean;
    variable temp8 : boolean;
    variable temp9 : std_logic_vector(6 downto 0);
    variable temp10 : boolean;
    variable temp11 : boolean;
  begin
    if rising_edge(clk) then
      case s_proc_out3 is
        when state_0 =>
          if start = '1' then
            s_proc_out3 <= state_1;
            val := (vec_inp) & ('1');
            out_shift_out3 <= val;
          end if;
        when state_1 =>
          temp := (std_logic_vector(out_shift_out3(5 downto 0)) /= "000000");
          temp1 := not (temp);
          temp2 := not (temp1);
          if temp2 then
            s_proc_out3 <= state_1;
            temp3 := (std_logic_vector(out_shift_out3(4 downto 0))) & ("00");
            temp4 := (temp3 /= "0000000");
            temp5 := temp4;
            assert temp5 report "invalid shift, register already empty";
            out_shift_out3 <= temp3;
            buffer_res_msb_delay <= std_logic_vector(out_shift_out3(6 downto 5));
          else
            s_proc_out3 <= state_2;
          end if;
        when state_2 =>
          if start = '1' then
            s_proc_out3 <= state_3;
            val1 := (vec_inp) & ('1');
            alias1 := val1;
            sig1 <= val1;
            out_shift_out3 <= alias1;
          end if;
        when state_3 =>
          temp6 := (std_logic_vector(out_shift_out3(5 downto 0)) /= "000000");
          temp7 := not (temp6);
          temp8 := not (temp7);
          if temp8 then
            s_proc_out3 <= state_3;
            temp9 := (std_logic_vector(out_shift_out3(4 downto 0))) & ("00");
            temp10 := (temp9 /= "0000000");
            temp11 := temp10;
            assert temp11 report "invalid shift, register already empty";
            out_shift_out3 <= temp9;
            buffer_res_msb_delay <= std_logic_vector(out_shift_out3(6 downto 5));
          else
            s_proc_out3 <= state_0;
          end if;
        when others =>
          null;
      end case;
    end if;
  end process;
end architecture arch_test_shift_out_vec;