library ieee;
use ieee.std_logic_1164.all;
use ieee.numeric_std.all;


entity test_leading_trailing is
  port (
    input : in std_logic_vector(9 downto 0);
    leading_0 : out unsigned(3 downto 0);
    leading_1 : out unsigned(3 downto 0);
    trailing_0 : out unsigned(3 downto 0);
    trailing_1 : out unsigned(3 downto 0)
    );
end test_leading_trailing;


architecture arch_test_leading_trailing of test_leading_trailing is
  function cohdl_bool_to_std_logic(inp: boolean) return std_logic is
  begin
    if inp then
      return('1');
    else
      return('0');
    end if;
  end function cohdl_bool_to_std_logic;
  signal buffer_leading_0 : unsigned(3 downto 0);
  signal buffer_leading_1 : unsigned(3 downto 0);
  signal buffer_trailing_0 : unsigned(3 downto 0);
  signal buffer_trailing_1 : unsigned(3 downto 0);
  signal a : std_logic_vector(1 downto 0);
  signal b : std_logic_vector(1 downto 0);
  signal a1 : std_logic_vector(1 downto 0);
  signal b1 : std_logic_vector(1 downto 0);
  signal b2 : std_logic_vector(1 downto 0);
  signal a2 : std_logic_vector(3 downto 0);
  signal b3 : std_logic_vector(3 downto 0);
  signal a3 : std_logic_vector(7 downto 0);
  signal seq : std_logic_vector(9 downto 0);
  signal temp : boolean;
  signal temp1 : boolean;
  signal temp2 : boolean;
  signal temp3 : boolean;
  signal temp4 : boolean;
  signal temp5 : boolean;
  signal temp6 : boolean;
  signal temp7 : boolean;
  signal temp8 : boolean;
  signal temp9 : boolean;
  signal temp10 : boolean;
  signal temp11 : unsigned(3 downto 0);
  signal temp12 : boolean;
  signal temp13 : unsigned(3 downto 0);
  signal temp14 : boolean;
  signal temp15 : unsigned(3 downto 0);
  signal temp16 : boolean;
  signal temp17 : unsigned(3 downto 0);
  signal temp18 : boolean;
  signal temp19 : unsigned(3 downto 0);
  signal temp20 : boolean;
  signal temp21 : unsigned(3 downto 0);
  signal temp22 : boolean;
  signal temp23 : unsigned(3 downto 0);
  signal temp24 : boolean;
  signal temp25 : unsigned(3 downto 0);
  signal temp26 : boolean;
  signal temp27 : unsigned(3 downto 0);
  signal temp28 : boolean;
  signal arg : unsigned(3 downto 0);
  signal a4 : std_logic_vector(1 downto 0);
  signal b4 : std_logic_vector(1 downto 0);
  signal a5 : std_logic_vector(1 downto 0);
  signal b5 : std_logic_vector(1 downto 0);
  signal b6 : std_logic_vector(1 downto 0);
  signal a6 : std_logic_vector(3 downto 0);
  signal b7 : std_logic_vector(3 downto 0);
  signal a7 : std_logic_vector(7 downto 0);
  signal seq1 : std_logic_vector(9 downto 0);
  signal temp29 : boolean;
  signal temp30 : boolean;
  signal temp31 : boolean;
  signal temp32 : boolean;
  signal temp33 : boolean;
  signal temp34 : boolean;
  signal temp35 : boolean;
  signal temp36 : boolean;
  signal temp37 : boolean;
  signal temp38 : boolean;
  signal temp39 : boolean;
  signal temp40 : unsigned(3 downto 0);
  signal temp41 : boolean;
  signal temp42 : unsigned(3 downto 0);
  signal temp43 : boolean;
  signal temp44 : unsigned(3 downto 0);
  signal temp45 : boolean;
  signal temp46 : unsigned(3 downto 0);
  signal temp47 : boolean;
  signal temp48 : unsigned(3 downto 0);
  signal temp49 : boolean;
  signal temp50 : unsigned(3 downto 0);
  signal temp51 : boolean;
  signal temp52 : unsigned(3 downto 0);
  signal temp53 : boolean;
  signal temp54 : unsigned(3 downto 0);
  signal temp55 : boolean;
  signal temp56 : unsigned(3 downto 0);
  signal temp57 : boolean;
  signal arg1 : unsigned(3 downto 0);
  signal temp58 : boolean;
  signal temp59 : boolean;
  signal temp60 : boolean;
  signal temp61 : boolean;
  signal temp62 : boolean;
  signal temp63 : boolean;
  signal temp64 : boolean;
  signal temp65 : boolean;
  signal temp66 : boolean;
  signal temp67 : boolean;
  signal temp68 : boolean;
  signal temp69 : unsigned(3 downto 0);
  signal temp70 : boolean;
  signal temp71 : unsigned(3 downto 0);
  signal temp72 : boolean;
  signal temp73 : unsigned(3 downto 0);
  signal temp74 : boolean;
  signal temp75 : unsigned(3 downto 0);
  signal temp76 : boolean;
  signal temp77 : unsigned(3 downto 0);
  signal temp78 : boolean;
  signal temp79 : unsigned(3 downto 0);
  signal temp80 : boolean;
  signal temp81 : unsigned(3 downto 0);
  signal temp82 : boolean;
  signal temp83 : unsigned(3 downto 0);
  signal temp84 : boolean;
  signal temp85 : unsigned(3 downto 0);
  signal temp86 : boolean;
  signal arg2 : unsigned(3 downto 0);
  signal temp87 : boolean;
  signal temp88 : boolean;
  signal temp89 : boolean;
  signal temp90 : boolean;
  signal temp91 : boolean;
  signal temp92 : boolean;
  signal temp93 : boolean;
  signal temp94 : boolean;
  signal temp95 : boolean;
  signal temp96 : boolean;
  signal temp97 : boolean;
  signal temp98 : unsigned(3 downto 0);
  signal temp99 : boolean;
  signal temp100 : unsigned(3 downto 0);
  signal temp101 : boolean;
  signal temp102 : unsigned(3 downto 0);
  signal temp103 : boolean;
  signal temp104 : unsigned(3 downto 0);
  signal temp105 : boolean;
  signal temp106 : unsigned(3 downto 0);
  signal temp107 : boolean;
  signal temp108 : unsigned(3 downto 0);
  signal temp109 : boolean;
  signal temp110 : unsigned(3 downto 0);
  signal temp111 : boolean;
  signal temp112 : unsigned(3 downto 0);
  signal temp113 : boolean;
  signal temp114 : unsigned(3 downto 0);
  signal temp115 : boolean;
  signal arg3 : unsigned(3 downto 0);
begin
  
  -- CONCURRENT BLOCK (buffer assignment)
  leading_0 <= buffer_leading_0;
  leading_1 <= buffer_leading_1;
  trailing_0 <= buffer_trailing_0;
  trailing_1 <= buffer_trailing_1;
  
  -- CONCURRENT BLOCK (logic_assign)
  a <= (input(0)) & (input(1));
  b <= (input(2)) & (input(3));
  a1 <= (input(4)) & (input(5));
  b1 <= (input(6)) & (input(7));
  b2 <= (input(8)) & (input(9));
  a2 <= (a) & (b);
  b3 <= (a1) & (b1);
  a3 <= (a2) & (b3);
  seq <= (a3) & (b2);
  temp <= (seq(0) /= '0');
  temp1 <= (seq(1) /= '0');
  temp2 <= (seq(2) /= '0');
  temp3 <= (seq(3) /= '0');
  temp4 <= (seq(4) /= '0');
  temp5 <= (seq(5) /= '0');
  temp6 <= (seq(6) /= '0');
  temp7 <= (seq(7) /= '0');
  temp8 <= (seq(8) /= '0');
  temp9 <= (seq(9) /= '0');
  temp10 <= temp9;
  with temp10 select temp11 <=
    unsigned'("1001") when true,
    unsigned'("1010") when others;
  temp12 <= temp8;
  with temp12 select temp13 <=
    unsigned'("1000") when true,
    temp11 when others;
  temp14 <= temp7;
  with temp14 select temp15 <=
    unsigned'("0111") when true,
    temp13 when others;
  temp16 <= temp6;
  with temp16 select temp17 <=
    unsigned'("0110") when true,
    temp15 when others;
  temp18 <= temp5;
  with temp18 select temp19 <=
    unsigned'("0101") when true,
    temp17 when others;
  temp20 <= temp4;
  with temp20 select temp21 <=
    unsigned'("0100") when true,
    temp19 when others;
  temp22 <= temp3;
  with temp22 select temp23 <=
    unsigned'("0011") when true,
    temp21 when others;
  temp24 <= temp2;
  with temp24 select temp25 <=
    unsigned'("0010") when true,
    temp23 when others;
  temp26 <= temp1;
  with temp26 select temp27 <=
    unsigned'("0001") when true,
    temp25 when others;
  temp28 <= temp;
  with temp28 select arg <=
    unsigned'("0000") when true,
    temp27 when others;
  buffer_leading_0 <= arg;
  a4 <= (input(0)) & (input(1));
  b4 <= (input(2)) & (input(3));
  a5 <= (input(4)) & (input(5));
  b5 <= (input(6)) & (input(7));
  b6 <= (input(8)) & (input(9));
  a6 <= (a4) & (b4);
  b7 <= (a5) & (b5);
  a7 <= (a6) & (b7);
  seq1 <= (a7) & (b6);
  temp29 <= (seq1(0) /= '1');
  temp30 <= (seq1(1) /= '1');
  temp31 <= (seq1(2) /= '1');
  temp32 <= (seq1(3) /= '1');
  temp33 <= (seq1(4) /= '1');
  temp34 <= (seq1(5) /= '1');
  temp35 <= (seq1(6) /= '1');
  temp36 <= (seq1(7) /= '1');
  temp37 <= (seq1(8) /= '1');
  temp38 <= (seq1(9) /= '1');
  temp39 <= temp38;
  with temp39 select temp40 <=
    unsigned'("1001") when true,
    unsigned'("1010") when others;
  temp41 <= temp37;
  with temp41 select temp42 <=
    unsigned'("1000") when true,
    temp40 when others;
  temp43 <= temp36;
  with temp43 select temp44 <=
    unsigned'("0111") when true,
    temp42 when others;
  temp45 <= temp35;
  with temp45 select temp46 <=
    unsigned'("0110") when true,
    temp44 when others;
  temp47 <= temp34;
  with temp47 select temp48 <=
    unsigned'("0101") when true,
    temp46 when others;
  temp49 <= temp33;
  with temp49 select temp50 <=
    unsigned'("0100") when true,
    temp48 when others;
  temp51 <= temp32;
  with temp51 select temp52 <=
    unsigned'("0011") when true,
    temp50 when others;
  temp53 <= temp31;
  with temp53 select temp54 <=
    unsigned'("0010") when true,
    temp52 when others;
  temp55 <= temp30;
  with temp55 select temp56 <=
    unsigned'("0001") when true,
    temp54 when others;
  temp57 <= temp29;
  with temp57 select arg1 <=
    unsigned'("0000") when true,
    temp56 when others;
  buffer_leading_1 <= arg1;
  temp58 <= (input(0) /= '0');
  temp59 <= (input(1) /= '0');
  temp60 <= (input(2) /= '0');
  temp61 <= (input(3) /= '0');
  temp62 <= (input(4) /= '0');
  temp63 <= (input(5) /= '0');
  temp64 <= (input(6) /= '0');
  temp65 <= (input(7) /= '0');
  temp66 <= (input(8) /= '0');
  temp67 <= (input(9) /= '0');
  temp68 <= temp67;
  with temp68 select temp69 <=
    unsigned'("1001") when true,
    unsigned'("1010") when others;
  temp70 <= temp66;
  with temp70 select temp71 <=
    unsigned'("1000") when true,
    temp69 when others;
  temp72 <= temp65;
  with temp72 select temp73 <=
    unsigned'("0111") when true,
    temp71 when others;
  temp74 <= temp64;
  with temp74 select temp75 <=
    unsigned'("0110") when true,
    temp73 when others;
  temp76 <= temp63;
  with temp76 select temp77 <=
    unsigned'("0101") when true,
    temp75 when others;
  temp78 <= temp62;
  with temp78 select temp79 <=
    unsigned'("0100") when true,
    temp77 when others;
  temp80 <= temp61;
  with temp80 select temp81 <=
    unsigned'("0011") when true,
    temp79 when others;
  temp82 <= temp60;
  with temp82 select temp83 <=
    unsigned'("0010") when true,
    temp81 when others;
  temp84 <= temp59;
  with temp84 select temp85 <=
    unsigned'("0001") when true,
    temp83 when others;
  temp86 <= temp58;
  with temp86 select arg2 <=
    unsigned'("0000") when true,
    temp85 when others;
  buffer_trailing_0 <= arg2;
  temp87 <= (input(0) /= '1');
  temp88 <= (input(1) /= '1');
  temp89 <= (input(2) /= '1');
  temp90 <= (input(3) /= '1');
  temp91 <= (input(4) /= '1');
  temp92 <= (input(5) /= '1');
  temp93 <= (input(6) /= '1');
  temp94 <= (input(7) /= '1');
  temp95 <= (input(8) /= '1');
  temp96 <= (input(9) /= '1');
  temp97 <= temp96;
  with temp97 select temp98 <=
    unsigned'("1001") when true,
    unsigned'("1010") when others;
  temp99 <= temp95;
  with temp99 select temp100 <=
    unsigned'("1000") when true,
    temp98 when others;
  temp101 <= temp94;
  with temp101 select temp102 <=
    unsigned'("0111") when true,
    temp100 when others;
  temp103 <= temp93;
  with temp103 select temp104 <=
    unsigned'("0110") when true,
    temp102 when others;
  temp105 <= temp92;
  with temp105 select temp106 <=
    unsigned'("0101") when true,
    temp104 when others;
  temp107 <= temp91;
  with temp107 select temp108 <=
    unsigned'("0100") when true,
    temp106 when others;
  temp109 <= temp90;
  with temp109 select temp110 <=
    unsigned'("0011") when true,
    temp108 when others;
  temp111 <= temp89;
  with temp111 select temp112 <=
    unsigned'("0010") when true,
    temp110 when others;
  temp113 <= temp88;
  with temp113 select temp114 <=
    unsigned'("0001") when true,
    temp112 when others;
  temp115 <= temp87;
  with temp115 select arg3 <=
    unsigned'("0000") when true,
    temp114 when others;
  buffer_trailing_1 <= arg3;
end architecture arch_test_leading_trailing;