library ieee;
use ieee.std_logic_1164.all;
use ieee.numeric_std.all;


entity test_shift_fill is
  port (
    inp_base_1 : in std_logic_vector(0 downto 0);
    inp_base_2 : in std_logic_vector(1 downto 0);
    inp_base_5 : in std_logic_vector(4 downto 0);
    inp_fill : in std_logic_vector(4 downto 0);
    lout_1_bit : out std_logic_vector(0 downto 0);
    lout_1_1 : out std_logic_vector(0 downto 0);
    lout_2_bit : out std_logic_vector(1 downto 0);
    lout_2_1 : out std_logic_vector(1 downto 0);
    lout_2_2 : out std_logic_vector(1 downto 0);
    lout_5_bit : out std_logic_vector(4 downto 0);
    lout_5_1 : out std_logic_vector(4 downto 0);
    lout_5_2 : out std_logic_vector(4 downto 0);
    lout_5_5 : out std_logic_vector(4 downto 0);
    rout_1_bit : out std_logic_vector(0 downto 0);
    rout_1_1 : out std_logic_vector(0 downto 0);
    rout_2_bit : out std_logic_vector(1 downto 0);
    rout_2_1 : out std_logic_vector(1 downto 0);
    rout_2_2 : out std_logic_vector(1 downto 0);
    rout_5_bit : out std_logic_vector(4 downto 0);
    rout_5_1 : out std_logic_vector(4 downto 0);
    rout_5_2 : out std_logic_vector(4 downto 0);
    rout_5_5 : out std_logic_vector(4 downto 0)
    );
end test_shift_fill;


architecture arch_test_shift_fill of test_shift_fill is
  function cohdl_bool_to_std_logic(inp: boolean) return std_logic is
  begin
    if inp then
      return('1');
    else
      return('0');
    end if;
  end function cohdl_bool_to_std_logic;
  signal buffer_lout_1_bit : std_logic_vector(0 downto 0);
  signal buffer_lout_1_1 : std_logic_vector(0 downto 0);
  signal buffer_lout_2_bit : std_logic_vector(1 downto 0);
  signal buffer_lout_2_1 : std_logic_vector(1 downto 0);
  signal buffer_lout_2_2 : std_logic_vector(1 downto 0);
  signal buffer_lout_5_bit : std_logic_vector(4 downto 0);
  signal buffer_lout_5_1 : std_logic_vector(4 downto 0);
  signal buffer_lout_5_2 : std_logic_vector(4 downto 0);
  signal buffer_lout_5_5 : std_logic_vector(4 downto 0);
  signal buffer_rout_1_bit : std_logic_vector(0 downto 0);
  signal buffer_rout_1_1 : std_logic_vector(0 downto 0);
  signal buffer_rout_2_bit : std_logic_vector(1 downto 0);
  signal buffer_rout_2_1 : std_logic_vector(1 downto 0);
  signal buffer_rout_2_2 : std_logic_vector(1 downto 0);
  signal buffer_rout_5_bit : std_logic_vector(4 downto 0);
  signal buffer_rout_5_1 : std_logic_vector(4 downto 0);
  signal buffer_rout_5_2 : std_logic_vector(4 downto 0);
  signal buffer_rout_5_5 : std_logic_vector(4 downto 0);
  signal temp : std_logic_vector(1 downto 0);
  signal temp1 : std_logic_vector(0 downto 0);
  signal temp2 : std_logic_vector(1 downto 0);
  signal temp3 : std_logic_vector(1 downto 0);
  signal temp4 : std_logic_vector(1 downto 0);
  signal temp5 : std_logic_vector(4 downto 0);
  signal temp6 : std_logic_vector(4 downto 0);
  signal temp7 : std_logic_vector(4 downto 0);
  signal temp8 : std_logic_vector(4 downto 0);
  signal temp9 : std_logic_vector(1 downto 0);
  signal temp10 : std_logic_vector(0 downto 0);
  signal temp11 : std_logic_vector(1 downto 0);
  signal temp12 : std_logic_vector(1 downto 0);
  signal temp13 : std_logic_vector(1 downto 0);
  signal temp14 : std_logic_vector(4 downto 0);
  signal temp15 : std_logic_vector(4 downto 0);
  signal temp16 : std_logic_vector(4 downto 0);
  signal temp17 : std_logic_vector(4 downto 0);
begin
  
  -- CONCURRENT BLOCK (buffer assignment)
  lout_1_bit <= buffer_lout_1_bit;
  lout_1_1 <= buffer_lout_1_1;
  lout_2_bit <= buffer_lout_2_bit;
  lout_2_1 <= buffer_lout_2_1;
  lout_2_2 <= buffer_lout_2_2;
  lout_5_bit <= buffer_lout_5_bit;
  lout_5_1 <= buffer_lout_5_1;
  lout_5_2 <= buffer_lout_5_2;
  lout_5_5 <= buffer_lout_5_5;
  rout_1_bit <= buffer_rout_1_bit;
  rout_1_1 <= buffer_rout_1_1;
  rout_2_bit <= buffer_rout_2_bit;
  rout_2_1 <= buffer_rout_2_1;
  rout_2_2 <= buffer_rout_2_2;
  rout_5_bit <= buffer_rout_5_bit;
  rout_5_1 <= buffer_rout_5_1;
  rout_5_2 <= buffer_rout_5_2;
  rout_5_5 <= buffer_rout_5_5;
  
  -- CONCURRENT BLOCK (proc_out)
  temp <= (inp_fill(0)) & (inp_fill(0));
  buffer_lout_1_bit <= std_logic_vector(temp(0 downto 0));
  temp1 <= std_logic_vector(inp_fill(0 downto 0));
  buffer_lout_1_1 <= temp1;
  temp2 <= (std_logic_vector(inp_base_2(0 downto 0))) & (inp_fill(0));
  buffer_lout_2_bit <= temp2;
  temp3 <= (std_logic_vector(inp_base_2(0 downto 0))) & (std_logic_vector(inp_fill(0 downto 0)));
  buffer_lout_2_1 <= temp3;
  temp4 <= std_logic_vector(inp_fill(1 downto 0));
  buffer_lout_2_2 <= temp4;
  temp5 <= (std_logic_vector(inp_base_5(3 downto 0))) & (inp_fill(0));
  buffer_lout_5_bit <= temp5;
  temp6 <= (std_logic_vector(inp_base_5(3 downto 0))) & (std_logic_vector(inp_fill(0 downto 0)));
  buffer_lout_5_1 <= temp6;
  temp7 <= (std_logic_vector(inp_base_5(2 downto 0))) & (std_logic_vector(inp_fill(1 downto 0)));
  buffer_lout_5_2 <= temp7;
  temp8 <= std_logic_vector(inp_fill(4 downto 0));
  buffer_lout_5_5 <= temp8;
  temp9 <= (inp_fill(0)) & (inp_fill(0));
  buffer_rout_1_bit <= std_logic_vector(temp9(0 downto 0));
  temp10 <= std_logic_vector(inp_fill(0 downto 0));
  buffer_rout_1_1 <= temp10;
  temp11 <= (inp_fill(0)) & (std_logic_vector(inp_base_2(1 downto 1)));
  buffer_rout_2_bit <= temp11;
  temp12 <= (std_logic_vector(inp_fill(0 downto 0))) & (std_logic_vector(inp_base_2(1 downto 1)));
  buffer_rout_2_1 <= temp12;
  temp13 <= std_logic_vector(inp_fill(1 downto 0));
  buffer_rout_2_2 <= temp13;
  temp14 <= (inp_fill(0)) & (std_logic_vector(inp_base_5(4 downto 1)));
  buffer_rout_5_bit <= temp14;
  temp15 <= (std_logic_vector(inp_fill(0 downto 0))) & (std_logic_vector(inp_base_5(4 downto 1)));
  buffer_rout_5_1 <= temp15;
  temp16 <= (std_logic_vector(inp_fill(1 downto 0))) & (std_logic_vector(inp_base_5(4 downto 2)));
  buffer_rout_5_2 <= temp16;
  temp17 <= std_logic_vector(inp_fill(4 downto 0));
  buffer_rout_5_5 <= temp17;
end architecture arch_test_shift_fill;