library ieee;
use ieee.std_logic_1164.all;
use ieee.numeric_std.all;


entity test_select_with_03 is
  port (
    clk : in std_logic;
    op : in std_logic_vector(1 downto 0);
    inp_vec_a : in std_logic_vector(2 downto 0);
    inp_vec_b : in std_logic_vector(2 downto 0);
    out_vec : out std_logic_vector(2 downto 0);
    inp_bit_a : in std_logic;
    inp_bit_b : in std_logic;
    out_bit : out std_logic
    );
end test_select_with_03;


architecture arch_test_select_with_03 of test_select_with_03 is
  function cohdl_bool_to_std_logic(inp: boolean) return std_logic is
  begin
    if inp then
      return('1');
    else
      return('0');
    end if;
  end function cohdl_bool_to_std_logic;
  signal buffer_out_vec : std_logic_vector(2 downto 0);
  signal buffer_out_bit : std_logic;
begin
  
  -- CONCURRENT BLOCK (buffer assignment)
  out_vec <= buffer_out_vec;
  out_bit <= buffer_out_bit;
  

  proc_simple: process(clk)
    variable temp : std_logic_vector(2 downto 0);
    variable temp1 : std_logic_vector(2 downto 0);
    variable temp2 : std_logic_vector(2 downto 0);
    variable temp3 : std_logic;
    variable temp4 : std_logic;
    variable temp5 : std_logic;
    variable temp6 : std_logic_vector(2 downto 0);
    variable temp7 : std_logic;
  begin
    if rising_edge(clk) then
      temp := (inp_vec_a) and (inp_vec_b);
      temp1 := (inp_vec_a) or (inp_vec_b);
      temp2 := (inp_vec_a) xor (inp_vec_b);
      temp3 := (inp_bit_a) and (inp_bit_b);
      temp4 := (inp_bit_a) or (inp_bit_b);
      temp5 := (inp_bit_a) xor (inp_bit_b);
      case op is
        when "00" =>
          temp6 := temp;
        when "01" =>
          temp6 := temp1;
        when "10" =>
          temp6 := temp2;
        when "11" =>
          temp6 := "111";
        when others =>
          null;
      end case;
      buffer_out_vec <= temp6;
      case op is
        when "00" =>
          temp7 := temp3;
        when "01" =>
          temp7 := temp4;
        when "10" =>
          temp7 := temp5;
        when "11" =>
          temp7 := '0';
        when others =>
          null;
      end case;
      buffer_out_bit <= temp7;
    end if;
  end process;
end architecture arch_test_select_with_03;