library ieee;
use ieee.std_logic_1164.all;
use ieee.numeric_std.all;


entity test_for is
  port (
    port_in : in std_logic_vector(7 downto 0);
    port_out : out std_logic_vector(7 downto 0)
    );
end test_for;


architecture arch_test_for of test_for is
  function cohdl_bool_to_std_logic(inp: boolean) return std_logic is
  begin
    if inp then
      return('1');
    else
      return('0');
    end if;
  end function cohdl_bool_to_std_logic;
  signal buffer_port_out : std_logic_vector(7 downto 0);
begin
  
  -- CONCURRENT BLOCK (buffer assignment)
  port_out <= buffer_port_out;
  
  -- CONCURRENT BLOCK (logic)
  buffer_port_out(0) <= port_in(0);
  buffer_port_out(1) <= port_in(1);
  buffer_port_out(2) <= port_in(2);
  buffer_port_out(3) <= port_in(3);
  buffer_port_out(4) <= port_in(4);
  buffer_port_out(5) <= port_in(5);
  buffer_port_out(6) <= port_in(6);
  buffer_port_out(7) <= port_in(7);
end architecture arch_test_for;