library ieee;
use ieee.std_logic_1164.all;
use ieee.numeric_std.all;


entity test_toggle_signal_01 is
  port (
    clk : in std_logic;
    reset_toggle : in std_logic;
    a : out std_logic_vector(2 downto 0);
    b : out std_logic_vector(2 downto 0);
    c : out std_logic_vector(2 downto 0);
    d : out std_logic_vector(2 downto 0);
    e : out std_logic_vector(2 downto 0);
    f : out std_logic_vector(2 downto 0);
    g : out std_logic_vector(2 downto 0);
    h : out std_logic_vector(2 downto 0);
    i : out std_logic_vector(2 downto 0);
    callback_rising : out std_logic;
    callback_falling : out std_logic
    );
end test_toggle_signal_01;


architecture arch_test_toggle_signal_01 of test_toggle_signal_01 is
  function cohdl_bool_to_std_logic(inp: boolean) return std_logic is
  begin
    if inp then
      return('1');
    else
      return('0');
    end if;
  end function cohdl_bool_to_std_logic;
  signal buffer_a : std_logic_vector(2 downto 0);
  signal buffer_b : std_logic_vector(2 downto 0);
  signal buffer_c : std_logic_vector(2 downto 0);
  signal buffer_d : std_logic_vector(2 downto 0);
  signal buffer_e : std_logic_vector(2 downto 0);
  signal buffer_f : std_logic_vector(2 downto 0);
  signal buffer_g : std_logic_vector(2 downto 0);
  signal buffer_h : std_logic_vector(2 downto 0);
  signal buffer_i : std_logic_vector(2 downto 0);
  signal buffer_callback_rising : std_logic := '0';
  signal buffer_callback_falling : std_logic := '0';
  signal combined_reset : std_logic;
  signal toggle_reset : std_logic := '0';
  signal toggle_counter : unsigned(2 downto 0) := unsigned'("000");
  signal toggle_state : std_logic := '0';
  signal toggle_rising : std_logic := '0';
  signal toggle_falling : std_logic := '0';
  signal combined_reset1 : std_logic;
  signal toggle_1_reset : std_logic := '0';
  signal toggle_1_counter : unsigned(2 downto 0) := unsigned'("000");
  signal toggle_1_state : std_logic := '0';
  signal toggle_1_rising : std_logic := '0';
  signal toggle_1_falling : std_logic := '0';
  signal combined_reset2 : std_logic;
  signal toggle_2_reset : std_logic := '0';
  signal toggle_2_counter : unsigned(3 downto 0) := unsigned'("0000");
  signal toggle_2_state : std_logic := '0';
  signal toggle_2_rising : std_logic := '0';
  signal toggle_2_falling : std_logic := '0';
  signal combined_reset3 : std_logic;
  signal toggle_3_reset : std_logic := '0';
  signal toggle_3_counter : unsigned(0 downto 0) := unsigned'("0");
  signal toggle_3_state : std_logic := '0';
  signal toggle_3_rising : std_logic := '0';
  signal toggle_3_falling : std_logic := '0';
  signal combined_reset4 : std_logic;
  signal toggle_4_reset : std_logic := '0';
  signal toggle_4_state : std_logic := '0';
  signal toggle_4_rising : std_logic := '0';
  signal toggle_4_falling : std_logic := '0';
  signal combined_reset5 : std_logic;
  signal toggle_5_reset : std_logic := '0';
  signal toggle_5_state : std_logic := '0';
  signal toggle_5_rising : std_logic := '0';
  signal toggle_5_falling : std_logic := '0';
  signal combined_reset6 : std_logic;
  signal toggle_6_reset : std_logic := '0';
  signal toggle_6_counter : unsigned(4 downto 0) := unsigned'("00000");
  signal toggle_6_state : std_logic := '1';
  signal toggle_6_rising : std_logic := '0';
  signal toggle_6_falling : std_logic := '0';
  signal combined_reset7 : std_logic;
  signal toggle_7_reset : std_logic := '0';
  signal toggle_7_counter : unsigned(4 downto 0) := unsigned'("00000");
  signal toggle_7_state : std_logic := '0';
  signal toggle_7_rising : std_logic := '0';
  signal toggle_7_falling : std_logic := '0';
  signal combined_reset8 : std_logic;
  signal toggle_8_reset : std_logic := '0';
  signal toggle_8_counter : unsigned(4 downto 0) := unsigned'("00000");
  signal toggle_8_state : std_logic := '0';
  signal toggle_8_rising : std_logic := '0';
  signal toggle_8_falling : std_logic := '0';
begin
  
  -- CONCURRENT BLOCK (buffer assignment)
  a <= buffer_a;
  b <= buffer_b;
  c <= buffer_c;
  d <= buffer_d;
  e <= buffer_e;
  f <= buffer_f;
  g <= buffer_g;
  h <= buffer_h;
  i <= buffer_i;
  callback_rising <= buffer_callback_rising;
  callback_falling <= buffer_callback_falling;
  
  -- CONCURRENT BLOCK (logic)
  combined_reset <= toggle_reset;
  

  proc: process(clk)
    variable temp : boolean;
    variable temp1 : unsigned(2 downto 0);
    variable temp2 : boolean;
    variable next_cnt : unsigned(2 downto 0);
    variable temp3 : boolean;
    variable temp4 : boolean;
    variable temp5 : boolean;
    variable temp6 : boolean;
    variable temp7 : boolean;
    variable temp8 : boolean;
    variable temp9 : boolean;
    variable temp10 : boolean;
  begin
    if rising_edge(clk) then
      temp := combined_reset = '1';
      if temp then
        toggle_counter <= unsigned'("000");
        toggle_state <= '0';
        toggle_rising <= '0';
        toggle_falling <= '0';
      else
        temp1 := (toggle_counter) + (1);
        temp2 := (toggle_counter = 7);
        case temp2 is
          when true =>
            next_cnt := unsigned'("000");
          when others =>
            next_cnt := temp1;
        end case;
        toggle_counter <= next_cnt;
        temp3 := (next_cnt < 4);
        temp4 := not (temp3);
        toggle_state <= cohdl_bool_to_std_logic(temp4);
        temp5 := toggle_state = '1';
        temp6 := not (temp5);
        temp7 := temp6 and temp4;
        temp8 := not (temp4);
        temp9 := toggle_state = '1';
        temp10 := temp9 and temp8;
        toggle_rising <= cohdl_bool_to_std_logic(temp7);
        toggle_falling <= cohdl_bool_to_std_logic(temp10);
      end if;
    end if;
  end process;
  
  -- CONCURRENT BLOCK (logic)
  combined_reset1 <= toggle_1_reset;
  

  proc1: process(clk)
    variable temp : boolean;
    variable temp1 : unsigned(2 downto 0);
    variable temp2 : boolean;
    variable next_cnt : unsigned(2 downto 0);
    variable temp3 : boolean;
    variable temp4 : boolean;
    variable temp5 : boolean;
    variable temp6 : boolean;
    variable temp7 : boolean;
    variable temp8 : boolean;
    variable temp9 : boolean;
    variable temp10 : boolean;
  begin
    if rising_edge(clk) then
      temp := combined_reset1 = '1';
      if temp then
        toggle_1_counter <= unsigned'("000");
        toggle_1_state <= '0';
        toggle_1_rising <= '0';
        toggle_1_falling <= '0';
      else
        temp1 := (toggle_1_counter) + (1);
        temp2 := (toggle_1_counter = 5);
        case temp2 is
          when true =>
            next_cnt := unsigned'("000");
          when others =>
            next_cnt := temp1;
        end case;
        toggle_1_counter <= next_cnt;
        temp3 := (next_cnt < 4);
        temp4 := not (temp3);
        toggle_1_state <= cohdl_bool_to_std_logic(temp4);
        temp5 := toggle_1_state = '1';
        temp6 := not (temp5);
        temp7 := temp6 and temp4;
        temp8 := not (temp4);
        temp9 := toggle_1_state = '1';
        temp10 := temp9 and temp8;
        toggle_1_rising <= cohdl_bool_to_std_logic(temp7);
        toggle_1_falling <= cohdl_bool_to_std_logic(temp10);
      end if;
    end if;
  end process;
  
  -- CONCURRENT BLOCK (logic)
  combined_reset2 <= toggle_2_reset;
  

  proc2: process(clk)
    variable temp : boolean;
    variable temp1 : unsigned(3 downto 0);
    variable temp2 : boolean;
    variable next_cnt : unsigned(3 downto 0);
    variable temp3 : boolean;
    variable temp4 : boolean;
    variable temp5 : boolean;
    variable temp6 : boolean;
    variable temp7 : boolean;
    variable temp8 : boolean;
    variable temp9 : boolean;
    variable temp10 : boolean;
  begin
    if rising_edge(clk) then
      temp := combined_reset2 = '1';
      if temp then
        toggle_2_counter <= unsigned'("0000");
        toggle_2_state <= '0';
        toggle_2_rising <= '0';
        toggle_2_falling <= '0';
      else
        temp1 := (toggle_2_counter) + (1);
        temp2 := (toggle_2_counter = 9);
        case temp2 is
          when true =>
            next_cnt := unsigned'("0000");
          when others =>
            next_cnt := temp1;
        end case;
        toggle_2_counter <= next_cnt;
        temp3 := (next_cnt < 5);
        temp4 := not (temp3);
        toggle_2_state <= cohdl_bool_to_std_logic(temp4);
        temp5 := toggle_2_state = '1';
        temp6 := not (temp5);
        temp7 := temp6 and temp4;
        temp8 := not (temp4);
        temp9 := toggle_2_state = '1';
        temp10 := temp9 and temp8;
        toggle_2_rising <= cohdl_bool_to_std_logic(temp7);
        toggle_2_falling <= cohdl_bool_to_std_logic(temp10);
      end if;
    end if;
  end process;
  
  -- CONCURRENT BLOCK (logic)
  combined_reset3 <= toggle_3_reset;
  

  proc3: process(clk)
    variable temp : boolean;
    variable temp1 : unsigned(0 downto 0);
    variable temp2 : boolean;
    variable next_cnt : unsigned(0 downto 0);
    variable temp3 : boolean;
    variable temp4 : boolean;
    variable temp5 : boolean;
    variable temp6 : boolean;
    variable temp7 : boolean;
    variable temp8 : boolean;
    variable temp9 : boolean;
    variable temp10 : boolean;
  begin
    if rising_edge(clk) then
      temp := combined_reset3 = '1';
      if temp then
        toggle_3_counter <= unsigned'("0");
        toggle_3_state <= '0';
        toggle_3_rising <= '0';
        toggle_3_falling <= '0';
      else
        temp1 := (toggle_3_counter) + (1);
        temp2 := (toggle_3_counter = 1);
        case temp2 is
          when true =>
            next_cnt := unsigned'("0");
          when others =>
            next_cnt := temp1;
        end case;
        toggle_3_counter <= next_cnt;
        temp3 := (next_cnt < 1);
        temp4 := not (temp3);
        toggle_3_state <= cohdl_bool_to_std_logic(temp4);
        temp5 := toggle_3_state = '1';
        temp6 := not (temp5);
        temp7 := temp6 and temp4;
        temp8 := not (temp4);
        temp9 := toggle_3_state = '1';
        temp10 := temp9 and temp8;
        toggle_3_rising <= cohdl_bool_to_std_logic(temp7);
        toggle_3_falling <= cohdl_bool_to_std_logic(temp10);
      end if;
    end if;
  end process;
  
  -- CONCURRENT BLOCK (logic)
  combined_reset4 <= toggle_4_reset;
  

  proc4: process(clk)
    variable temp : boolean;
    variable temp1 : boolean;
    variable temp2 : boolean;
    variable temp3 : boolean;
    variable temp4 : boolean;
  begin
    if rising_edge(clk) then
      temp := combined_reset4 = '1';
      if temp then
        toggle_4_state <= '0';
        toggle_4_rising <= '0';
        toggle_4_falling <= '0';
      else
        toggle_4_state <= '0';
        temp1 := toggle_4_state = '1';
        temp2 := not (temp1);
        temp3 := toggle_4_state = '1';
        temp4 := temp3;
        toggle_4_rising <= '0';
        toggle_4_falling <= cohdl_bool_to_std_logic(temp4);
      end if;
    end if;
  end process;
  
  -- CONCURRENT BLOCK (logic)
  combined_reset5 <= toggle_5_reset;
  

  proc5: process(clk)
    variable temp : boolean;
    variable temp1 : boolean;
    variable temp2 : boolean;
    variable temp3 : boolean;
  begin
    if rising_edge(clk) then
      temp := combined_reset5 = '1';
      if temp then
        toggle_5_state <= '0';
        toggle_5_rising <= '0';
        toggle_5_falling <= '0';
      else
        toggle_5_state <= '1';
        temp1 := toggle_5_state = '1';
        temp2 := not (temp1);
        temp3 := temp2;
        toggle_5_rising <= cohdl_bool_to_std_logic(temp3);
        toggle_5_falling <= '0';
      end if;
    end if;
  end process;
  
  -- CONCURRENT BLOCK (logic)
  combined_reset6 <= toggle_6_reset;
  

  proc6: process(clk)
    variable temp : boolean;
    variable temp1 : unsigned(4 downto 0);
    variable temp2 : boolean;
    variable next_cnt : unsigned(4 downto 0);
    variable temp3 : boolean;
    variable temp4 : boolean;
    variable temp5 : boolean;
    variable temp6 : boolean;
    variable temp7 : boolean;
    variable temp8 : boolean;
    variable temp9 : boolean;
    variable temp10 : boolean;
  begin
    if rising_edge(clk) then
      temp := combined_reset6 = '1';
      if temp then
        toggle_6_counter <= unsigned'("00000");
        toggle_6_state <= '1';
        toggle_6_rising <= '0';
        toggle_6_falling <= '0';
      else
        temp1 := (toggle_6_counter) + (1);
        temp2 := (toggle_6_counter = 19);
        case temp2 is
          when true =>
            next_cnt := unsigned'("00000");
          when others =>
            next_cnt := temp1;
        end case;
        toggle_6_counter <= next_cnt;
        temp3 := (next_cnt < 10);
        temp4 := not (temp3);
        toggle_6_state <= cohdl_bool_to_std_logic(temp4);
        temp5 := toggle_6_state = '1';
        temp6 := not (temp5);
        temp7 := temp6 and temp4;
        temp8 := not (temp4);
        temp9 := toggle_6_state = '1';
        temp10 := temp9 and temp8;
        toggle_6_rising <= cohdl_bool_to_std_logic(temp7);
        toggle_6_falling <= cohdl_bool_to_std_logic(temp10);
      end if;
    end if;
  end process;
  
  -- CONCURRENT BLOCK (logic)
  combined_reset7 <= toggle_7_reset;
  

  proc7: process(clk)
    variable temp : boolean;
    variable temp1 : unsigned(4 downto 0);
    variable temp2 : boolean;
    variable next_cnt : unsigned(4 downto 0);
    variable temp3 : boolean;
    variable temp4 : boolean;
    variable temp5 : boolean;
    variable temp6 : boolean;
    variable temp7 : boolean;
    variable temp8 : boolean;
    variable temp9 : boolean;
  begin
    if rising_edge(clk) then
      temp := combined_reset7 = '1';
      if temp then
        toggle_7_counter <= unsigned'("00000");
        toggle_7_state <= '0';
        toggle_7_rising <= '0';
        toggle_7_falling <= '0';
      else
        temp1 := (toggle_7_counter) + (1);
        temp2 := (toggle_7_counter = 19);
        case temp2 is
          when true =>
            next_cnt := unsigned'("00000");
          when others =>
            next_cnt := temp1;
        end case;
        toggle_7_counter <= next_cnt;
        temp3 := (next_cnt < 10);
        toggle_7_state <= cohdl_bool_to_std_logic(temp3);
        temp4 := toggle_7_state = '1';
        temp5 := not (temp4);
        temp6 := temp5 and temp3;
        temp7 := not (temp3);
        temp8 := toggle_7_state = '1';
        temp9 := temp8 and temp7;
        toggle_7_rising <= cohdl_bool_to_std_logic(temp6);
        toggle_7_falling <= cohdl_bool_to_std_logic(temp9);
      end if;
    end if;
  end process;
  
  -- CONCURRENT BLOCK (logic)
  combined_reset8 <= toggle_8_reset;
  

  proc8: process(clk)
    variable temp : boolean;
    variable temp1 : unsigned(4 downto 0);
    variable temp2 : boolean;
    variable next_cnt : unsigned(4 downto 0);
    variable temp3 : boolean;
    variable temp4 : boolean;
    variable temp5 : boolean;
    variable temp6 : boolean;
    variable temp7 : boolean;
    variable temp8 : boolean;
    variable temp9 : boolean;
    variable temp10 : boolean;
    variable temp11 : boolean;
    variable temp12 : boolean;
  begin
    if rising_edge(clk) then
      temp := combined_reset8 = '1';
      if temp then
        toggle_8_counter <= unsigned'("00000");
        toggle_8_state <= '0';
        toggle_8_rising <= '0';
        toggle_8_falling <= '0';
        buffer_callback_rising <= '0';
        buffer_callback_falling <= '0';
      else
        buffer_callback_rising <= '0';
        buffer_callback_falling <= '0';
        temp1 := (toggle_8_counter) + (1);
        temp2 := (toggle_8_counter = 19);
        case temp2 is
          when true =>
            next_cnt := unsigned'("00000");
          when others =>
            next_cnt := temp1;
        end case;
        toggle_8_counter <= next_cnt;
        temp3 := (next_cnt < 10);
        temp4 := not (temp3);
        toggle_8_state <= cohdl_bool_to_std_logic(temp4);
        temp5 := toggle_8_state = '1';
        temp6 := not (temp5);
        temp7 := temp6 and temp4;
        temp8 := not (temp4);
        temp9 := toggle_8_state = '1';
        temp10 := temp9 and temp8;
        toggle_8_rising <= cohdl_bool_to_std_logic(temp7);
        toggle_8_falling <= cohdl_bool_to_std_logic(temp10);
        temp11 := temp7;
        if temp11 then
          buffer_callback_rising <= '1';
        end if;
        temp12 := temp10;
        if temp12 then
          buffer_callback_falling <= '1';
        end if;
      end if;
    end if;
  end process;
  
  -- CONCURRENT BLOCK (logic)
  toggle_reset <= reset_toggle;
  
  -- CONCURRENT BLOCK (logic)
  buffer_a(0) <= toggle_state;
  buffer_a(1) <= toggle_rising;
  buffer_a(2) <= toggle_falling;
  
  -- CONCURRENT BLOCK (logic)
  toggle_1_reset <= reset_toggle;
  
  -- CONCURRENT BLOCK (logic)
  buffer_b(0) <= toggle_1_state;
  buffer_b(1) <= toggle_1_rising;
  buffer_b(2) <= toggle_1_falling;
  
  -- CONCURRENT BLOCK (logic)
  toggle_2_reset <= reset_toggle;
  
  -- CONCURRENT BLOCK (logic)
  buffer_c(0) <= toggle_2_state;
  buffer_c(1) <= toggle_2_rising;
  buffer_c(2) <= toggle_2_falling;
  
  -- CONCURRENT BLOCK (logic)
  toggle_3_reset <= reset_toggle;
  
  -- CONCURRENT BLOCK (logic)
  buffer_d(0) <= toggle_3_state;
  buffer_d(1) <= toggle_3_rising;
  buffer_d(2) <= toggle_3_falling;
  
  -- CONCURRENT BLOCK (logic)
  toggle_4_reset <= reset_toggle;
  
  -- CONCURRENT BLOCK (logic)
  buffer_e(0) <= toggle_4_state;
  buffer_e(1) <= toggle_4_rising;
  buffer_e(2) <= toggle_4_falling;
  
  -- CONCURRENT BLOCK (logic)
  toggle_5_reset <= reset_toggle;
  
  -- CONCURRENT BLOCK (logic)
  buffer_f(0) <= toggle_5_state;
  buffer_f(1) <= toggle_5_rising;
  buffer_f(2) <= toggle_5_falling;
  
  -- CONCURRENT BLOCK (logic)
  toggle_6_reset <= reset_toggle;
  
  -- CONCURRENT BLOCK (logic)
  buffer_g(0) <= toggle_6_state;
  buffer_g(1) <= toggle_6_rising;
  buffer_g(2) <= toggle_6_falling;
  
  -- CONCURRENT BLOCK (logic)
  toggle_7_reset <= reset_toggle;
  
  -- CONCURRENT BLOCK (logic)
  buffer_h(0) <= toggle_7_state;
  buffer_h(1) <= toggle_7_rising;
  buffer_h(2) <= toggle_7_falling;
  
  -- CONCURRENT BLOCK (logic)
  toggle_8_reset <= reset_toggle;
  
  -- CONCURRENT BLOCK (logic)
  buffer_i(0) <= toggle_8_state;
  buffer_i(1) <= toggle_8_rising;
  buffer_i(2) <= toggle_8_falling;
end architecture arch_test_toggle_signal_01;