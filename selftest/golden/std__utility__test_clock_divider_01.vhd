library ieee;
use ieee.std_logic_1164.all;
use ieee.numeric_std.all;


entity test_clock_divider_01 is
  port (
    clk : in std_logic;
    enable : in std_logic;
    a : out std_logic_vector(2 downto 0);
    b : out std_logic_vector(2 downto 0);
    c : out std_logic_vector(2 downto 0);
    d : out std_logic_vector(2 downto 0);
    e : out std_logic_vector(2 downto 0);
    f : out std_logic_vector(2 downto 0);
    g : out std_logic_vector(2 downto 0);
    h : out std_logic_vector(2 downto 0);
    i : out std_logic_vector(2 downto 0);
    j : out std_logic_vector(2 downto 0);
    dbg : in std_logic_vector(2 downto 0);
    callback_rising : out std_logic;
    callback_falling : out std_logic
    );
end test_clock_divider_01;


architecture arch_test_clock_divider_01 of test_clock_divider_01 is
  function cohdl_bool_to_std_logic(inp: boolean) return std_logic is
  begin
    if inp then
      return('1');
    else
      return('0');
    end if;
  end function cohdl_bool_to_std_logic;
  signal buffer_a : std_logic_vector(2 downto 0);
  signal buffer_b : std_logic_vector(2 downto 0);
  signal buffer_c : std_logic_vector(2 downto 0);
  signal buffer_d : std_logic_vector(2 downto 0);
  signal buffer_e : std_logic_vector(2 downto 0);
  signal buffer_f : std_logic_vector(2 downto 0);
  signal buffer_g : std_logic_vector(2 downto 0);
  signal buffer_h : std_logic_vector(2 downto 0);
  signal buffer_i : std_logic_vector(2 downto 0);
  signal buffer_j : std_logic_vector(2 downto 0);
  signal buffer_callback_rising : std_logic := '0';
  signal buffer_callback_falling : std_logic := '0';
  signal combined_reset : std_logic;
  signal clkdiv_reset : std_logic := '0';
  signal clkdiv_counter : unsigned(0 downto 0) := unsigned'("0");
  signal clkdiv_state : std_logic := '0';
  signal clkdiv_rising : std_logic := '0';
  signal clkdiv_falling : std_logic := '0';
  signal combined_reset1 : std_logic;
  signal clkdiv_1_reset : std_logic := '0';
  signal clkdiv_1_counter : unsigned(2 downto 0) := unsigned'("000");
  signal clkdiv_1_state : std_logic := '0';
  signal clkdiv_1_rising : std_logic := '0';
  signal clkdiv_1_falling : std_logic := '0';
  signal combined_reset2 : std_logic;
  signal clkdiv_2_reset : std_logic := '0';
  signal clkdiv_2_counter : unsigned(2 downto 0) := unsigned'("000");
  signal clkdiv_2_state : std_logic := '1';
  signal clkdiv_2_rising : std_logic := '0';
  signal clkdiv_2_falling : std_logic := '0';
  signal combined_reset3 : std_logic;
  signal clkdiv_3_reset : std_logic := '0';
  signal clkdiv_3_counter : unsigned(2 downto 0) := unsigned'("100");
  signal clkdiv_3_state : std_logic := '0';
  signal clkdiv_3_rising : std_logic := '0';
  signal clkdiv_3_falling : std_logic := '0';
  signal combined_reset4 : std_logic;
  signal clkdiv_4_reset : std_logic := '0';
  signal clkdiv_4_counter : unsigned(2 downto 0) := unsigned'("100");
  signal clkdiv_4_state : std_logic := '1';
  signal clkdiv_4_rising : std_logic := '0';
  signal clkdiv_4_falling : std_logic := '0';
  signal combined_reset5 : std_logic;
  signal clkdiv_5_reset : std_logic := '1';
  signal clkdiv_5_counter : unsigned(2 downto 0) := unsigned'("000");
  signal clkdiv_5_state : std_logic := '0';
  signal clkdiv_5_rising : std_logic := '0';
  signal clkdiv_5_falling : std_logic := '0';
  signal combined_reset6 : std_logic;
  signal clkdiv_6_reset : std_logic := '1';
  signal clkdiv_6_counter : unsigned(2 downto 0) := unsigned'("000");
  signal clkdiv_6_state : std_logic := '1';
  signal clkdiv_6_rising : std_logic := '0';
  signal clkdiv_6_falling : std_logic := '0';
  signal combined_reset7 : std_logic;
  signal clkdiv_7_reset : std_logic := '1';
  signal clkdiv_7_counter : unsigned(2 downto 0) := unsigned'("100");
  signal clkdiv_7_state : std_logic := '0';
  signal clkdiv_7_rising : std_logic := '0';
  signal clkdiv_7_falling : std_logic := '0';
  signal combined_reset8 : std_logic;
  signal clkdiv_8_reset : std_logic := '0';
  signal clkdiv_8_counter : unsigned(0 downto 0) := unsigned'("0");
  signal clkdiv_8_state : std_logic := '0';
  signal clkdiv_8_rising : std_logic := '0';
  signal clkdiv_8_falling : std_logic := '0';
  signal combined_reset9 : std_logic;
  signal clkdiv_9_reset : std_logic := '0';
  signal clkdiv_9_counter : unsigned(0 downto 0) := unsigned'("0");
  signal clkdiv_9_state : std_logic := '1';
  signal clkdiv_9_rising : std_logic := '0';
  signal clkdiv_9_falling : std_logic := '0';
begin
  
  -- CONCURRENT BLOCK (buffer assignment)
  a <= buffer_a;
  b <= buffer_b;
  c <= buffer_c;
  d <= buffer_d;
  e <= buffer_e;
  f <= buffer_f;
  g <= buffer_g;
  h <= buffer_h;
  i <= buffer_i;
  j <= buffer_j;
  callback_rising <= buffer_callback_rising;
  callback_falling <= buffer_callback_falling;
  
  -- CONCURRENT BLOCK (logic)
  combined_reset <= clkdiv_reset;
  

  proc: process(clk)
    variable temp : boolean;
    variable temp1 : unsigned(0 downto 0);
    variable temp2 : boolean;
    variable next_cnt : unsigned(0 downto 0);
    variable temp3 : boolean;
    variable temp4 : boolean;
    variable temp5 : boolean;
    variable temp6 : boolean;
    variable temp7 : boolean;
    variable temp8 : boolean;
    variable temp9 : boolean;
    variable temp10 : boolean;
  begin
    if rising_edge(clk) then
      temp := combined_reset = '1';
      if temp then
        clkdiv_counter <= unsigned'("0");
        clkdiv_state <= '0';
        clkdiv_rising <= '0';
        clkdiv_falling <= '0';
      else
        temp1 := (clkdiv_counter) + (1);
        temp2 := (clkdiv_counter = 1);
        case temp2 is
          when true =>
            next_cnt := unsigned'("0");
          when others =>
            next_cnt := temp1;
        end case;
        clkdiv_counter <= next_cnt;
        temp3 := (next_cnt = 0);
        case temp3 is
          when true =>
            temp4 := true;
          when others =>
            temp4 := false;
        end case;
        clkdiv_state <= cohdl_bool_to_std_logic(temp4);
        temp5 := clkdiv_state = '1';
        temp6 := not (temp5);
        temp7 := temp6 and temp4;
        temp8 := not (temp4);
        temp9 := clkdiv_state = '1';
        temp10 := temp9 and temp8;
        clkdiv_rising <= cohdl_bool_to_std_logic(temp7);
        clkdiv_falling <= cohdl_bool_to_std_logic(temp10);
      end if;
    end if;
  end process;
  
  -- CONCURRENT BLOCK (logic)
  combined_reset1 <= clkdiv_1_reset;
  

  proc1: process(clk)
    variable temp : boolean;
    variable temp1 : unsigned(2 downto 0);
    variable temp2 : boolean;
    variable next_cnt : unsigned(2 downto 0);
    variable temp3 : boolean;
    variable temp4 : boolean;
    variable temp5 : boolean;
    variable temp6 : boolean;
    variable temp7 : boolean;
    variable temp8 : boolean;
    variable temp9 : boolean;
    variable temp10 : boolean;
    variable temp11 : boolean;
    variable temp12 : boolean;
  begin
    if rising_edge(clk) then
      temp := combined_reset1 = '1';
      if temp then
        clkdiv_1_counter <= unsigned'("000");
        clkdiv_1_state <= '0';
        clkdiv_1_rising <= '0';
        clkdiv_1_falling <= '0';
        buffer_callback_rising <= '0';
        buffer_callback_falling <= '0';
      else
        buffer_callback_rising <= '0';
        buffer_callback_falling <= '0';
        temp1 := (clkdiv_1_counter) + (1);
        temp2 := (clkdiv_1_counter = 4);
        case temp2 is
          when true =>
            next_cnt := unsigned'("000");
          when others =>
            next_cnt := temp1;
        end case;
        clkdiv_1_counter <= next_cnt;
        temp3 := (next_cnt = 0);
        case temp3 is
          when true =>
            temp4 := true;
          when others =>
            temp4 := false;
        end case;
        clkdiv_1_state <= cohdl_bool_to_std_logic(temp4);
        temp5 := clkdiv_1_state = '1';
        temp6 := not (temp5);
        temp7 := temp6 and temp4;
        temp8 := not (temp4);
        temp9 := clkdiv_1_state = '1';
        temp10 := temp9 and temp8;
        clkdiv_1_rising <= cohdl_bool_to_std_logic(temp7);
        clkdiv_1_falling <= cohdl_bool_to_std_logic(temp10);
        temp11 := temp7;
        if temp11 then
          buffer_callback_rising <= '1';
        end if;
        temp12 := temp10;
        if temp12 then
          buffer_callback_falling <= '1';
        end if;
      end if;
    end if;
  end process;
  
  -- CONCURRENT BLOCK (logic)
  combined_reset2 <= clkdiv_2_reset;
  

  proc2: process(clk)
    variable temp : boolean;
    variable temp1 : unsigned(2 downto 0);
    variable temp2 : boolean;
    variable next_cnt : unsigned(2 downto 0);
    variable temp3 : boolean;
    variable temp4 : boolean;
    variable temp5 : boolean;
    variable temp6 : boolean;
    variable temp7 : boolean;
    variable temp8 : boolean;
    variable temp9 : boolean;
    variable temp10 : boolean;
  begin
    if rising_edge(clk) then
      temp := combined_reset2 = '1';
      if temp then
        clkdiv_2_counter <= unsigned'("000");
        clkdiv_2_state <= '1';
        clkdiv_2_rising <= '0';
        clkdiv_2_falling <= '0';
      else
        temp1 := (clkdiv_2_counter) + (1);
        temp2 := (clkdiv_2_counter = 4);
        case temp2 is
          when true =>
            next_cnt := unsigned'("000");
          when others =>
            next_cnt := temp1;
        end case;
        clkdiv_2_counter <= next_cnt;
        temp3 := (next_cnt = 0);
        case temp3 is
          when true =>
            temp4 := false;
          when others =>
            temp4 := true;
        end case;
        clkdiv_2_state <= cohdl_bool_to_std_logic(temp4);
        temp5 := clkdiv_2_state = '1';
        temp6 := not (temp5);
        temp7 := temp6 and temp4;
        temp8 := not (temp4);
        temp9 := clkdiv_2_state = '1';
        temp10 := temp9 and temp8;
        clkdiv_2_rising <= cohdl_bool_to_std_logic(temp7);
        clkdiv_2_falling <= cohdl_bool_to_std_logic(temp10);
      end if;
    end if;
  end process;
  
  -- CONCURRENT BLOCK (logic)
  combined_reset3 <= clkdiv_3_reset;
  

  proc3: process(clk)
    variable temp : boolean;
    variable temp1 : unsigned(2 downto 0);
    variable temp2 : boolean;
    variable next_cnt : unsigned(2 downto 0);
    variable temp3 : boolean;
    variable temp4 : boolean;
    variable temp5 : boolean;
    variable temp6 : boolean;
    variable temp7 : boolean;
    variable temp8 : boolean;
    variable temp9 : boolean;
    variable temp10 : boolean;
  begin
    if rising_edge(clk) then
      temp := combined_reset3 = '1';
      if temp then
        clkdiv_3_counter <= unsigned'("100");
        clkdiv_3_state <= '0';
        clkdiv_3_rising <= '0';
        clkdiv_3_falling <= '0';
        clkdiv_3_counter <= unsigned'("100");
      else
        temp1 := (clkdiv_3_counter) + (1);
        temp2 := (clkdiv_3_counter = 4);
        case temp2 is
          when true =>
            next_cnt := unsigned'("000");
          when others =>
            next_cnt := temp1;
        end case;
        clkdiv_3_counter <= next_cnt;
        temp3 := (next_cnt = 0);
        case temp3 is
          when true =>
            temp4 := true;
          when others =>
            temp4 := false;
        end case;
        clkdiv_3_state <= cohdl_bool_to_std_logic(temp4);
        temp5 := clkdiv_3_state = '1';
        temp6 := not (temp5);
        temp7 := temp6 and temp4;
        temp8 := not (temp4);
        temp9 := clkdiv_3_state = '1';
        temp10 := temp9 and temp8;
        clkdiv_3_rising <= cohdl_bool_to_std_logic(temp7);
        clkdiv_3_falling <= cohdl_bool_to_std_logic(temp10);
      end if;
    end if;
  end process;
  
  -- CONCURRENT BLOCK (logic)
  combined_reset4 <= clkdiv_4_reset;
  

  proc4: process(clk)
    variable temp : boolean;
    variable temp1 : unsigned(2 downto 0);
    variable temp2 : boolean;
    variable next_cnt : unsigned(2 downto 0);
    variable temp3 : boolean;
    variable temp4 : boolean;
    variable temp5 : boolean;
    variable temp6 : boolean;
    variable temp7 : boolean;
    variable temp8 : boolean;
    variable temp9 : boolean;
    variable temp10 : boolean;
  begin
    if rising_edge(clk) then
      temp := combined_reset4 = '1';
      if temp then
        clkdiv_4_counter <= unsigned'("100");
        clkdiv_4_state <= '1';
        clkdiv_4_rising <= '0';
        clkdiv_4_falling <= '0';
        clkdiv_4_counter <= unsigned'("100");
      else
        temp1 := (clkdiv_4_counter) + (1);
        temp2 := (clkdiv_4_counter = 4);
        case temp2 is
          when true =>
            next_cnt := unsigned'("000");
          when others =>
            next_cnt := temp1;
        end case;
        clkdiv_4_counter <= next_cnt;
        temp3 := (next_cnt = 0);
        case temp3 is
          when true =>
            temp4 := false;
          when others =>
            temp4 := true;
        end case;
        clkdiv_4_state <= cohdl_bool_to_std_logic(temp4);
        temp5 := clkdiv_4_state = '1';
        temp6 := not (temp5);
        temp7 := temp6 and temp4;
        temp8 := not (temp4);
        temp9 := clkdiv_4_state = '1';
        temp10 := temp9 and temp8;
        clkdiv_4_rising <= cohdl_bool_to_std_logic(temp7);
        clkdiv_4_falling <= cohdl_bool_to_std_logic(temp10);
      end if;
    end if;
  end process;
  
  -- CONCURRENT BLOCK (logic)
  combined_reset5 <= clkdiv_5_reset;
  

  proc5: process(clk)
    variable temp : boolean;
    variable temp1 : unsigned(2 downto 0);
    variable temp2 : boolean;
    variable next_cnt : unsigned(2 downto 0);
    variable temp3 : boolean;
    variable temp4 : boolean;
    variable temp5 : boolean;
    variable temp6 : boolean;
    variable temp7 : boolean;
    variable temp8 : boolean;
    variable temp9 : boolean;
    variable temp10 : boolean;
  begin
    if rising_edge(clk) then
      temp := combined_reset5 = '1';
      if temp then
        clkdiv_5_counter <= unsigned'("000");
        clkdiv_5_state <= '0';
        clkdiv_5_rising <= '0';
        clkdiv_5_falling <= '0';
      else
        temp1 := (clkdiv_5_counter) + (1);
        temp2 := (clkdiv_5_counter = 4);
        case temp2 is
          when true =>
            next_cnt := unsigned'("000");
          when others =>
            next_cnt := temp1;
        end case;
        clkdiv_5_counter <= next_cnt;
        temp3 := (next_cnt = 0);
        case temp3 is
          when true =>
            temp4 := true;
          when others =>
            temp4 := false;
        end case;
        clkdiv_5_state <= cohdl_bool_to_std_logic(temp4);
        temp5 := clkdiv_5_state = '1';
        temp6 := not (temp5);
        temp7 := temp6 and temp4;
        temp8 := not (temp4);
        temp9 := clkdiv_5_state = '1';
        temp10 := temp9 and temp8;
        clkdiv_5_rising <= cohdl_bool_to_std_logic(temp7);
        clkdiv_5_falling <= cohdl_bool_to_std_logic(temp10);
      end if;
    end if;
  end process;
  
  -- CONCURRENT BLOCK (logic)
  combined_reset6 <= clkdiv_6_reset;
  

  proc6: process(clk)
    variable temp : boolean;
    variable temp1 : unsigned(2 downto 0);
    variable temp2 : boolean;
    variable next_cnt : unsigned(2 downto 0);
    variable temp3 : boolean;
    variable temp4 : boolean;
    variable temp5 : boolean;
    variable temp6 : boolean;
    variable temp7 : boolean;
    variable temp8 : boolean;
    variable temp9 : boolean;
    variable temp10 : boolean;
  begin
    if rising_edge(clk) then
      temp := combined_reset6 = '1';
      if temp then
        clkdiv_6_counter <= unsigned'("000");
        clkdiv_6_state <= '1';
        clkdiv_6_rising <= '0';
        clkdiv_6_falling <= '0';
      else
        temp1 := (clkdiv_6_counter) + (1);
        temp2 := (clkdiv_6_counter = 4);
        case temp2 is
          when true =>
            next_cnt := unsigned'("000");
          when others =>
            next_cnt := temp1;
        end case;
        clkdiv_6_counter <= next_cnt;
        temp3 := (next_cnt = 0);
        case temp3 is
          when true =>
            temp4 := false;
          when others =>
            temp4 := true;
        end case;
        clkdiv_6_state <= cohdl_bool_to_std_logic(temp4);
        temp5 := clkdiv_6_state = '1';
        temp6 := not (temp5);
        temp7 := temp6 and temp4;
        temp8 := not (temp4);
        temp9 := clkdiv_6_state = '1';
        temp10 := temp9 and temp8;
        clkdiv_6_rising <= cohdl_bool_to_std_logic(temp7);
        clkdiv_6_falling <= cohdl_bool_to_std_logic(temp10);
      end if;
    end if;
  end process;
  
  -- CONCURRENT BLOCK (logic)
  combined_reset7 <= clkdiv_7_reset;
  

  proc7: process(clk)
    variable temp : boolean;
    variable temp1 : unsigned(2 downto 0);
    variable temp2 : boolean;
    variable next_cnt : unsigned(2 downto 0);
    variable temp3 : boolean;
    variable temp4 : boolean;
    variable temp5 : boolean;
    variable temp6 : boolean;
    variable temp7 : boolean;
    variable temp8 : boolean;
    variable temp9 : boolean;
    variable temp10 : boolean;
  begin
    if rising_edge(clk) then
      temp := combined_reset7 = '1';
      if temp then
        clkdiv_7_counter <= unsigned'("100");
        clkdiv_7_state <= '0';
        clkdiv_7_rising <= '0';
        clkdiv_7_falling <= '0';
        clkdiv_7_counter <= unsigned'("100");
      else
        temp1 := (clkdiv_7_counter) + (1);
        temp2 := (clkdiv_7_counter = 4);
        case temp2 is
          when true =>
            next_cnt := unsigned'("000");
          when others =>
            next_cnt := temp1;
        end case;
        clkdiv_7_counter <= next_cnt;
        temp3 := (next_cnt = 0);
        case temp3 is
          when true =>
            temp4 := true;
          when others =>
            temp4 := false;
        end case;
        clkdiv_7_state <= cohdl_bool_to_std_logic(temp4);
        temp5 := clkdiv_7_state = '1';
        temp6 := not (temp5);
        temp7 := temp6 and temp4;
        temp8 := not (temp4);
        temp9 := clkdiv_7_state = '1';
        temp10 := temp9 and temp8;
        clkdiv_7_rising <= cohdl_bool_to_std_logic(temp7);
        clkdiv_7_falling <= cohdl_bool_to_std_logic(temp10);
      end if;
    end if;
  end process;
  
  -- CONCURRENT BLOCK (logic)
  combined_reset8 <= clkdiv_8_reset;
  

  proc8: process(clk)
    variable temp : boolean;
    variable temp1 : unsigned(0 downto 0);
    variable temp2 : boolean;
    variable next_cnt : unsigned(0 downto 0);
    variable temp3 : boolean;
    variable temp4 : boolean;
    variable temp5 : boolean;
    variable temp6 : boolean;
    variable temp7 : boolean;
    variable temp8 : boolean;
    variable temp9 : boolean;
    variable temp10 : boolean;
  begin
    if rising_edge(clk) then
      temp := combined_reset8 = '1';
      if temp then
        clkdiv_8_counter <= unsigned'("0");
        clkdiv_8_state <= '0';
        clkdiv_8_rising <= '0';
        clkdiv_8_falling <= '0';
      else
        temp1 := (clkdiv_8_counter) + (1);
        temp2 := (clkdiv_8_counter = 1);
        case temp2 is
          when true =>
            next_cnt := unsigned'("0");
          when others =>
            next_cnt := temp1;
        end case;
        clkdiv_8_counter <= next_cnt;
        temp3 := (next_cnt = 0);
        case temp3 is
          when true =>
            temp4 := true;
          when others =>
            temp4 := false;
        end case;
        clkdiv_8_state <= cohdl_bool_to_std_logic(temp4);
        temp5 := clkdiv_8_state = '1';
        temp6 := not (temp5);
        temp7 := temp6 and temp4;
        temp8 := not (temp4);
        temp9 := clkdiv_8_state = '1';
        temp10 := temp9 and temp8;
        clkdiv_8_rising <= cohdl_bool_to_std_logic(temp7);
        clkdiv_8_falling <= cohdl_bool_to_std_logic(temp10);
      end if;
    end if;
  end process;
  
  -- CONCURRENT BLOCK (logic)
  combined_reset9 <= clkdiv_9_reset;
  

  proc9: process(clk)
    variable temp : boolean;
    variable temp1 : unsigned(0 downto 0);
    variable temp2 : boolean;
    variable next_cnt : unsigned(0 downto 0);
    variable temp3 : boolean;
    variable temp4 : boolean;
    variable temp5 : boolean;
    variable temp6 : boolean;
    variable temp7 : boolean;
    variable temp8 : boolean;
    variable temp9 : boolean;
    variable temp10 : boolean;
  begin
    if rising_edge(clk) then
      temp := combined_reset9 = '1';
      if temp then
        clkdiv_9_counter <= unsigned'("0");
        clkdiv_9_state <= '1';
        clkdiv_9_rising <= '0';
        clkdiv_9_falling <= '0';
      else
        temp1 := (clkdiv_9_counter) + (1);
        temp2 := (clkdiv_9_counter = 1);
        case temp2 is
          when true =>
            next_cnt := unsigned'("0");
          when others =>
            next_cnt := temp1;
        end case;
        clkdiv_9_counter <= next_cnt;
        temp3 := (next_cnt = 0);
        case temp3 is
          when true =>
            temp4 := false;
          when others =>
            temp4 := true;
        end case;
        clkdiv_9_state <= cohdl_bool_to_std_logic(temp4);
        temp5 := clkdiv_9_state = '1';
        temp6 := not (temp5);
        temp7 := temp6 and temp4;
        temp8 := not (temp4);
        temp9 := clkdiv_9_state = '1';
        temp10 := temp9 and temp8;
        clkdiv_9_rising <= cohdl_bool_to_std_logic(temp7);
        clkdiv_9_falling <= cohdl_bool_to_std_logic(temp10);
      end if;
    end if;
  end process;
  

  logic_enable_f: process(clk)
    variable temp : boolean;
  begin
    if falling_edge(clk) then
      temp := enable = '1';
      if temp then
        clkdiv_5_reset <= '0';
        clkdiv_6_reset <= '0';
        clkdiv_7_reset <= '0';
      else
        clkdiv_5_reset <= '1';
        clkdiv_6_reset <= '1';
        clkdiv_7_reset <= '1';
      end if;
    end if;
  end process;
  
  -- CONCURRENT BLOCK (logic)
  buffer_a(0) <= clkdiv_state;
  buffer_a(1) <= clkdiv_rising;
  buffer_a(2) <= clkdiv_falling;
  
  -- CONCURRENT BLOCK (logic)
  buffer_b(0) <= clkdiv_1_state;
  buffer_b(1) <= clkdiv_1_rising;
  buffer_b(2) <= clkdiv_1_falling;
  
  -- CONCURRENT BLOCK (logic)
  buffer_c(0) <= clkdiv_2_state;
  buffer_c(1) <= clkdiv_2_rising;
  buffer_c(2) <= clkdiv_2_falling;
  
  -- CONCURRENT BLOCK (logic)
  buffer_d(0) <= clkdiv_3_state;
  buffer_d(1) <= clkdiv_3_rising;
  buffer_d(2) <= clkdiv_3_falling;
  
  -- CONCURRENT BLOCK (logic)
  buffer_e(0) <= clkdiv_4_state;
  buffer_e(1) <= clkdiv_4_rising;
  buffer_e(2) <= clkdiv_4_falling;
  
  -- CONCURRENT BLOCK (logic)
  buffer_f(0) <= clkdiv_5_state;
  buffer_f(1) <= clkdiv_5_rising;
  buffer_f(2) <= clkdiv_5_falling;
  
  -- CONCURRENT BLOCK (logic)
  buffer_g(0) <= clkdiv_6_state;
  buffer_g(1) <= clkdiv_6_rising;
  buffer_g(2) <= clkdiv_6_falling;
  
  -- CONCURRENT BLOCK (logic)
  buffer_h(0) <= clkdiv_7_state;
  buffer_h(1) <= clkdiv_7_rising;
  buffer_h(2) <= clkdiv_7_falling;
  
  -- CONCURRENT BLOCK (logic)
  buffer_i(0) <= clkdiv_8_state;
  buffer_i(1) <= clkdiv_8_rising;
  buffer_i(2) <= clkdiv_8_falling;
  
  -- CONCURRENT BLOCK (logic)
  buffer_j(0) <= clkdiv_9_state;
  buffer_j(1) <= clkdiv_9_rising;
  buffer_j(2) <= clkdiv_9_falling;
end architecture arch_test_clock_divider_01;