library ieee;
use ieee.std_logic_1164.all;
use ieee.numeric_std.all;


entity test_while_return_05 is
  port (
    clk : in std_logic;
    reset : in std_logic;
    state : out unsigned(3 downto 0);
    cnt_return : out unsigned(3 downto 0);
    do_return : in unsigned(1 downto 0)
    );
end test_while_return_05;


architecture arch_test_while_return_05 of test_while_return_05 is
  function cohdl_bool_to_std_logic(inp: boolean) return std_logic is
  begin
    if inp then
      return('1');
    else
      return('0');
    end if;
  end function cohdl_bool_to_std_logic;
  signal buffer_state : unsigned(3 downto 0) := unsigned'("0000");
  signal buffer_cnt_return : unsigned(3 downto 0) := unsigned'("0000");
  type state_proc is (state_0, state_1, state_2, state_3);
  signal s_proc : state_proc := state_0;
begin
  
  -- CONCURRENT BLOCK (buffer assignment)
  state <= buffer_state;
  cnt_return <= buffer_cnt_return;
  

  proc: process(clk)
    variable temp : boolean;
    variable cnt : unsigned(3 downto 0);
    variable temp1 : boolean;
    variable temp2 : unsigned(3 downto 0);
    variable temp3 : boolean;
    variable temp4 : unsigned(3 downto 0);
    variable temp5 : boolean;
    variable value : unsigned(3 downto 0);
    variable temp6 : boolean;
    variable temp7 : unsigned(3 downto 0);
    variable value1 : unsigned(3 downto 0);
  begin
    if rising_edge(clk) then
      temp := reset = '1';
      if temp then
        s_proc <= state_0;
        buffer_state <= unsigned'("0000");
        buffer_cnt_return <= unsigned'("0000");
      else
        case s_proc is
          when state_0 =>
            s_proc <= state_1;
            cnt := unsigned'("1000");
          when state_1 =>
            temp1 := (cnt /= 0);
            if temp1 then
              temp2 := (cnt) - (1);
              cnt := temp2;
              buffer_state <= cnt;
              temp3 := (do_return = 0);
              if temp3 then
                s_proc <= state_0;
                temp4 := (buffer_cnt_return) + (1);
                buffer_cnt_return <= temp4;
              else
                temp5 := (do_return = 1);
                if temp5 then
                  s_proc <= state_2;
                  value := (buffer_cnt_return) + (4);
                  buffer_cnt_return <= value;
                else
                  temp6 := (do_return = 2);
                  if temp6 then
                    s_proc <= state_0;
                    temp7 := (buffer_cnt_return) + (2);
                    buffer_cnt_return <= temp7;
                  else
                    s_proc <= state_3;
                    value1 := (buffer_cnt_return) + (3);
                    buffer_cnt_return <= value1;
                  end if;
                end if;
              end if;
            else
              s_proc <= state_0;
            end if;
          when state_2 =>
            temp1 := (cnt /= 0);
            if temp1 then
              temp2 := (cnt) - (1);
              cnt := temp2;
              buffer_state <= cnt;
              temp3 := (do_return = 0);
              if temp3 then
                s_proc <= state_0;
                temp4 := (buffer_cnt_return) + (1);
                buffer_cnt_return <= temp4;
              else
                temp5 := (do_return = 1);
                if temp5 then
                  s_proc <= state_2;
                  value := (buffer_cnt_return) + (4);
                  buffer_cnt_return <= value;
                else
                  temp6 := (do_return = 2);
                  if temp6 then
                    s_proc <= state_0;
                    temp7 := (buffer_cnt_return) + (2);
                    buffer_cnt_return <= temp7;
                  else
                    s_proc <= state_3;
                    value1 := (buffer_cnt_return) + (3);
                    buffer_cnt_return <= value1;
                  end if;
                end if;
              end if;
            else
              s_proc <= state_0;
            end if;
          when state_3 =>
            s_proc <= state_0;
          when others =>
            null;
        end case;
      end if;
    end if;
  end process;
end architecture arch_test_while_return_05;