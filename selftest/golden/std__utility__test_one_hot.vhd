library ieee;
use ieee.std_logic_1164.all;
use ieee.numeric_std.all;


entity test_one_hot is
  port (
    pos_a : in unsigned(7 downto 0);
    pos_b : in unsigned(7 downto 0);
    pos_c : in unsigned(7 downto 0);
    pos_d : in unsigned(7 downto 0);
    out_a : out std_logic_vector(0 downto 0);
    out_b : out std_logic_vector(1 downto 0);
    out_c : out std_logic_vector(7 downto 0);
    out_d : out std_logic_vector(99 downto 0);
    val_a : in unsigned(0 downto 0);
    val_b : in unsigned(1 downto 0);
    val_c : in unsigned(7 downto 0);
    chk_a : out boolean;
    chk_b : out boolean;
    chk_c : out boolean
    );
end test_one_hot;


architecture arch_test_one_hot of test_one_hot is
  function cohdl_bool_to_std_logic(inp: boolean) return std_logic is
  begin
    if inp then
      return('1');
    else
      return('0');
    end if;
  end function cohdl_bool_to_std_logic;
  signal buffer_out_a : std_logic_vector(0 downto 0);
  signal buffer_out_b : std_logic_vector(1 downto 0);
  signal buffer_out_c : std_logic_vector(7 downto 0);
  signal buffer_out_d : std_logic_vector(99 downto 0);
  signal buffer_chk_a : boolean;
  signal buffer_chk_b : boolean;
  signal buffer_chk_c : boolean;
  signal temp : boolean;
  signal temp1 : boolean;
  signal temp2 : boolean;
  signal temp3 : unsigned(0 downto 0);
  signal temp4 : boolean;
  signal temp5 : boolean;
  signal temp6 : boolean;
  signal temp7 : unsigned(1 downto 0);
  signal temp8 : boolean;
  signal temp9 : boolean;
  signal temp10 : boolean;
  signal temp11 : unsigned(7 downto 0);
  signal temp12 : boolean;
  signal temp13 : boolean;
  signal temp14 : boolean;
  signal temp15 : unsigned(99 downto 0);
  signal temp16 : boolean;
  signal temp17 : boolean;
  signal temp18 : boolean;
  signal arg : boolean;
  signal arg1 : boolean;
  signal arg2 : boolean;
begin
  
  -- CONCURRENT BLOCK (buffer assignment)
  out_a <= buffer_out_a;
  out_b <= buffer_out_b;
  out_c <= buffer_out_c;
  out_d <= buffer_out_d;
  chk_a <= buffer_chk_a;
  chk_b <= buffer_chk_b;
  chk_c <= buffer_chk_c;
  
  -- CONCURRENT BLOCK (logic)
  temp <= (pos_a >= 0);
  temp1 <= (pos_a < 1);
  temp2 <= temp and temp1;
  assert temp2 report "bit_pos out of range";
  temp3 <= shift_left(unsigned'("1"), to_integer(pos_a));
  buffer_out_a <= std_logic_vector(temp3);
  temp4 <= (pos_b >= 0);
  temp5 <= (pos_b < 2);
  temp6 <= temp4 and temp5;
  assert temp6 report "bit_pos out of range";
  temp7 <= shift_left(unsigned'("01"), to_integer(pos_b));
  buffer_out_b <= std_logic_vector(temp7);
  temp8 <= (pos_c >= 0);
  temp9 <= (pos_c < 8);
  temp10 <= temp8 and temp9;
  assert temp10 report "bit_pos out of range";
  temp11 <= shift_left(unsigned'("00000001"), to_integer(pos_c));
  buffer_out_c <= std_logic_vector(temp11);
  temp12 <= (pos_d >= 0);
  temp13 <= (pos_d < 100);
  temp14 <= temp12 and temp13;
  assert temp14 report "bit_pos out of range";
  temp15 <= shift_left(unsigned'("0000000000000000000000000000000000000000000000000000000000000000000000000000000000000000000000000001"), to_integer(pos_d));
  buffer_out_d <= std_logic_vector(temp15);
  temp16 <= (pos_a >= 0);
  temp17 <= (pos_a < 81);
  temp18 <= temp16 and temp17;
  assert temp18 report "check, that assertions work";
  with val_a select arg <=
    true when unsigned'("1"),
    false when others;
  buffer_chk_a <= arg;
  with val_b select arg1 <=
    true when unsigned'("01"),
    true when unsigned'("10"),
    false when others;
  buffer_chk_b <= arg1;
  with val_c select arg2 <=
    true when unsigned'("00000001"),
    true when unsigned'("00000010"),
    true when unsigned'("00000100"),
    true when unsigned'("00001000"),
    true when unsigned'("00010000"),
    true when unsigned'("00100000"),
    true when unsigned'("01000000"),
    true when unsigned'("10000000"),
    false when others;
  buffer_chk_c <= arg2;
end architecture arch_test_one_hot;