library ieee;
use ieee.std_logic_1164.all;
use ieee.numeric_std.all;


entity test_fifo_02 is
  port (
    clk : in std_logic;
    reset : in std_logic;
    data_in : in std_logic_vector(3 downto 0);
    push : in std_logic;
    data_out : out std_logic_vector(3 downto 0);
    front : out std_logic_vector(3 downto 0);
    pop : in std_logic;
    empty : out std_logic;
    full : out std_logic
    );
end test_fifo_02;


architecture arch_test_fifo_02 of test_fifo_02 is
  function cohdl_bool_to_std_logic(inp: boolean) return std_logic is
  begin
    if inp then
      return('1');
    else
      return('0');
    end if;
  end function cohdl_bool_to_std_logic;
  signal buffer_data_out : std_logic_vector(3 downto 0);
  signal buffer_front : std_logic_vector(3 downto 0);
  signal buffer_empty : std_logic;
  signal buffer_full : std_logic;
  signal fifo_wr_index : unsigned(3 downto 0) := unsigned'("0000");
  signal fifo_rd_index : unsigned(3 downto 0) := unsigned'("0000");
  signal temp : boolean;
  signal fifo_empty : std_logic;
  signal temp1 : unsigned(3 downto 0);
  signal temp2 : boolean;
  signal temp3 : boolean;
  signal temp4 : unsigned(3 downto 0);
  signal temp5 : boolean;
  signal fifo_full : std_logic;
  signal temp6 : unsigned(3 downto 0);
  signal temp7 : std_logic_vector(3 downto 0);
  type array_type is array(0 to 10) of std_logic_vector(3 downto 0);
  signal fifo_fifo_mem : array_type;
begin
  
  -- CONCURRENT BLOCK (buffer assignment)
  data_out <= buffer_data_out;
  front <= buffer_front;
  empty <= buffer_empty;
  full <= buffer_full;
  
  -- CONCURRENT BLOCK (logic)
  temp <= (fifo_wr_index = fifo_rd_index);
  fifo_empty <= cohdl_bool_to_std_logic(temp);
  temp1 <= (fifo_wr_index) + (1);
  temp2 <= (fifo_wr_index /= 10);
  temp3 <= temp2;
  with temp3 select temp4 <=
    temp1 when true,
    unsigned'("0000") when others;
  temp5 <= (temp4 = fifo_rd_index);
  fifo_full <= cohdl_bool_to_std_logic(temp5);
  
  -- CONCURRENT BLOCK (logic)
  temp6 <= fifo_rd_index;
  temp7 <= fifo_fifo_mem(to_integer(temp6));
  buffer_front <= temp7;
  buffer_empty <= fifo_empty;
  buffer_full <= fifo_full;
  

  data_receiver: process(clk)
    variable temp8 : boolean;
    variable temp9 : boolean;
    variable temp10 : boolean;
    variable temp11 : boolean;
    variable inp : std_logic_vector(3 downto 0);
    variable temp12 : std_logic_vector(3 downto 0);
    variable temp13 : unsigned(3 downto 0);
    variable temp14 : unsigned(3 downto 0);
    variable temp15 : boolean;
    variable temp16 : unsigned(3 downto 0);
  begin
    if rising_edge(clk) then
      temp8 := reset = '1';
      if temp8 then
        fifo_wr_index <= unsigned'("0000");
      else
        temp9 := push = '1';
        if temp9 then
          temp10 := fifo_full = '1';
          temp11 := not (temp10);
          assert temp11 report "writing to full fifo";
          inp := data_in;
          temp12 := inp;
          temp13 := fifo_wr_index;
          fifo_fifo_mem(to_integer(temp13)) <= temp12;
          temp14 := (fifo_wr_index) + (1);
          temp15 := (fifo_wr_index /= 10);
          case temp15 is
            when true =>
              temp16 := temp14;
            when others =>
              temp16 := unsigned'("0000");
          end case;
          fifo_wr_index <= temp16;
        end if;
      end if;
    end if;
  end process;
  

  data_transmitter: process(clk)
    variable temp8 : boolean;
    variable temp9 : boolean;
    variable temp10 : boolean;
    variable temp11 : boolean;
    variable temp12 : unsigned(3 downto 0);
    variable temp13 : boolean;
    variable temp14 : unsigned(3 downto 0);
    variable temp15 : unsigned(3 downto 0);
    variable temp16 : std_logic_vector(3 downto 0);
  begin
    if rising_edge(clk) then
      temp8 := reset = '1';
      if temp8 then
        fifo_rd_index <= unsigned'("0000");
      else
        temp9 := pop = '1';
        if temp9 then
          temp10 := fifo_empty = '1';
          temp11 := not (temp10);
          assert temp11 report "reading from empty fifo";
          temp12 := (fifo_rd_index) + (1);
          temp13 := (fifo_rd_index /= 10);
          case temp13 is
            when true =>
              temp14 := temp12;
            when others =>
              temp14 := unsigned'("0000");
          end case;
          fifo_rd_index <= temp14;
          temp15 := fifo_rd_index;
          temp16 := fifo_fifo_mem(to_integer(temp15));
          buffer_data_out <= temp16;
        end if;
      end if;
    end if;
  end process;
end architecture arch_test_fifo_02;