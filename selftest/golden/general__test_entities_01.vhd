library ieee;
use ieee.std_logic_1164.all;
use ieee.numeric_std.all;


entity OrEntity is
  port (
    a : in std_logic;
    b : in std_logic;
    result : out std_logic
    );
end OrEntity;


architecture arch_OrEntity of OrEntity is
  function cohdl_bool_to_std_logic(inp: boolean) return std_logic is
  begin
    if inp then
      return('1');
    else
      return('0');
    end if;
  end function cohdl_bool_to_std_logic;
  signal buffer_result : std_logic;
  signal temp : std_logic;
begin
  
  -- CONCURRENT BLOCK (buffer assignment)
  result <= buffer_result;
  
  -- CONCURRENT BLOCK (logic)
  temp <= (a) or (b);
  buffer_result <= temp;
end architecture arch_OrEntity;
library ieee;
use ieee.std_logic_1164.all;
use ieee.numeric_std.all;


entity test_entities_01 is
  port (
    a : in std_logic;
    b : in std_logic;
    result : out std_logic
    );
end test_entities_01;


architecture arch_test_entities_01 of test_entities_01 is
  function cohdl_bool_to_std_logic(inp: boolean) return std_logic is
  begin
    if inp then
      return('1');
    else
      return('0');
    end if;
  end function cohdl_bool_to_std_logic;
  signal buffer_result : std_logic;
begin
  
  -- CONCURRENT BLOCK (buffer assignment)
  result <= buffer_result;
  comp_OrEntity: entity work.OrEntity(arch_OrEntity)
    port map(
    a => a,
    b => b,
    result => buffer_result
    );
end architecture arch_test_entities_01;