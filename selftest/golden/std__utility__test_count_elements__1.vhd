library ieee;
use ieee.std_logic_1164.all;
use ieee.numeric_std.all;


entity test_count_elements is
  port (
    input : in std_logic_vector(7 downto 0);
    inp_until_0 : out unsigned(3 downto 0);
    list_until_1 : out unsigned(3 downto 0);
    inp_until_not0 : out unsigned(3 downto 0);
    list_until_not1 : out unsigned(3 downto 0);
    inp_while_0 : out unsigned(3 downto 0);
    list_while_1 : out unsigned(3 downto 0);
    inp_while_not0 : out unsigned(3 downto 0);
    list_while_not1 : out unsigned(3 downto 0);
    empty_until_val : out unsigned(0 downto 0);
    empty_until_cond : out unsigned(0 downto 0);
    empty_while_val : out unsigned(0 downto 0);
    empty_while_cond : out unsigned(0 downto 0)
    );
end test_count_elements;


architecture arch_test_count_elements of test_count_elements is
  function cohdl_bool_to_std_logic(inp: boolean) return std_logic is
  begin
    if inp then
      return('1');
    else
      return('0');
    end if;
  end function cohdl_bool_to_std_logic;
  signal buffer_inp_until_0 : unsigned(3 downto 0);
  signal buffer_list_until_1 : unsigned(3 downto 0);
  signal buffer_inp_until_not0 : unsigned(3 downto 0);
  signal buffer_list_until_not1 : unsigned(3 downto 0);
  signal buffer_inp_while_0 : unsigned(3 downto 0);
  signal buffer_list_while_1 : unsigned(3 downto 0);
  signal buffer_inp_while_not0 : unsigned(3 downto 0);
  signal buffer_list_while_not1 : unsigned(3 downto 0);
  signal buffer_empty_until_val : unsigned(0 downto 0);
  signal buffer_empty_until_cond : unsigned(0 downto 0);
  signal buffer_empty_while_val : unsigned(0 downto 0);
  signal buffer_empty_while_cond : unsigned(0 downto 0);
begin
  
  -- CONCURRENT BLOCK (buffer assignment)
  inp_until_0 <= buffer_inp_until_0;
  list_until_1 <= buffer_list_until_1;
  inp_until_not0 <= buffer_inp_until_not0;
  list_until_not1 <= buffer_list_until_not1;
  inp_while_0 <= buffer_inp_while_0;
  list_while_1 <= buffer_list_while_1;
  inp_while_not0 <= buffer_inp_while_not0;
  list_while_not1 <= buffer_list_while_not1;
  empty_until_val <= buffer_empty_until_val;
  empty_until_cond <= buffer_empty_until_cond;
  empty_while_val <= buffer_empty_while_val;
  empty_while_cond <= buffer_empty_while_cond;
  

  logic_assign: process(input)
    variable temp : boolean;
    variable temp1 : boolean;
    variable temp2 : boolean;
    variable temp3 : boolean;
    variable temp4 : boolean;
    variable temp5 : boolean;
    variable temp6 : boolean;
    variable temp7 : boolean;
    variable temp8 : unsigned(3 downto 0);
    variable temp9 : unsigned(3 downto 0);
    variable temp10 : unsigned(3 downto 0);
    variable temp11 : unsigned(3 downto 0);
    variable temp12 : unsigned(3 downto 0);
    variable temp13 : unsigned(3 downto 0);
    variable temp14 : unsigned(3 downto 0);
    variable arg : unsigned(3 downto 0);
    variable temp15 : boolean;
    variable temp16 : boolean;
    variable temp17 : boolean;
    variable temp18 : boolean;
    variable temp19 : boolean;
    variable temp20 : boolean;
    variable temp21 : boolean;
    variable temp22 : boolean;
    variable temp23 : unsigned(3 downto 0);
    variable temp24 : unsigned(3 downto 0);
    variable temp25 : unsigned(3 downto 0);
    variable temp26 : unsigned(3 downto 0);
    variable temp27 : unsigned(3 downto 0);
    variable temp28 : unsigned(3 downto 0);
    variable temp29 : unsigned(3 downto 0);
    variable arg1 : unsigned(3 downto 0);
    variable temp30 : boolean;
    variable temp31 : boolean;
    variable temp32 : boolean;
    variable temp33 : boolean;
    variable temp34 : boolean;
    variable temp35 : boolean;
    variable temp36 : boolean;
    variable temp37 : boolean;
    variable temp38 : unsigned(3 downto 0);
    variable temp39 : unsigned(3 downto 0);
    variable temp40 : unsigned(3 downto 0);
    variable temp41 : unsigned(3 downto 0);
    variable temp42 : unsigned(3 downto 0);
    variable temp43 : unsigned(3 downto 0);
    variable temp44 : unsigned(3 downto 0);
    variable arg2 : unsigned(3 downto 0);
    variable temp45 : boolean;
    variable temp46 : boolean;
    variable temp47 : boolean;
    variable temp48 : boolean;
    variable temp49 : boolean;
    variable temp50 : boolean;
    variable temp51 : boolean;
    variable temp52 : boolean;
    variable temp53 : unsigned(3 downto 0);
    variable temp54 : unsigned(3 downto 0);
    variable temp55 : unsigned(3 downto 0);
    variable temp56 : unsigned(3 downto 0);
    variable temp57 : unsigned(3 downto 0);
    variable temp58 : unsigned(3 downto 0);
    variable temp59 : unsigned(3 downto 0);
    variable arg3 : unsigned(3 downto 0);
    variable temp60 : boolean;
    variable temp61 : boolean;
    variable temp62 : boolean;
    variable temp63 : boolean;
    variable temp64 : boolean;
    variable temp65 : boolean;
    variable temp66 : boolean;
    variable temp67 : boolean;
    variable temp68 : unsigned(3 downto 0);
    variable temp69 : unsigned(3 downto 0);
    variable temp70 : unsigned(3 downto 0);
    variable temp71 : unsigned(3 downto 0);
    variable temp72 : unsigned(3 downto 0);
    variable temp73 : unsigned(3 downto 0);
    variable temp74 : unsigned(3 downto 0);
    variable arg4 : unsigned(3 downto 0);
    variable temp75 : boolean;
    variable temp76 : boolean;
    variable temp77 : boolean;
    variable temp78 : boolean;
    variable temp79 : boolean;
    variable temp80 : boolean;
    variable temp81 : boolean;
    variable temp82 : boolean;
    variable temp83 : unsigned(3 downto 0);
    variable temp84 : unsigned(3 downto 0);
    variable temp85 : unsigned(3 downto 0);
    variable temp86 : unsigned(3 downto 0);
    variable temp87 : unsigned(3 downto 0);
    variable temp88 : unsigned(3 downto 0);
    variable temp89 : unsigned(3 downto 0);
    variable arg5 : unsigned(3 downto 0);
    variable temp90 : boolean;
    variable temp91 : boolean;
    variable temp92 : boolean;
    variable temp93 : boolean;
    variable temp94 : boolean;
    variable temp95 : boolean;
    variable temp96 : boolean;
    variable temp97 : boolean;
    variable temp98 : boolean;
    variable temp99 : boolean;
    variable temp100 : boolean;
    variable temp101 : boolean;
    variable temp102 : boolean;
    variable temp103 : boolean;
    variable temp104 : boolean;
    variable temp105 : boolean;
    variable temp106 : unsigned(3 downto 0);
    variable temp107 : unsigned(3 downto 0);
    variable temp108 : unsigned(3 downto 0);
    variable temp109 : unsigned(3 downto 0);
    variable temp110 : unsigned(3 downto 0);
    variable temp111 : unsigned(3 downto 0);
    variable temp112 : unsigned(3 downto 0);
    variable arg6 : unsigned(3 downto 0);
    variable temp113 : boolean;
    variable temp114 : boolean;
    variable temp115 : boolean;
    variable temp116 : boolean;
    variable temp117 : boolean;
    variable temp118 : boolean;
    variable temp119 : boolean;
    variable temp120 : boolean;
    variable temp121 : boolean;
    variable temp122 : boolean;
    variable temp123 : boolean;
    variable temp124 : boolean;
    variable temp125 : boolean;
    variable temp126 : boolean;
    variable temp127 : boolean;
    variable temp128 : boolean;
    variable temp129 : unsigned(3 downto 0);
    variable temp130 : unsigned(3 downto 0);
    variable temp131 : unsigned(3 downto 0);
    variable temp132 : unsigned(3 downto 0);
    variable temp133 : unsigned(3 downto 0);
    variable temp134 : unsigned(3 downto 0);
    variable temp135 : unsigned(3 downto 0);
    variable arg7 : unsigned(3 downto 0);
  begin
    temp := (input(0) = '0');
    temp1 := (input(1) = '0');
    temp2 := (input(2) = '0');
    temp3 := (input(3) = '0');
    temp4 := (input(4) = '0');
    temp5 := (input(5) = '0');
    temp6 := (input(6) = '0');
    temp7 := (input(7) = '0');
    case temp7 is
      when true =>
        temp8 := unsigned'("0111");
      when others =>
        temp8 := unsigned'("1000");
    end case;
    case temp6 is
      when true =>
        temp9 := unsigned'("0110");
      when others =>
        temp9 := temp8;
    end case;
    case temp5 is
      when true =>
        temp10 := unsigned'("0101");
      when others =>
        temp10 := temp9;
    end case;
    case temp4 is
      when true =>
        temp11 := unsigned'("0100");
      when others =>
        temp11 := temp10;
    end case;
    case temp3 is
      when true =>
        temp12 := unsigned'("0011");
      when others =>
        temp12 := temp11;
    end case;
    case temp2 is
      when true =>
        temp13 := unsigned'("0010");
      when others =>
        temp13 := temp12;
    end case;
    case temp1 is
      when true =>
        temp14 := unsigned'("0001");
      when others =>
        temp14 := temp13;
    end case;
    case temp is
      when true =>
        arg := unsigned'("0000");
      when others =>
        arg := temp14;
    end case;
    buffer_inp_until_0 <= arg;
    temp15 := (input(0) = '1');
    temp16 := (input(1) = '1');
    temp17 := (input(2) = '1');
    temp18 := (input(3) = '1');
    temp19 := (input(4) = '1');
    temp20 := (input(5) = '1');
    temp21 := (input(6) = '1');
    temp22 := (input(7) = '1');
    case temp22 is
      when true =>
        temp23 := unsigned'("0111");
      when others =>
        temp23 := unsigned'("1000");
    end case;
    case temp21 is
      when true =>
        temp24 := unsigned'("0110");
      when others =>
        temp24 := temp23;
    end case;
    case temp20 is
      when true =>
        temp25 := unsigned'("0101");
      when others =>
        temp25 := temp24;
    end case;
    case temp19 is
      when true =>
        temp26 := unsigned'("0100");
      when others =>
        temp26 := temp25;
    end case;
    case temp18 is
      when true =>
        temp27 := unsigned'("0011");
      when others =>
        temp27 := temp26;
    end case;
    case temp17 is
      when true =>
        temp28 := unsigned'("0010");
      when others =>
        temp28 := temp27;
    end case;
    case temp16 is
      when true =>
        temp29 := unsigned'("0001");
      when others =>
        temp29 := temp28;
    end case;
    case temp15 is
      when true =>
        arg1 := unsigned'("0000");
      when others =>
        arg1 := temp29;
    end case;
    buffer_list_until_1 <= arg1;
    temp30 := (input(0) /= '0');
    temp31 := (input(1) /= '0');
    temp32 := (input(2) /= '0');
    temp33 := (input(3) /= '0');
    temp34 := (input(4) /= '0');
    temp35 := (input(5) /= '0');
    temp36 := (input(6) /= '0');
    temp37 := (input(7) /= '0');
    case temp37 is
      when true =>
        temp38 := unsigned'("0111");
      when others =>
        temp38 := unsigned'("1000");
    end case;
    case temp36 is
      when true =>
        temp39 := unsigned'("0110");
      when others =>
        temp39 := temp38;
    end case;
    case temp35 is
      when true =>
        temp40 := unsigned'("0101");
      when others =>
        temp40 := temp39;
    end case;
    case temp34 is
      when true =>
        temp41 := unsigned'("0100");
      when others =>
        temp41 := temp40;
    end case;
    case temp33 is
      when true =>
        temp42 := unsigned'("0011");
      when others =>
        temp42 := temp41;
    end case;
    case temp32 is
      when true =>
        temp43 := unsigned'("0010");
      when others =>
        temp43 := temp42;
    end case;
    case temp31 is
      when true =>
        temp44 := unsigned'("0001");
      when others =>
        temp44 := temp43;
    end case;
    case temp30 is
      when true =>
        arg2 := unsigned'("0000");
      when others =>
        arg2 := temp44;
    end case;
    buffer_inp_until_not0 <= arg2;
    temp45 := (input(0) /= '1');
    temp46 := (input(1) /= '1');
    temp47 := (input(2) /= '1');
    temp48 := (input(3) /= '1');
    temp49 := (input(4) /= '1');
    temp50 := (input(5) /= '1');
    temp51 := (input(6) /= '1');
    temp52 := (input(7) /= '1');
    case temp52 is
      when true =>
        temp53 := unsigned'("0111");
      when others =>
        temp53 := unsigned'("1000");
    end case;
    case temp51 is
      when true =>
        temp54 := unsigned'("0110");
      when others =>
        temp54 := temp53;
    end case;
    case temp50 is
      when true =>
        temp55 := unsigned'("0101");
      when others =>
        temp55 := temp54;
    end case;
    case temp49 is
      when true =>
        temp56 := unsigned'("0100");
      when others =>
        temp56 := temp55;
    end case;
    case temp48 is
      when true =>
        temp57 := unsigned'("0011");
      when others =>
        temp57 := temp56;
    end case;
    case temp47 is
      when true =>
        temp58 := unsigned'("0010");
      when others =>
        temp58 := temp57;
    end case;
    case temp46 is
      when true =>
        temp59 := unsigned'("0001");
      when others =>
        temp59 := temp58;
    end case;
    case temp45 is
      when true =>
        arg3 := unsigned'("0000");
      when others =>
        arg3 := temp59;
    end case;
    buffer_list_until_not1 <= arg3;
    temp60 := (input(0) /= '0');
    temp61 := (input(1) /= '0');
    temp62 := (input(2) /= '0');
    temp63 := (input(3) /= '0');
    temp64 := (input(4) /= '0');
    temp65 := (input(5) /= '0');
    temp66 := (input(6) /= '0');
    temp67 := (input(7) /= '0');
    case temp67 is
      when true =>
        temp68 := unsigned'("0111");
      when others =>
        temp68 := unsigned'("1000");
    end case;
    case temp66 is
      when true =>
        temp69 := unsigned'("0110");
      when others =>
        temp69 := temp68;
    end case;
    case temp65 is
      when true =>
        temp70 := unsigned'("0101");
      when others =>
        temp70 := temp69;
    end case;
    case temp64 is
      when true =>
        temp71 := unsigned'("0100");
      when others =>
        temp71 := temp70;
    end case;
    case temp63 is
      when true =>
        temp72 := unsigned'("0011");
      when others =>
        temp72 := temp71;
    end case;
    case temp62 is
      when true =>
        temp73 := unsigned'("0010");
      when others =>
        temp73 := temp72;
    end case;
    case temp61 is
      when true =>
        temp74 := unsigned'("0001");
      when others =>
        temp74 := temp73;
    end case;
    case temp60 is
      when true =>
        arg4 := unsigned'("0000");
      when others =>
        arg4 := temp74;
    end case;
    buffer_inp_while_0 <= arg4;
    temp75 := (input(0) /= '1');
    temp76 := (input(1) /= '1');
    temp77 := (input(2) /= '1');
    temp78 := (input(3) /= '1');
    temp79 := (input(4) /= '1');
    temp80 := (input(5) /= '1');
    temp81 := (input(6) /= '1');
    temp82 := (input(7) /= '1');
    case temp82 is
      when true =>
        temp83 := unsigned'("0111");
      when others =>
        temp83 := unsigned'("1000");
    end case;
    case temp81 is
      when true =>
        temp84 := unsigned'("0110");
      when others =>
        temp84 := temp83;
    end case;
    case temp80 is
      when true =>
        temp85 := unsigned'("0101");
      when others =>
        temp85 := temp84;
    end case;
    case temp79 is
      when true =>
        temp86 := unsigned'("0100");
      when others =>
        temp86 := temp85;
    end case;
    case temp78 is
      when true =>
        temp87 := unsigned'("0011");
      when others =>
        temp87 := temp86;
    end case;
    case temp77 is
      when true =>
        temp88 := unsigned'("0010");
      when others =>
        temp88 := temp87;
    end case;
    case temp76 is
      when true =>
        temp89 := unsigned'("0001");
      when others =>
        temp89 := temp88;
    end case;
    case temp75 is
      when true =>
        arg5 := unsigned'("0000");
      when others =>
        arg5 := temp89;
    end case;
    buffer_list_while_1 <= arg5;
    temp90 := (input(0) /= '0');
    temp91 := not (temp90);
    temp92 := (input(1) /= '0');
    temp93 := not (temp92);
    temp94 := (input(2) /= '0');
    temp95 := not (temp94);
    temp96 := (input(3) /= '0');
    temp97 := not (temp96);
    temp98 := (input(4) /= '0');
    temp99 := not (temp98);
    temp100 := (input(5) /= '0');
    temp101 := not (temp100);
    temp102 := (input(6) /= '0');
    temp103 := not (temp102);
    temp104 := (input(7) /= '0');
    temp105 := not (temp104);
    case temp105 is
      when true =>
        temp106 := unsigned'("0111");
      when others =>
        temp106 := unsigned'("1000");
    end case;
    case temp103 is
      when true =>
        temp107 := unsigned'("0110");
      when others =>
        temp107 := temp106;
    end case;
    case temp101 is
      when true =>
        temp108 := unsigned'("0101");
      when others =>
        temp108 := temp107;
    end case;
    case temp99 is
      when true =>
        temp109 := unsigned'("0100");
      when others =>
        temp109 := temp108;
    end case;
    case temp97 is
      when true =>
        temp110 := unsigned'("0011");
      when others =>
        temp110 := temp109;
    end case;
    case temp95 is
      when true =>
        temp111 := unsigned'("0010");
      when others =>
        temp111 := temp110;
    end case;
    case temp93 is
      when true =>
        temp112 := unsigned'("0001");
      when others =>
        temp112 := temp111;
    end case;
    case temp91 is
      when true =>
        arg6 := unsigned'("0000");
      when others =>
        arg6 := temp112;
    end case;
    buffer_inp_while_not0 <= arg6;
    temp113 := (input(0) /= '1');
    temp114 := not (temp113);
    temp115 := (input(1) /= '1');
    temp116 := not (temp115);
    temp117 := (input(2) /= '1');
    temp118 := not (temp117);
    temp119 := (input(3) /= '1');
    temp120 := not (temp119);
    temp121 := (input(4) /= '1');
    temp122 := not (temp121);
    temp123 := (input(5) /= '1');
    temp124 := not (temp123);
    temp125 := (input(6) /= '1');
    temp126 := not (temp125);
    temp127 := (input(7) /= '1');
    temp128 := not (temp127);
    case temp128 is
      when true =>
        temp129 := unsigned'("0111");
      when others =>
        temp129 := unsigned'("1000");
    end case;
    case temp126 is
      when true =>
        temp130 := unsigned'("0110");
      when others =>
        temp130 := temp129;
    end case;
    case temp124 is
      when true =>
        temp131 := unsigned'("0101");
      when others =>
        temp131 := temp130;
    end case;
    case temp122 is
      when true =>
        temp132 := unsigned'("0100");
      when others =>
        temp132 := temp131;
    end case;
    case temp120 is
      when true =>
        temp133 := unsigned'("0011");
      when others =>
        temp133 := temp132;
    end case;
    case temp118 is
      when true =>
        temp134 := unsigned'("0010");
      when others =>
        temp134 := temp133;
    end case;
    case temp116 is
      when true =>
        temp135 := unsigned'("0001");
      when others =>
        temp135 := temp134;
    end case;
    case temp114 is
      when true =>
        arg7 := unsigned'("0000");
      when others =>
        arg7 := temp135;
    end case;
    buffer_list_while_not1 <= arg7;
    buffer_empty_until_val <= unsigned'("0");
    buffer_empty_until_cond <= unsigned'("0");
    buffer_empty_while_val <= unsigned'("0");
    buffer_empty_while_cond <= unsigned'("0");
  end process;
end architecture arch_test_count_elements;