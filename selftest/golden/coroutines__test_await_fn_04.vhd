library ieee;
use ieee.std_logic_1164.all;
use ieee.numeric_std.all;


entity test_await_fn_04 is
  port (
    clk : in std_logic;
    addr : in std_logic_vector(1 downto 0);
    input : in std_logic;
    result : out std_logic;
    toggle : out std_logic
    );
end test_await_fn_04;


architecture arch_test_await_fn_04 of test_await_fn_04 is
  function cohdl_bool_to_std_logic(inp: boolean) return std_logic is
  begin
    if inp then
      return('1');
    else
      return('0');
    end if;
  end function cohdl_bool_to_std_logic;
  signal buffer_result : std_logic := '0';
  signal buffer_toggle : std_logic := '0';
  type state_minimal is (state_0, state_1, state_2);
  signal s_minimal : state_minimal := state_0;
begin
  
  -- CONCURRENT BLOCK (buffer assignment)
  result <= buffer_result;
  toggle <= buffer_toggle;
  

  minimal: process(clk)
    variable temp : boolean;
    variable temp1 : std_logic;
    variable temp2 : boolean;
  begin
    if rising_edge(clk) then
      case s_minimal is
        when state_0 =>
          temp := (addr = "01");
          if temp then
            s_minimal <= state_2;
            buffer_result <= input;
            temp1 := not (buffer_toggle);
            buffer_toggle <= temp1;
          else
            temp2 := (addr = "10");
            if temp2 then
              s_minimal <= state_1;
            else
              s_minimal <= state_2;
              temp1 := not (buffer_toggle);
              buffer_toggle <= temp1;
            end if;
          end if;
        when state_1 =>
          s_minimal <= state_2;
          temp1 := not (buffer_toggle);
          buffer_toggle <= temp1;
        when state_2 =>
          s_minimal <= state_0;
        when others =>
          null;
      end case;
    end if;
  end process;
end architecture arch_test_await_fn_04;