library ieee;
use ieee.std_logic_1164.all;
use ieee.numeric_std.all;


entity test_array_05 is
  port (
    clk : in std_logic;
    reset : in std_logic;
    choose_option : in std_logic;
    rd_data : out std_logic_vector(3 downto 0)
    );
end test_array_05;


architecture arch_test_array_05 of test_array_05 is
  function cohdl_bool_to_std_logic(inp: boolean) return std_logic is
  begin
    if inp then
      return('1');
    else
      return('0');
    end if;
  end function cohdl_bool_to_std_logic;
  signal buffer_rd_data : std_logic_vector(3 downto 0);
  type array_type is array(0 to 0) of std_logic_vector(3 downto 0);
  signal mem : array_type := ( 0 => "0000" );
begin
  
  -- CONCURRENT BLOCK (buffer assignment)
  rd_data <= buffer_rd_data;
  
  -- CONCURRENT BLOCK (logic)
  buffer_rd_data <= mem(0);
  

  proc: process(clk)
    variable temp : boolean;
    variable temp1 : boolean;
  begin
    if rising_edge(clk) then
      temp := reset = '1';
      if temp then
        mem <= ( 0 => "0000" );
      else
        temp1 := choose_option = '1';
        if temp1 then
          mem <= ( 0 => "1100" );
        else
          mem <= ( 0 => "1111" );
        end if;
      end if;
    end if;
  end process;
end architecture arch_test_array_05;