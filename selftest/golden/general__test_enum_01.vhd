library ieee;
use ieee.std_logic_1164.all;
use ieee.numeric_std.all;


entity test_enum_01 is
  port (
    input_code : in std_logic_vector(1 downto 0);
    output_code : out std_logic_vector(1 downto 0)
    );
end test_enum_01;


architecture arch_test_enum_01 of test_enum_01 is
  function cohdl_bool_to_std_logic(inp: boolean) return std_logic is
  begin
    if inp then
      return('1');
    else
      return('0');
    end if;
  end function cohdl_bool_to_std_logic;
  signal buffer_output_code : std_logic_vector(1 downto 0);
  type MyEnum is (a, b, c, d);
  signal temp : MyEnum;
  signal my_enum : MyEnum;
  signal temp1 : std_logic_vector(1 downto 0);
begin
  
  -- CONCURRENT BLOCK (buffer assignment)
  output_code <= buffer_output_code;
  
  -- CONCURRENT BLOCK (logic_select_enum)
  with input_code select temp <=
    a when "00",
    b when "01",
    c when "10",
    d when "11",
    a when others;
  my_enum <= temp;
  
  -- CONCURRENT BLOCK (logic_decode_enum)
  with my_enum select temp1 <=
    "00" when a,
    "01" when b,
    "10" when c,
    "11" when d,
    "00" when others;
  buffer_output_code <= temp1;
end architecture arch_test_enum_01;