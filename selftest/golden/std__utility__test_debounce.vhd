library ieee;
use ieee.std_logic_1164.all;
use ieee.numeric_std.all;


entity test_debounce is
  port (
    clk : in std_logic;
    input : in std_logic;
    debounce_0 : out std_logic;
    debounce_1 : out std_logic;
    debounce_2 : out std_logic;
    debounce_3 : out std_logic;
    debounce_4 : out std_logic;
    debounce_5 : out std_logic;
    debounce_6 : out std_logic
    );
end test_debounce;


architecture arch_test_debounce of test_debounce is
  function cohdl_bool_to_std_logic(inp: boolean) return std_logic is
  begin
    if inp then
      return('1');
    else
      return('0');
    end if;
  end function cohdl_bool_to_std_logic;
  signal buffer_debounce_0 : std_logic;
  signal buffer_debounce_1 : std_logic;
  signal buffer_debounce_2 : std_logic;
  signal buffer_debounce_3 : std_logic;
  signal buffer_debounce_4 : std_logic;
  signal buffer_debounce_5 : std_logic;
  signal buffer_debounce_6 : std_logic;
  signal counter : unsigned(3 downto 0) := unsigned'("0101");
  signal result : std_logic := '0';
  signal counter1 : unsigned(3 downto 0) := unsigned'("0101");
  signal result1 : std_logic := '1';
  signal counter2 : unsigned(0 downto 0) := unsigned'("0");
  signal result2 : std_logic := '0';
  signal counter3 : unsigned(0 downto 0) := unsigned'("0");
  signal result3 : std_logic := '1';
  signal counter4 : unsigned(4 downto 0) := unsigned'("01010");
  signal result4 : std_logic := '0';
  signal counter5 : unsigned(3 downto 0) := unsigned'("0101");
  signal result5 : std_logic := '1';
  signal counter6 : unsigned(3 downto 0) := unsigned'("0100");
  signal result6 : std_logic := '1';
begin
  
  -- CONCURRENT BLOCK (buffer assignment)
  debounce_0 <= buffer_debounce_0;
  debounce_1 <= buffer_debounce_1;
  debounce_2 <= buffer_debounce_2;
  debounce_3 <= buffer_debounce_3;
  debounce_4 <= buffer_debounce_4;
  debounce_5 <= buffer_debounce_5;
  debounce_6 <= buffer_debounce_6;
  

  proc_debounce: process(clk)
    variable temp : boolean;
    variable temp1 : boolean;
    variable temp2 : unsigned(3 downto 0);
    variable temp3 : boolean;
    variable temp4 : unsigned(3 downto 0);
  begin
    if rising_edge(clk) then
      temp := input = '1';
      if temp then
        temp1 := (counter = 10);
        if temp1 then
          result <= '1';
        else
          temp2 := (counter) + (1);
          counter <= temp2;
        end if;
      else
        temp3 := (counter = 0);
        if temp3 then
          result <= '0';
        else
          temp4 := (counter) - (1);
          counter <= temp4;
        end if;
      end if;
    end if;
  end process;
  
  -- CONCURRENT BLOCK (logic)
  buffer_debounce_0 <= result;
  

  proc_debounce1: process(clk)
    variable temp : boolean;
    variable temp1 : boolean;
    variable temp2 : unsigned(3 downto 0);
    variable temp3 : boolean;
    variable temp4 : unsigned(3 downto 0);
  begin
    if rising_edge(clk) then
      temp := input = '1';
      if temp then
        temp1 := (counter1 = 10);
        if temp1 then
          result1 <= '1';
        else
          temp2 := (counter1) + (1);
          counter1 <= temp2;
        end if;
      else
        temp3 := (counter1 = 0);
        if temp3 then
          result1 <= '0';
        else
          temp4 := (counter1) - (1);
          counter1 <= temp4;
        end if;
      end if;
    end if;
  end process;
  
  -- CONCURRENT BLOCK (logic)
  buffer_debounce_1 <= result1;
  

  proc_debounce2: process(clk)
    variable temp : boolean;
    variable temp1 : boolean;
    variable temp2 : unsigned(0 downto 0);
    variable temp3 : boolean;
    variable temp4 : unsigned(0 downto 0);
  begin
    if rising_edge(clk) then
      temp := input = '1';
      if temp then
        temp1 := (counter2 = 1);
        if temp1 then
          result2 <= '1';
        else
          temp2 := (counter2) + (1);
          counter2 <= temp2;
        end if;
      else
        temp3 := (counter2 = 0);
        if temp3 then
          result2 <= '0';
        else
          temp4 := (counter2) - (1);
          counter2 <= temp4;
        end if;
      end if;
    end if;
  end process;
  
  -- CONCURRENT BLOCK (logic)
  buffer_debounce_2 <= result2;
  

  proc_debounce3: process(clk)
    variable temp : boolean;
    variable temp1 : boolean;
    variable temp2 : unsigned(0 downto 0);
    variable temp3 : boolean;
    variable temp4 : unsigned(0 downto 0);
  begin
    if rising_edge(clk) then
      temp := input = '1';
      if temp then
        temp1 := (counter3 = 1);
        if temp1 then
          result3 <= '1';
        else
          temp2 := (counter3) + (1);
          counter3 <= temp2;
        end if;
      else
        temp3 := (counter3 = 0);
        if temp3 then
          result3 <= '0';
        else
          temp4 := (counter3) - (1);
          counter3 <= temp4;
        end if;
      end if;
    end if;
  end process;
  
  -- CONCURRENT BLOCK (logic)
  buffer_debounce_3 <= result3;
  

  proc_debounce4: process(clk)
    variable temp : boolean;
    variable temp1 : boolean;
    variable temp2 : unsigned(4 downto 0);
    variable temp3 : boolean;
    variable temp4 : unsigned(4 downto 0);
  begin
    if rising_edge(clk) then
      temp := input = '1';
      if temp then
        temp1 := (counter4 = 20);
        if temp1 then
          result4 <= '1';
        else
          temp2 := (counter4) + (1);
          counter4 <= temp2;
        end if;
      else
        temp3 := (counter4 = 0);
        if temp3 then
          result4 <= '0';
        else
          temp4 := (counter4) - (1);
          counter4 <= temp4;
        end if;
      end if;
    end if;
  end process;
  
  -- CONCURRENT BLOCK (logic)
  buffer_debounce_4 <= result4;
  

  proc_debounce5: process(clk)
    variable temp : boolean;
    variable temp1 : boolean;
    variable temp2 : unsigned(3 downto 0);
    variable temp3 : boolean;
    variable temp4 : unsigned(3 downto 0);
  begin
    if rising_edge(clk) then
      temp := input = '1';
      if temp then
        temp1 := (counter5 = 11);
        if temp1 then
          result5 <= '1';
        else
          temp2 := (counter5) + (1);
          counter5 <= temp2;
        end if;
      else
        temp3 := (counter5 = 0);
        if temp3 then
          result5 <= '0';
        else
          temp4 := (counter5) - (1);
          counter5 <= temp4;
        end if;
      end if;
    end if;
  end process;
  
  -- CONCURRENT BLOCK (logic)
  buffer_debounce_5 <= result5;
  

  proc_debounce6: process(clk)
    variable temp : boolean;
    variable temp1 : boolean;
    variable temp2 : unsigned(3 downto 0);
    variable temp3 : boolean;
    variable temp4 : unsigned(3 downto 0);
  begin
    if rising_edge(clk) then
      temp := input = '1';
      if temp then
        temp1 := (counter6 = 9);
        if temp1 then
          result6 <= '1';
        else
          temp2 := (counter6) + (1);
          counter6 <= temp2;
        end if;
      else
        temp3 := (counter6 = 0);
        if temp3 then
          result6 <= '0';
        else
          temp4 := (counter6) - (1);
          counter6 <= temp4;
        end if;
      end if;
    end if;
  end process;
  
  -- CONCURRENT BLOCK (logic)
  buffer_debounce_6 <= result6;
end architecture arch_test_debounce;