library ieee;
use ieee.std_logic_1164.all;
use ieee.numeric_std.all;


entity test_wait_for is
  port (
    clk : in std_logic;
    start : in std_logic;
    var_wait : in unsigned(4 downto 0);
    output_a : out std_logic;
    output_b : out std_logic;
    output_c : out std_logic;
    output_waiter_a : out std_logic;
    output_waiter_b : out std_logic;
    output_waiter_c : out std_logic
    );
end test_wait_for;


architecture arch_test_wait_for of test_wait_for is
  function cohdl_bool_to_std_logic(inp: boolean) return std_logic is
  begin
    if inp then
      return('1');
    else
      return('0');
    end if;
  end function cohdl_bool_to_std_logic;
  signal buffer_output_a : std_logic;
  signal buffer_output_b : std_logic;
  signal buffer_output_c : std_logic;
  signal buffer_output_waiter_a : std_logic;
  signal buffer_output_waiter_b : std_logic;
  signal buffer_output_waiter_c : std_logic;
  type state_proc_raw is (state_0, state_1, state_2, state_3);
  signal s_proc_raw : state_proc_raw := state_0;
  signal sig : unsigned(0 downto 0);
  signal sig1 : unsigned(2 downto 0);
  type state_proc_timed is (state_0, state_1, state_2, state_3);
  signal s_proc_timed : state_proc_timed := state_0;
  signal sig2 : unsigned(0 downto 0);
  signal sig3 : unsigned(2 downto 0);
  type state_proc_var is (state_0, state_1, state_2, state_3, state_4);
  signal s_proc_var : state_proc_var := state_0;
  signal sig4 : unsigned(4 downto 0);
  signal sig5 : unsigned(4 downto 0);
  signal zero_val : unsigned(2 downto 0) := unsigned'("000");
  signal sig6 : unsigned(4 downto 0);
  signal sig7 : unsigned(2 downto 0);
  type state_proc_waiter_raw is (state_0, state_1, state_2, state_3);
  signal s_proc_waiter_raw : state_proc_waiter_raw := state_0;
  signal sig8 : unsigned(2 downto 0) := unsigned'("000");
  type state_proc_waiter_timed is (state_0, state_1, state_2, state_3);
  signal s_proc_waiter_timed : state_proc_waiter_timed := state_0;
  signal sig9 : unsigned(2 downto 0) := unsigned'("000");
  type state_proc_var1 is (state_0, state_1, state_2, state_3, state_4);
  signal s_proc_var1 : state_proc_var1 := state_0;
  signal sig10 : unsigned(4 downto 0) := unsigned'("00000");
begin
  
  -- CONCURRENT BLOCK (buffer assignment)
  output_a <= buffer_output_a;
  output_b <= buffer_output_b;
  output_c <= buffer_output_c;
  output_waiter_a <= buffer_output_waiter_a;
  output_waiter_b <= buffer_output_waiter_b;
  output_waiter_c <= buffer_output_waiter_c;
  

  proc_raw: process(clk)
    variable temp : boolean;
    variable temp1 : unsigned(0 downto 0);
    variable temp2 : boolean;
    variable temp3 : unsigned(2 downto 0);
  begin
    if rising_edge(clk) then
      case s_proc_raw is
        when state_0 =>
          if start = '1' then
            s_proc_raw <= state_1;
            buffer_output_a <= '1';
          end if;
        when state_1 =>
          s_proc_raw <= state_2;
          buffer_output_a <= '0';
          sig <= unsigned'("1");
        when state_2 =>
          temp := (sig /= 0);
          if temp then
            s_proc_raw <= state_2;
            temp1 := (sig) - (1);
            sig <= temp1;
          else
            s_proc_raw <= state_3;
            buffer_output_a <= '1';
            sig1 <= unsigned'("100");
          end if;
        when state_3 =>
          temp2 := (sig1 /= 0);
          if temp2 then
            s_proc_raw <= state_3;
            temp3 := (sig1) - (1);
            sig1 <= temp3;
          else
            s_proc_raw <= state_0;
            buffer_output_a <= '0';
          end if;
        when others =>
          null;
      end case;
    end if;
  end process;
  

  proc_timed: process(clk)
    variable temp : boolean;
    variable temp1 : unsigned(0 downto 0);
    variable temp2 : boolean;
    variable temp3 : unsigned(2 downto 0);
  begin
    if rising_edge(clk) then
      case s_proc_timed is
        when state_0 =>
          if start = '1' then
            s_proc_timed <= state_1;
            buffer_output_b <= '1';
          end if;
        when state_1 =>
          s_proc_timed <= state_2;
          buffer_output_b <= '0';
          sig2 <= unsigned'("1");
        when state_2 =>
          temp := (sig2 /= 0);
          if temp then
            s_proc_timed <= state_2;
            temp1 := (sig2) - (1);
            sig2 <= temp1;
          else
            s_proc_timed <= state_3;
            buffer_output_b <= '1';
            sig3 <= unsigned'("100");
          end if;
        when state_3 =>
          temp2 := (sig3 /= 0);
          if temp2 then
            s_proc_timed <= state_3;
            temp3 := (sig3) - (1);
            sig3 <= temp3;
          else
            s_proc_timed <= state_0;
            buffer_output_b <= '0';
          end if;
        when others =>
          null;
      end case;
    end if;
  end process;
  

  proc_var: process(clk)
    variable temp : boolean;
    variable temp1 : unsigned(4 downto 0);
    variable temp2 : boolean;
    variable temp3 : unsigned(4 downto 0);
    variable temp4 : boolean;
    variable temp5 : unsigned(4 downto 0);
    variable temp6 : boolean;
    variable temp7 : unsigned(4 downto 0);
    variable temp8 : boolean;
    variable temp9 : boolean;
    variable temp10 : unsigned(4 downto 0);
    variable temp11 : unsigned(2 downto 0);
    variable temp12 : boolean;
    variable temp13 : unsigned(2 downto 0);
    variable temp14 : boolean;
    variable temp15 : unsigned(4 downto 0);
  begin
    if rising_edge(clk) then
      case s_proc_var is
        when state_0 =>
          if start = '1' then
            s_proc_var <= state_1;
            buffer_output_c <= '1';
            temp := (var_wait > 0);
            assert temp report "waiting for 0 ticks only possible when allow_zero is set to True";
            temp1 := (var_wait) - (1);
            sig4 <= temp1;
          end if;
        when state_1 =>
          temp2 := (sig4 /= 0);
          if temp2 then
            s_proc_var <= state_1;
            temp3 := (sig4) - (1);
            sig4 <= temp3;
          else
            s_proc_var <= state_2;
            buffer_output_c <= '0';
            temp4 := (var_wait > 0);
            assert temp4 report "waiting for 0 ticks only possible when allow_zero is set to True";
            temp5 := (var_wait) - (1);
            sig5 <= temp5;
          end if;
        when state_2 =>
          temp6 := (sig5 /= 0);
          if temp6 then
            s_proc_var <= state_2;
            temp7 := (sig5) - (1);
            sig5 <= temp7;
          else
            temp8 := (zero_val = 0);
            if temp8 then
              s_proc_var <= state_4;
              buffer_output_c <= '1';
              temp9 := (var_wait > 0);
              assert temp9 report "waiting for 0 ticks only possible when allow_zero is set to True";
              temp10 := (var_wait) - (1);
              sig6 <= temp10;
            else
              s_proc_var <= state_3;
              temp11 := (zero_val) - (1);
              sig7 <= temp11;
            end if;
          end if;
        when state_3 =>
          temp12 := (sig7 /= 0);
          if temp12 then
            s_proc_var <= state_3;
            temp13 := (sig7) - (1);
            sig7 <= temp13;
          else
            s_proc_var <= state_4;
            buffer_output_c <= '1';
            temp9 := (var_wait > 0);
            assert temp9 report "waiting for 0 ticks only possible when allow_zero is set to True";
            temp10 := (var_wait) - (1);
            sig6 <= temp10;
          end if;
        when state_4 =>
          temp14 := (sig6 /= 0);
          if temp14 then
            s_proc_var <= state_4;
            temp15 := (sig6) - (1);
            sig6 <= temp15;
          else
            s_proc_var <= state_0;
            buffer_output_c <= '0';
          end if;
        when others =>
          null;
      end case;
    end if;
  end process;
  

  proc_waiter_raw: process(clk)
    variable temp : boolean;
    variable temp1 : unsigned(2 downto 0);
    variable temp2 : boolean;
    variable temp3 : unsigned(2 downto 0);
  begin
    if rising_edge(clk) then
      case s_proc_waiter_raw is
        when state_0 =>
          if start = '1' then
            s_proc_waiter_raw <= state_1;
            buffer_output_waiter_a <= '1';
          end if;
        when state_1 =>
          s_proc_waiter_raw <= state_2;
          buffer_output_waiter_a <= '0';
          sig8 <= unsigned'("001");
        when state_2 =>
          temp := (sig8 /= 0);
          if temp then
            s_proc_waiter_raw <= state_2;
            temp1 := (sig8) - (1);
            sig8 <= temp1;
          else
            s_proc_waiter_raw <= state_3;
            buffer_output_waiter_a <= '1';
            sig8 <= unsigned'("100");
          end if;
        when state_3 =>
          temp2 := (sig8 /= 0);
          if temp2 then
            s_proc_waiter_raw <= state_3;
            temp3 := (sig8) - (1);
            sig8 <= temp3;
          else
            s_proc_waiter_raw <= state_0;
            buffer_output_waiter_a <= '0';
          end if;
        when others =>
          null;
      end case;
    end if;
  end process;
  

  proc_waiter_timed: process(clk)
    variable temp : boolean;
    variable temp1 : unsigned(2 downto 0);
    variable temp2 : boolean;
    variable temp3 : unsigned(2 downto 0);
  begin
    if rising_edge(clk) then
      case s_proc_waiter_timed is
        when state_0 =>
          if start = '1' then
            s_proc_waiter_timed <= state_1;
            buffer_output_waiter_b <= '1';
          end if;
        when state_1 =>
          s_proc_waiter_timed <= state_2;
          buffer_output_waiter_b <= '0';
          sig9 <= unsigned'("001");
        when state_2 =>
          temp := (sig9 /= 0);
          if temp then
            s_proc_waiter_timed <= state_2;
            temp1 := (sig9) - (1);
            sig9 <= temp1;
          else
            s_proc_waiter_timed <= state_3;
            buffer_output_waiter_b <= '1';
            sig9 <= unsigned'("100");
          end if;
        when state_3 =>
          temp2 := (sig9 /= 0);
          if temp2 then
            s_proc_waiter_timed <= state_3;
            temp3 := (sig9) - (1);
            sig9 <= temp3;
          else
            s_proc_waiter_timed <= state_0;
            buffer_output_waiter_b <= '0';
          end if;
        when others =>
          null;
      end case;
    end if;
  end process;
  

  proc_var1: process(clk)
    variable temp : boolean;
    variable temp1 : boolean;
    variable temp2 : unsigned(4 downto 0);
    variable temp3 : boolean;
    variable temp4 : unsigned(4 downto 0);
    variable temp5 : boolean;
    variable temp6 : boolean;
    variable temp7 : unsigned(4 downto 0);
    variable temp8 : boolean;
    variable temp9 : unsigned(4 downto 0);
    variable temp10 : boolean;
    variable temp11 : boolean;
    variable temp12 : boolean;
    variable temp13 : boolean;
    variable temp14 : unsigned(4 downto 0);
    variable temp15 : unsigned(2 downto 0);
    variable temp16 : boolean;
    variable temp17 : unsigned(4 downto 0);
    variable temp18 : boolean;
    variable temp19 : unsigned(4 downto 0);
  begin
    if rising_edge(clk) then
      case s_proc_var1 is
        when state_0 =>
          if start = '1' then
            s_proc_var1 <= state_1;
            buffer_output_waiter_c <= '1';
            temp := (var_wait <= 31);
            assert temp report "duration exceeds max_duration set in constructor";
            temp1 := (var_wait > 0);
            assert temp1 report "waiting for 0 ticks only possible when allow_zero is set to True";
            temp2 := (var_wait) - (1);
            sig10 <= temp2;
          end if;
        when state_1 =>
          temp3 := (sig10 /= 0);
          if temp3 then
            s_proc_var1 <= state_1;
            temp4 := (sig10) - (1);
            sig10 <= temp4;
          else
            s_proc_var1 <= state_2;
            buffer_output_waiter_c <= '0';
            temp5 := (var_wait <= 31);
            assert temp5 report "duration exceeds max_duration set in constructor";
            temp6 := (var_wait > 0);
            assert temp6 report "waiting for 0 ticks only possible when allow_zero is set to True";
            temp7 := (var_wait) - (1);
            sig10 <= temp7;
          end if;
        when state_2 =>
          temp8 := (sig10 /= 0);
          if temp8 then
            s_proc_var1 <= state_2;
            temp9 := (sig10) - (1);
            sig10 <= temp9;
          else
            temp10 := (zero_val <= 31);
            assert temp10 report "duration exceeds max_duration set in constructor";
            temp11 := (zero_val = 0);
            if temp11 then
              s_proc_var1 <= state_4;
              buffer_output_waiter_c <= '1';
              temp12 := (var_wait <= 31);
              assert temp12 report "duration exceeds max_duration set in constructor";
              temp13 := (var_wait > 0);
              assert temp13 report "waiting for 0 ticks only possible when allow_zero is set to True";
              temp14 := (var_wait) - (1);
              sig10 <= temp14;
            else
              s_proc_var1 <= state_3;
              temp15 := (zero_val) - (1);
              sig10 <= resize(temp15, 5);
            end if;
          end if;
        when state_3 =>
          temp16 := (sig10 /= 0);
          if temp16 then
            s_proc_var1 <= state_3;
            temp17 := (sig10) - (1);
            sig10 <= temp17;
          else
            s_proc_var1 <= state_4;
            buffer_output_waiter_c <= '1';
            temp12 := (var_wait <= 31);
            assert temp12 report "duration exceeds max_duration set in constructor";
            temp13 := (var_wait > 0);
            assert temp13 report "waiting for 0 ticks only possible when allow_zero is set to True";
            temp14 := (var_wait) - (1);
            sig10 <= temp14;
          end if;
        when state_4 =>
          temp18 := (sig10 /= 0);
          if temp18 then
            s_proc_var1 <= state_4;
            temp19 := (sig10) - (1);
            sig10 <= temp19;
          else
            s_proc_var1 <= state_0;
            buffer_output_waiter_c <= '0';
          end if;
        when others =>
          null;
      end case;
    end if;
  end process;
end architecture arch_test_wait_for;