library ieee;
use ieee.std_logic_1164.all;
use ieee.numeric_std.all;


entity test_spi_ctx_01 is
  port (
    clk : in std_logic;
    start_transaction : in std_logic;
    command : in std_logic_vector(7 downto 0);
    led : out std_logic_vector(7 downto 0);
    sclk : out std_logic;
    mosi : out std_logic;
    miso : in std_logic;
    cs : out std_logic
    );
end test_spi_ctx_01;


architecture arch_test_spi_ctx_01 of test_spi_ctx_01 is
  function cohdl_bool_to_std_logic(inp: boolean) return std_logic is
  begin
    if inp then
      return('1');
    else
      return('0');
    end if;
  end function cohdl_bool_to_std_logic;
  signal buffer_led : std_logic_vector(7 downto 0);
  signal buffer_sclk : std_logic;
  signal buffer_mosi : std_logic;
  signal buffer_cs : std_logic;
  signal combined_reset : std_logic;
  signal spi_toggle_reset : std_logic := '1';
  signal spi_toggle_counter : unsigned(2 downto 0) := unsigned'("000");
  signal spi_toggle_state : std_logic := '0';
  signal spi_toggle_rising : std_logic := '0';
  signal spi_toggle_falling : std_logic := '0';
  signal source : std_logic := '1';
  type state_proc is (state_0, state_1, state_2, state_3, state_4, state_5, state_6, state_7, state_8, state_9, state_10, state_11, state_12, state_13);
  signal s_proc : state_proc := state_0;
  signal out_shift_out : std_logic_vector(3 downto 0);
  signal out_shift_out1 : std_logic_vector(5 downto 0);
  signal in_shift_reg : std_logic_vector(4 downto 0);
  signal in_shift_reg1 : std_logic_vector(4 downto 0);
begin
  
  -- CONCURRENT BLOCK (buffer assignment)
  led <= buffer_led;
  sclk <= buffer_sclk;
  mosi <= buffer_mosi;
  cs <= buffer_cs;
  
  -- CONCURRENT BLOCK (logic)
  combined_reset <= spi_toggle_reset;
  

  proc: process(clk)
    variable temp : boolean;
    variable temp1 : unsigned(2 downto 0);
    variable temp2 : boolean;
    variable next_cnt : unsigned(2 downto 0);
    variable temp3 : boolean;
    variable temp4 : boolean;
    variable temp5 : boolean;
    variable temp6 : boolean;
    variable temp7 : boolean;
    variable temp8 : boolean;
    variable temp9 : boolean;
  begin
    if rising_edge(clk) then
      temp := combined_reset = '1';
      if temp then
        spi_toggle_counter <= unsigned'("000");
        spi_toggle_state <= '0';
        spi_toggle_rising <= '0';
        spi_toggle_falling <= '0';
      else
        temp1 := (spi_toggle_counter) + (1);
        temp2 := (spi_toggle_counter = 7);
        case temp2 is
          when true =>
            next_cnt := unsigned'("000");
          when others =>
            next_cnt := temp1;
        end case;
        spi_toggle_counter <= next_cnt;
        temp3 := (next_cnt < 4);
        spi_toggle_state <= cohdl_bool_to_std_logic(temp3);
        temp4 := spi_toggle_state = '1';
        temp5 := not (temp4);
        temp6 := temp5 and temp3;
        temp7 := not (temp3);
        temp8 := spi_toggle_state = '1';
        temp9 := temp8 and temp7;
        spi_toggle_rising <= cohdl_bool_to_std_logic(temp6);
        spi_toggle_falling <= cohdl_bool_to_std_logic(temp9);
      end if;
    end if;
  end process;
  
  -- CONCURRENT BLOCK (logic)
  buffer_sclk <= spi_toggle_state;
  
  -- CONCURRENT BLOCK (logic)
  buffer_cs <= source;
  

  proc1: process(clk)
    variable data : std_logic_vector(2 downto 0);
    variable val : std_logic_vector(3 downto 0);
    variable temp : std_logic_vector(3 downto 0);
    variable temp1 : boolean;
    variable temp2 : boolean;
    variable temp3 : boolean;
    variable temp4 : boolean;
    variable temp5 : boolean;
    variable temp6 : std_logic_vector(3 downto 0);
    variable temp7 : boolean;
    variable temp8 : boolean;
    variable val1 : std_logic_vector(5 downto 0);
    variable alias_out_shift_out : std_logic_vector(5 downto 0);
    variable temp9 : std_logic_vector(5 downto 0);
    variable temp10 : boolean;
    variable temp11 : boolean;
    variable temp12 : boolean;
    variable temp13 : boolean;
    variable temp14 : boolean;
    variable temp15 : std_logic_vector(5 downto 0);
    variable temp16 : boolean;
    variable temp17 : boolean;
    variable temp18 : std_logic;
    variable temp19 : boolean;
    variable temp20 : boolean;
    variable temp21 : boolean;
    variable temp22 : boolean;
    variable temp23 : boolean;
    variable temp24 : std_logic_vector(4 downto 0);
    variable temp25 : std_logic_vector(3 downto 0);
    variable temp26 : std_logic;
    variable temp27 : boolean;
    variable temp28 : boolean;
    variable temp29 : boolean;
    variable temp30 : boolean;
    variable temp31 : boolean;
    variable temp32 : std_logic_vector(4 downto 0);
    variable temp33 : std_logic_vector(3 downto 0);
  begin
    if rising_edge(clk) then
      case s_proc is
        when state_0 =>
          if start_transaction = '1' then
            s_proc <= state_1;
            source <= '0';
            spi_toggle_reset <= '0';
            data := std_logic_vector(command(7 downto 5));
            val := (data) & ('1');
            out_shift_out <= val;
          end if;
        when state_1 =>
          if spi_toggle_rising = '1' then
            s_proc <= state_2;
            temp := (std_logic_vector(out_shift_out(2 downto 0))) & ("0");
            temp1 := (temp /= "0000");
            temp2 := temp1;
            assert temp2 report "invalid shift, register already empty";
            out_shift_out <= temp;
            buffer_mosi <= out_shift_out(3);
          end if;
        when state_2 =>
          temp3 := (std_logic_vector(out_shift_out(2 downto 0)) /= "000");
          temp4 := not (temp3);
          temp5 := not (temp4);
          if temp5 then
            s_proc <= state_3;
          else
            s_proc <= state_4;
          end if;
        when state_3 =>
          if spi_toggle_rising = '1' then
            s_proc <= state_2;
            temp6 := (std_logic_vector(out_shift_out(2 downto 0))) & ("0");
            temp7 := (temp6 /= "0000");
            temp8 := temp7;
            assert temp8 report "invalid shift, register already empty";
            out_shift_out <= temp6;
            buffer_mosi <= out_shift_out(3);
          end if;
        when state_4 =>
          if spi_toggle_rising = '1' then
            s_proc <= state_5;
            buffer_mosi <= '0';
            val1 := (std_logic_vector(command(4 downto 0))) & ('1');
            alias_out_shift_out := val1;
            out_shift_out1 <= val1;
            temp9 := (std_logic_vector(alias_out_shift_out(4 downto 0))) & ("0");
            temp10 := (temp9 /= "000000");
            temp11 := temp10;
            assert temp11 report "invalid shift, register already empty";
            out_shift_out1 <= temp9;
            buffer_mosi <= alias_out_shift_out(5);
          end if;
        when state_5 =>
          temp12 := (std_logic_vector(out_shift_out1(4 downto 0)) /= "00000");
          temp13 := not (temp12);
          temp14 := not (temp13);
          if temp14 then
            s_proc <= state_6;
          else
            s_proc <= state_7;
          end if;
        when state_6 =>
          if spi_toggle_rising = '1' then
            s_proc <= state_5;
            temp15 := (std_logic_vector(out_shift_out1(4 downto 0))) & ("0");
            temp16 := (temp15 /= "000000");
            temp17 := temp16;
            assert temp17 report "invalid shift, register already empty";
            out_shift_out1 <= temp15;
            buffer_mosi <= out_shift_out1(5);
          end if;
        when state_7 =>
          if spi_toggle_rising = '1' then
            s_proc <= state_8;
            buffer_mosi <= '0';
            in_shift_reg <= "00001";
          end if;
        when state_8 =>
          temp18 := in_shift_reg(4);
          temp19 := temp18 = '1';
          temp20 := not (temp19);
          if temp20 then
            s_proc <= state_9;
          else
            s_proc <= state_10;
          end if;
        when state_9 =>
          if spi_toggle_falling = '1' then
            s_proc <= state_8;
            temp21 := (std_logic_vector(in_shift_reg(4 downto 4)) /= "0");
            temp22 := not (temp21);
            temp23 := temp22;
            assert temp23 report "invalid shift, register already full";
            temp24 := (std_logic_vector(in_shift_reg(3 downto 0))) & (miso);
            in_shift_reg <= temp24;
          end if;
        when state_10 =>
          if spi_toggle_rising = '1' then
            s_proc <= state_11;
            temp25 := std_logic_vector(in_shift_reg(3 downto 0));
            buffer_led(7 downto 4) <= temp25;
            in_shift_reg1 <= "00001";
          end if;
        when state_11 =>
          temp26 := in_shift_reg1(4);
          temp27 := temp26 = '1';
          temp28 := not (temp27);
          if temp28 then
            s_proc <= state_12;
          else
            s_proc <= state_13;
          end if;
        when state_12 =>
          if spi_toggle_falling = '1' then
            s_proc <= state_11;
            temp29 := (std_logic_vector(in_shift_reg1(4 downto 4)) /= "0");
            temp30 := not (temp29);
            temp31 := temp30;
            assert temp31 report "invalid shift, register already full";
            temp32 := (std_logic_vector(in_shift_reg1(3 downto 0))) & (miso);
            in_shift_reg1 <= temp32;
          end if;
        when state_13 =>
          if spi_toggle_rising = '1' then
            s_proc <= state_0;
            temp33 := std_logic_vector(in_shift_reg1(3 downto 0));
            buffer_led(3 downto 0) <= temp33;
            spi_toggle_reset <= '1';
            source <= '1';
          end if;
        when others =>
          null;
      end case;
    end if;
  end process;
end architecture arch_test_spi_ctx_01;