library ieee;
use ieee.std_logic_1164.all;
use ieee.numeric_std.all;


entity test_operations_const is
  port (
    input : in signed(3 downto 0);
    input_div : in signed(3 downto 0);
    op_add : out signed(3 downto 0);
    op_sub : out signed(3 downto 0);
    op_mul : out signed(7 downto 0);
    op_div : out signed(3 downto 0);
    op_mod : out signed(3 downto 0);
    op_rem : out signed(3 downto 0);
    op_add_2 : out signed(3 downto 0);
    op_sub_2 : out signed(3 downto 0);
    op_mul_2 : out signed(7 downto 0);
    op_div_2 : out signed(3 downto 0);
    op_mod_2 : out signed(3 downto 0);
    op_rem_2 : out signed(3 downto 0)
    );
end test_operations_const;


architecture arch_test_operations_const of test_operations_const is
  function cohdl_bool_to_std_logic(inp: boolean) return std_logic is
  begin
    if inp then
      return('1');
    else
      return('0');
    end if;
  end function cohdl_bool_to_std_logic;
  signal buffer_op_add : signed(3 downto 0);
  signal buffer_op_sub : signed(3 downto 0);
  signal buffer_op_mul : signed(7 downto 0);
  signal buffer_op_div : signed(3 downto 0);
  signal buffer_op_mod : signed(3 downto 0);
  signal buffer_op_rem : signed(3 downto 0);
  signal buffer_op_add_2 : signed(3 downto 0);
  signal buffer_op_sub_2 : signed(3 downto 0);
  signal buffer_op_mul_2 : signed(7 downto 0);
  signal buffer_op_div_2 : signed(3 downto 0);
  signal buffer_op_mod_2 : signed(3 downto 0);
  signal buffer_op_rem_2 : signed(3 downto 0);
  signal temp : signed(3 downto 0);
  signal temp1 : signed(3 downto 0);
  signal temp2 : signed(7 downto 0);
  signal temp3 : signed(3 downto 0);
  signal temp4 : signed(3 downto 0);
  signal temp5 : signed(3 downto 0);
  signal temp6 : signed(3 downto 0);
  signal temp7 : signed(3 downto 0);
  signal temp8 : signed(7 downto 0);
  signal temp9 : signed(3 downto 0);
  signal temp10 : signed(3 downto 0);
  signal temp11 : signed(3 downto 0);
begin
  
  -- CONCURRENT BLOCK (buffer assignment)
  op_add <= buffer_op_add;
  op_sub <= buffer_op_sub;
  op_mul <= buffer_op_mul;
  op_div <= buffer_op_div;
  op_mod <= buffer_op_mod;
  op_rem <= buffer_op_rem;
  op_add_2 <= buffer_op_add_2;
  op_sub_2 <= buffer_op_sub_2;
  op_mul_2 <= buffer_op_mul_2;
  op_div_2 <= buffer_op_div_2;
  op_mod_2 <= buffer_op_mod_2;
  op_rem_2 <= buffer_op_rem_2;
  
  -- CONCURRENT BLOCK (logic_simple)
  temp <= (input) + (signed'("0010"));
  buffer_op_add <= temp;
  temp1 <= (input) - (signed'("0010"));
  buffer_op_sub <= temp1;
  temp2 <= (input) * (signed'("0010"));
  buffer_op_mul <= temp2;
  temp3 <= (input) / (signed'("0010"));
  buffer_op_div <= temp3;
  temp4 <= (input) mod (signed'("0010"));
  buffer_op_mod <= temp4;
  temp5 <= (input) rem (signed'("0010"));
  buffer_op_rem <= temp5;
  temp6 <= (signed'("0010")) + (input);
  buffer_op_add_2 <= temp6;
  temp7 <= (signed'("0010")) - (input);
  buffer_op_sub_2 <= temp7;
  temp8 <= (signed'("0010")) * (input);
  buffer_op_mul_2 <= temp8;
  temp9 <= (signed'("0010")) / (input_div);
  buffer_op_div_2 <= temp9;
  temp10 <= (signed'("0010")) mod (input_div);
  buffer_op_mod_2 <= temp10;
  temp11 <= (signed'("0010")) rem (input_div);
  buffer_op_rem_2 <= temp11;
end architecture arch_test_operations_const;