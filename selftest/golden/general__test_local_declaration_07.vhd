library ieee;
use ieee.std_logic_1164.all;
use ieee.numeric_std.all;


entity test_local_declaration_07 is
  port (
    clk : in std_logic;
    step : in std_logic;
    inp1 : in std_logic;
    inp2 : in std_logic_vector(3 downto 0);
    inp3 : in unsigned(3 downto 0);
    inp4 : in signed(3 downto 0);
    out1 : out std_logic;
    out2 : out std_logic_vector(3 downto 0);
    out3 : out unsigned(3 downto 0);
    out4 : out signed(3 downto 0);
    outimm1 : out std_logic;
    outimm2 : out std_logic_vector(3 downto 0);
    outimm3 : out unsigned(3 downto 0);
    outimm4 : out signed(3 downto 0)
    );
end test_local_declaration_07;


architecture arch_test_local_declaration_07 of test_local_declaration_07 is
  function cohdl_bool_to_std_logic(inp: boolean) return std_logic is
  begin
    if inp then
      return('1');
    else
      return('0');
    end if;
  end function cohdl_bool_to_std_logic;
  signal buffer_out1 : std_logic := '0';
  signal buffer_out2 : std_logic_vector(3 downto 0) := "0000";
  signal buffer_out3 : unsigned(3 downto 0) := unsigned'("0000");
  signal buffer_out4 : signed(3 downto 0) := signed'("0000");
  signal buffer_outimm1 : std_logic := '0';
  signal buffer_outimm2 : std_logic_vector(3 downto 0) := "0000";
  signal buffer_outimm3 : unsigned(3 downto 0) := unsigned'("0000");
  signal buffer_outimm4 : signed(3 downto 0) := signed'("0000");
  type state_proc is (state_0, state_1);
  signal s_proc : state_proc := state_0;
  signal sig : std_logic;
  signal sig1 : std_logic_vector(3 downto 0);
  signal sig2 : unsigned(3 downto 0);
  signal sig3 : signed(3 downto 0);
begin
  
  -- CONCURRENT BLOCK (buffer assignment)
  out1 <= buffer_out1;
  out2 <= buffer_out2;
  out3 <= buffer_out3;
  out4 <= buffer_out4;
  outimm1 <= buffer_outimm1;
  outimm2 <= buffer_outimm2;
  outimm3 <= buffer_outimm3;
  outimm4 <= buffer_outimm4;
  

  proc: process(clk)
    variable alias1 : std_logic;
    variable alias2 : std_logic_vector(3 downto 0);
    variable alias3 : unsigned(3 downto 0);
    variable alias4 : signed(3 downto 0);
  begin
    if rising_edge(clk) then
      case s_proc is
        when state_0 =>
          if step = '1' then
            s_proc <= state_1;
            alias1 := inp1;
            sig <= inp1;
            alias2 := inp2;
            sig1 <= inp2;
            alias3 := inp3;
            sig2 <= inp3;
            alias4 := inp4;
            sig3 <= inp4;
            buffer_outimm1 <= alias1;
            buffer_outimm2 <= alias2;
            buffer_outimm3 <= alias3;
            buffer_outimm4 <= alias4;
          end if;
        when state_1 =>
          if step = '1' then
            s_proc <= state_0;
            buffer_out1 <= sig;
            buffer_out2 <= sig1;
            buffer_out3 <= sig2;
            buffer_out4 <= sig3;
          end if;
        when others =>
          null;
      end case;
    end if;
  end process;
end architecture arch_test_local_declaration_07;