library ieee;
use ieee.std_logic_1164.all;
use ieee.numeric_std.all;


entity test_true_false_04 is
  port (
    clk : in std_logic;
    reset : in std_logic;
    state : out unsigned(2 downto 0);
    inp_1 : in std_logic
    );
end test_true_false_04;


architecture arch_test_true_false_04 of test_true_false_04 is
  function cohdl_bool_to_std_logic(inp: boolean) return std_logic is
  begin
    if inp then
      return('1');
    else
      return('0');
    end if;
  end function cohdl_bool_to_std_logic;
  signal buffer_state : unsigned(2 downto 0) := unsigned'("000");
  type state_proc is (state_0, state_1, state_2, state_3);
  signal s_proc : state_proc := state_0;
begin
  
  -- CONCURRENT BLOCK (buffer assignment)
  state <= buffer_state;
  

  proc: process(clk)
    variable temp : boolean;
    variable temp1 : boolean;
  begin
    if rising_edge(clk) then
      temp := reset = '1';
      if temp then
        s_proc <= state_0;
        buffer_state <= unsigned'("000");
      else
        case s_proc is
          when state_0 =>
            s_proc <= state_1;
            buffer_state <= unsigned'("001");
          when state_1 =>
            buffer_state <= unsigned'("010");
            temp1 := inp_1 = '1';
            if temp1 then
              s_proc <= state_2;
            else
              s_proc <= state_3;
              buffer_state <= unsigned'("011");
            end if;
          when state_2 =>
            null;
          when state_3 =>
            s_proc <= state_0;
            buffer_state <= unsigned'("100");
          when others =>
            null;
        end case;
      end if;
    end if;
  end process;
end architecture arch_test_true_false_04;