library ieee;
use ieee.std_logic_1164.all;
use ieee.numeric_std.all;


entity test_operations_const is
  port (
    input : in signed(3 downto 0);
    input_div : in signed(3 downto 0);
    op_add : out signed(3 downto 0);
    op_sub : out signed(3 downto 0);
    op_mul : out signed(3 downto 0);
    op_div : out signed(3 downto 0);
    op_mod : out signed(3 downto 0);
    op_rem : out signed(3 downto 0);
    op_add_2 : out signed(3 downto 0);
    op_sub_2 : out signed(3 downto 0);
    op_mul_2 : out signed(3 downto 0);
    op_div_2 : out signed(3 downto 0);
    op_mod_2 : out signed(3 downto 0);
    op_rem_2 : out signed(3 downto 0)
    );
end test_operations_const;


architecture arch_test_operations_const of test_operations_const is
  function cohdl_bool_to_std_logic(inp: boolean) return std_logic is
  begin
    if inp then
      return('1');
    else
      return('0');
    end if;
  end function cohdl_bool_to_std_logic;
  signal buffer_op_add : signed(3 downto 0);
  signal buffer_op_sub : signed(3 downto 0);
  signal buffer_op_mul : signed(3 downto 0);
  signal buffer_op_div : signed(3 downto 0);
  signal buffer_op_mod : signed(3 downto 0);
  signal buffer_op_rem : signed(3 downto 0);
  signal buffer_op_add_2 : signed(3 downto 0);
  signal buffer_op_sub_2 : signed(3 downto 0);
  signal buffer_op_mul_2 : signed(3 downto 0);
  signal buffer_op_div_2 : signed(3 downto 0);
  signal buffer_op_mod_2 : signed(3 downto 0);
  signal buffer_op_rem_2 : signed(3 downto 0);
  signal temp : signed(3 downto 0);
  signal temp1 : signed(3 downto 0);
  signal temp2 : signed(3 downto 0);
  signal temp3 : signed(3 downto 0);
begin
  
  -- CONCURRENT BLOCK (buffer assignment)
  op_add <= buffer_op_add;
  op_sub <= buffer_op_sub;
  op_mul <= buffer_op_mul;
  op_div <= buffer_op_div;
  op_mod <= buffer_op_mod;
  op_rem <= buffer_op_rem;
  op_add_2 <= buffer_op_add_2;
  op_sub_2 <= buffer_op_sub_2;
  op_mul_2 <= buffer_op_mul_2;
  op_div_2 <= buffer_op_div_2;
  op_mod_2 <= buffer_op_mod_2;
  op_rem_2 <= buffer_op_rem_2;
  
  -- CONCURRENT BLOCK (logic_simple)
  temp <= (input) + (2);
  buffer_op_add <= temp;
  temp1 <= (input) - (2);
  buffer_op_sub <= temp1;
  temp2 <= (2) + (input);
  buffer_op_add_2 <= temp2;
  temp3 <= (2) - (input);
  buffer_op_sub_2 <= temp3;
end architecture arch_test_operations_const;