library ieee;
use ieee.std_logic_1164.all;
use ieee.numeric_std.all;


entity test_array_nested_01 is
  port (
    clk : in std_logic;
    rd_addr_a : in std_logic_vector(2 downto 0);
    rd_addr_b : in std_logic_vector(1 downto 0);
    rd_data : out std_logic_vector(15 downto 0);
    wr_addr_a : in std_logic_vector(2 downto 0);
    wr_addr_b : in std_logic_vector(1 downto 0);
    wr_data : in std_logic_vector(15 downto 0)
    );
end test_array_nested_01;


architecture arch_test_array_nested_01 of test_array_nested_01 is
  function cohdl_bool_to_std_logic(inp: boolean) return std_logic is
  begin
    if inp then
      return('1');
    else
      return('0');
    end if;
  end function cohdl_bool_to_std_logic;
  signal buffer_rd_data : std_logic_vector(15 downto 0);
  type array_type is array(0 to 3) of std_logic_vector(15 downto 0);
  type array_type1 is array(0 to 7) of array_type;
  signal mem : array_type1;
begin
  
  -- CONCURRENT BLOCK (buffer assignment)
  rd_data <= buffer_rd_data;
  

  proc: process(clk)
    variable temp : unsigned(1 downto 0);
    variable temp1 : unsigned(2 downto 0);
    variable temp2 : unsigned(2 downto 0);
    variable temp3 : unsigned(1 downto 0);
  begin
    if rising_edge(clk) then
      temp := unsigned(rd_addr_b);
      temp1 := unsigned(rd_addr_a);
      buffer_rd_data <= mem(to_integer(temp1))(to_integer(temp));
      temp2 := unsigned(wr_addr_a);
      temp3 := unsigned(wr_addr_b);
      mem(to_integer(temp2))(to_integer(temp3)) <= wr_data;
    end if;
  end process;
end architecture arch_test_array_nested_01;