library ieee;
use ieee.std_logic_1164.all;
use ieee.numeric_std.all;


entity test_fifo_03 is
  port (
    clk : in std_logic;
    reset : in std_logic;
    receive : in std_logic;
    in_bit : in std_logic;
    in_bit_vector : in std_logic_vector(6 downto 0);
    in_signed : in signed(7 downto 0);
    in_array : in std_logic_vector(7 downto 0);
    in_array2 : in std_logic_vector(7 downto 0);
    in_valid : in std_logic;
    out_bit : out std_logic;
    out_bit_vector : out std_logic_vector(6 downto 0);
    out_signed : out signed(7 downto 0);
    out_array : out std_logic_vector(7 downto 0);
    out_array2 : out std_logic_vector(7 downto 0);
    out_rec_bit : out std_logic;
    out_rec_bit_vector : out std_logic_vector(6 downto 0);
    out_rec_signed : out signed(7 downto 0);
    out_rec_array : out std_logic_vector(7 downto 0);
    out_rec_array2 : out std_logic_vector(7 downto 0);
    is_full_and : out std_logic;
    is_empty_and : out std_logic;
    is_full_or : out std_logic;
    is_empty_or : out std_logic
    );
end test_fifo_03;


architecture arch_test_fifo_03 of test_fifo_03 is
  function cohdl_bool_to_std_logic(inp: boolean) return std_logic is
  begin
    if inp then
      return('1');
    else
      return('0');
    end if;
  end function cohdl_bool_to_std_logic;
  signal buffer_out_bit : std_logic;
  signal buffer_out_bit_vector : std_logic_vector(6 downto 0);
  signal buffer_out_signed : signed(7 downto 0);
  signal buffer_out_array : std_logic_vector(7 downto 0);
  signal buffer_out_array2 : std_logic_vector(7 downto 0);
  signal buffer_out_rec_bit : std_logic;
  signal buffer_out_rec_bit_vector : std_logic_vector(6 downto 0);
  signal buffer_out_rec_signed : signed(7 downto 0);
  signal buffer_out_rec_array : std_logic_vector(7 downto 0);
  signal buffer_out_rec_array2 : std_logic_vector(7 downto 0);
  signal buffer_is_full_and : std_logic;
  signal buffer_is_empty_and : std_logic;
  signal buffer_is_full_or : std_logic;
  signal buffer_is_empty_or : std_logic;
  signal fifo_wr_index : unsigned(1 downto 0) := unsigned'("00");
  signal fifo_rd_index : unsigned(1 downto 0) := unsigned'("00");
  signal temp : boolean;
  signal fifo_empty : std_logic;
  signal temp1 : unsigned(1 downto 0);
  signal temp2 : boolean;
  signal fifo_full : std_logic;
  signal fifo_1_wr_index : unsigned(1 downto 0) := unsigned'("00");
  signal fifo_1_rd_index : unsigned(1 downto 0) := unsigned'("00");
  signal temp3 : boolean;
  signal fifo_1_empty : std_logic;
  signal temp4 : unsigned(1 downto 0);
  signal temp5 : boolean;
  signal fifo_1_full : std_logic;
  signal fifo_2_wr_index : unsigned(1 downto 0) := unsigned'("00");
  signal fifo_2_rd_index : unsigned(1 downto 0) := unsigned'("00");
  signal temp6 : boolean;
  signal fifo_2_empty : std_logic;
  signal temp7 : unsigned(1 downto 0);
  signal temp8 : boolean;
  signal fifo_2_full : std_logic;
  signal fifo_3_wr_index : unsigned(1 downto 0) := unsigned'("00");
  signal fifo_3_rd_index : unsigned(1 downto 0) := unsigned'("00");
  signal temp9 : boolean;
  signal fifo_3_empty : std_logic;
  signal temp10 : unsigned(1 downto 0);
  signal temp11 : boolean;
  signal fifo_3_full : std_logic;
  signal fifo_4_wr_index : unsigned(1 downto 0) := unsigned'("00");
  signal fifo_4_rd_index : unsigned(1 downto 0) := unsigned'("00");
  signal temp12 : boolean;
  signal fifo_4_empty : std_logic;
  signal temp13 : unsigned(1 downto 0);
  signal temp14 : boolean;
  signal fifo_4_full : std_logic;
  signal fifo_5_wr_index : unsigned(1 downto 0) := unsigned'("00");
  signal fifo_5_rd_index : unsigned(1 downto 0) := unsigned'("00");
  signal temp15 : boolean;
  signal fifo_5_empty : std_logic;
  signal temp16 : unsigned(1 downto 0);
  signal temp17 : boolean;
  signal fifo_5_full : std_logic;
  signal temp18 : boolean := false;
  signal temp19 : boolean := false;
  signal temp20 : boolean := false;
  signal temp21 : boolean := false;
  type array_type is array(0 to 7) of std_logic_vector(0 downto 0);
  signal sig : array_type;
  type array_type1 is array(0 to 3) of std_logic_vector(0 downto 0);
  type array_type2 is array(0 to 1) of array_type1;
  signal raw_val : array_type2;
  signal fifo_fifo_mem : array_type1;
  type array_type3 is array(0 to 3) of std_logic_vector(6 downto 0);
  signal fifo_1_fifo_1_mem : array_type3;
  type array_type4 is array(0 to 3) of std_logic_vector(7 downto 0);
  signal fifo_2_fifo_2_mem : array_type4;
  type array_type5 is array(0 to 3) of array_type;
  signal fifo_3_fifo_3_mem : array_type5;
  type array_type6 is array(0 to 3) of array_type2;
  signal fifo_4_fifo_4_mem : array_type6;
  type array_type7 is array(0 to 3) of std_logic_vector(31 downto 0);
  signal fifo_5_fifo_5_mem : array_type7;
begin
  
  -- CONCURRENT BLOCK (buffer assignment)
  out_bit <= buffer_out_bit;
  out_bit_vector <= buffer_out_bit_vector;
  out_signed <= buffer_out_signed;
  out_array <= buffer_out_array;
  out_array2 <= buffer_out_array2;
  out_rec_bit <= buffer_out_rec_bit;
  out_rec_bit_vector <= buffer_out_rec_bit_vector;
  out_rec_signed <= buffer_out_rec_signed;
  out_rec_array <= buffer_out_rec_array;
  out_rec_array2 <= buffer_out_rec_array2;
  is_full_and <= buffer_is_full_and;
  is_empty_and <= buffer_is_empty_and;
  is_full_or <= buffer_is_full_or;
  is_empty_or <= buffer_is_empty_or;
  
  -- CONCURRENT BLOCK (logic)
  temp <= (fifo_wr_index = fifo_rd_index);
  fifo_empty <= cohdl_bool_to_std_logic(temp);
  temp1 <= (fifo_wr_index) + (1);
  temp2 <= (temp1 = fifo_rd_index);
  fifo_full <= cohdl_bool_to_std_logic(temp2);
  
  -- CONCURRENT BLOCK (logic)
  temp3 <= (fifo_1_wr_index = fifo_1_rd_index);
  fifo_1_empty <= cohdl_bool_to_std_logic(temp3);
  temp4 <= (fifo_1_wr_index) + (1);
  temp5 <= (temp4 = fifo_1_rd_index);
  fifo_1_full <= cohdl_bool_to_std_logic(temp5);
  
  -- CONCURRENT BLOCK (logic)
  temp6 <= (fifo_2_wr_index = fifo_2_rd_index);
  fifo_2_empty <= cohdl_bool_to_std_logic(temp6);
  temp7 <= (fifo_2_wr_index) + (1);
  temp8 <= (temp7 = fifo_2_rd_index);
  fifo_2_full <= cohdl_bool_to_std_logic(temp8);
  
  -- CONCURRENT BLOCK (logic)
  temp9 <= (fifo_3_wr_index = fifo_3_rd_index);
  fifo_3_empty <= cohdl_bool_to_std_logic(temp9);
  temp10 <= (fifo_3_wr_index) + (1);
  temp11 <= (temp10 = fifo_3_rd_index);
  fifo_3_full <= cohdl_bool_to_std_logic(temp11);
  
  -- CONCURRENT BLOCK (logic)
  temp12 <= (fifo_4_wr_index = fifo_4_rd_index);
  fifo_4_empty <= cohdl_bool_to_std_logic(temp12);
  temp13 <= (fifo_4_wr_index) + (1);
  temp14 <= (temp13 = fifo_4_rd_index);
  fifo_4_full <= cohdl_bool_to_std_logic(temp14);
  
  -- CONCURRENT BLOCK (logic)
  temp15 <= (fifo_5_wr_index = fifo_5_rd_index);
  fifo_5_empty <= cohdl_bool_to_std_logic(temp15);
  temp16 <= (fifo_5_wr_index) + (1);
  temp17 <= (temp16 = fifo_5_rd_index);
  fifo_5_full <= cohdl_bool_to_std_logic(temp17);
  
  -- CONCURRENT BLOCK (logic)
  temp18 <= fifo_full = '1' and fifo_1_full = '1' and fifo_2_full = '1' and fifo_3_full = '1' and fifo_4_full = '1' and fifo_5_full = '1';
  buffer_is_full_and <= cohdl_bool_to_std_logic(temp18);
  temp19 <= fifo_full = '1' or fifo_1_full = '1' or fifo_2_full = '1' or fifo_3_full = '1' or fifo_4_full = '1' or fifo_5_full = '1';
  buffer_is_full_or <= cohdl_bool_to_std_logic(temp19);
  temp20 <= fifo_empty = '1' and fifo_1_empty = '1' and fifo_2_empty = '1' and fifo_3_empty = '1' and fifo_4_empty = '1' and fifo_5_empty = '1';
  buffer_is_empty_and <= cohdl_bool_to_std_logic(temp20);
  temp21 <= fifo_empty = '1' or fifo_1_empty = '1' or fifo_2_empty = '1' or fifo_3_empty = '1' or fifo_4_empty = '1' or fifo_5_empty = '1';
  buffer_is_empty_or <= cohdl_bool_to_std_logic(temp21);
  sig(0)(0) <= in_array(0);
  sig(1)(0) <= in_array(1);
  sig(2)(0) <= in_array(2);
  sig(3)(0) <= in_array(3);
  sig(4)(0) <= in_array(4);
  sig(5)(0) <= in_array(5);
  sig(6)(0) <= in_array(6);
  sig(7)(0) <= in_array(7);
  raw_val(0)(0) <= std_logic_vector(in_array2(0 downto 0));
  raw_val(0)(1) <= std_logic_vector(in_array2(1 downto 1));
  raw_val(0)(2) <= std_logic_vector(in_array2(2 downto 2));
  raw_val(0)(3) <= std_logic_vector(in_array2(3 downto 3));
  raw_val(1)(0) <= std_logic_vector(in_array2(4 downto 4));
  raw_val(1)(1) <= std_logic_vector(in_array2(5 downto 5));
  raw_val(1)(2) <= std_logic_vector(in_array2(6 downto 6));
  raw_val(1)(3) <= std_logic_vector(in_array2(7 downto 7));
  

  proc_sender: process(clk)
    variable temp22 : boolean := false;
    variable temp23 : boolean := false;
    variable temp24 : boolean := false;
    variable inp : std_logic := '0';
    variable temp25 : std_logic_vector(1 downto 0) := "00";
    variable temp26 : unsigned(1 downto 0) := unsigned'("00");
    variable temp27 : unsigned(1 downto 0) := unsigned'("00");
    variable temp28 : boolean := false;
    variable temp29 : boolean := false;
    variable inp1 : std_logic_vector(6 downto 0) := "0000000";
    variable temp30 : std_logic_vector(6 downto 0) := "0000000";
    variable temp31 : unsigned(1 downto 0) := unsigned'("00");
    variable temp32 : unsigned(1 downto 0) := unsigned'("00");
    variable temp33 : boolean := false;
    variable temp34 : boolean := false;
    variable inp2 : signed(7 downto 0) := signed'("00000000");
    variable temp35 : std_logic_vector(7 downto 0) := "00000000";
    variable temp36 : unsigned(1 downto 0) := unsigned'("00");
    variable temp37 : unsigned(1 downto 0) := unsigned'("00");
    variable temp38 : boolean := false;
    variable temp39 : boolean := false;
    variable temp40 : unsigned(1 downto 0) := unsigned'("00");
    variable temp41 : unsigned(1 downto 0) := unsigned'("00");
    variable temp42 : boolean := false;
    variable temp43 : boolean := false;
    variable temp44 : unsigned(1 downto 0) := unsigned'("00");
    variable temp45 : unsigned(1 downto 0) := unsigned'("00");
    variable inp3 : std_logic := '0';
    variable inp4 : std_logic_vector(6 downto 0) := "0000000";
    variable inp5 : signed(7 downto 0) := signed'("00000000");
    variable inp6 : std_logic := '0';
    variable inp7 : std_logic := '0';
    variable inp8 : std_logic := '0';
    variable inp9 : std_logic := '0';
    variable inp10 : std_logic := '0';
    variable inp11 : std_logic := '0';
    variable inp12 : std_logic := '0';
    variable inp13 : std_logic := '0';
    variable temp46 : std_logic_vector(1 downto 0) := "00";
    variable temp47 : std_logic_vector(1 downto 0) := "00";
    variable temp48 : std_logic_vector(1 downto 0) := "00";
    variable temp49 : std_logic_vector(1 downto 0) := "00";
    variable temp50 : std_logic_vector(1 downto 0) := "00";
    variable temp51 : std_logic_vector(1 downto 0) := "00";
    variable temp52 : std_logic_vector(1 downto 0) := "00";
    variable temp53 : std_logic_vector(1 downto 0) := "00";
    variable inp14 : array_type := ( 0 => "0", 1 => "0", 2 => "0", 3 => "0", 4 => "0", 5 => "0", 6 => "0", 7 => "0" );
    variable temp54 : array_type2 := ( 0 => ( 0 => "0", 1 => "0", 2 => "0", 3 => "0" ), 1 => ( 0 => "0", 1 => "0", 2 => "0", 3 => "0" ) );
    variable temp55 : boolean := false;
    variable temp56 : boolean := false;
    variable temp57 : std_logic_vector(1 downto 0) := "00";
    variable temp58 : std_logic_vector(1 downto 0) := "00";
    variable temp59 : std_logic_vector(1 downto 0) := "00";
    variable temp60 : std_logic_vector(1 downto 0) := "00";
    variable temp61 : std_logic_vector(1 downto 0) := "00";
    variable temp62 : std_logic_vector(1 downto 0) := "00";
    variable temp63 : std_logic_vector(1 downto 0) := "00";
    variable temp64 : std_logic_vector(1 downto 0) := "00";
    variable inp15 : array_type := ( 0 => "0", 1 => "0", 2 => "0", 3 => "0", 4 => "0", 5 => "0", 6 => "0", 7 => "0" );
    variable inp16 : array_type2 := ( 0 => ( 0 => "0", 1 => "0", 2 => "0", 3 => "0" ), 1 => ( 0 => "0", 1 => "0", 2 => "0", 3 => "0" ) );
    variable b : std_logic_vector(0 downto 0) := "0";
    variable a : std_logic_vector(0 downto 0) := "0";
    variable b1 : std_logic_vector(0 downto 0) := "0";
    variable first : std_logic_vector(0 downto 0) := "0";
    variable a1 : std_logic_vector(1 downto 0) := "00";
    variable b2 : std_logic_vector(1 downto 0) := "00";
    variable b3 : std_logic_vector(3 downto 0) := "0000";
    variable b4 : std_logic_vector(0 downto 0) := "0";
    variable a2 : std_logic_vector(0 downto 0) := "0";
    variable b5 : std_logic_vector(0 downto 0) := "0";
    variable first1 : std_logic_vector(0 downto 0) := "0";
    variable a3 : std_logic_vector(1 downto 0) := "00";
    variable b6 : std_logic_vector(1 downto 0) := "00";
    variable first2 : std_logic_vector(3 downto 0) := "0000";
    variable first3 : std_logic_vector(7 downto 0) := "00000000";
    variable b7 : std_logic_vector(0 downto 0) := "0";
    variable a4 : std_logic_vector(0 downto 0) := "0";
    variable b8 : std_logic_vector(0 downto 0) := "0";
    variable a5 : std_logic_vector(0 downto 0) := "0";
    variable b9 : std_logic_vector(0 downto 0) := "0";
    variable a6 : std_logic_vector(0 downto 0) := "0";
    variable b10 : std_logic_vector(0 downto 0) := "0";
    variable first4 : std_logic_vector(0 downto 0) := "0";
    variable a7 : std_logic_vector(1 downto 0) := "00";
    variable b11 : std_logic_vector(1 downto 0) := "00";
    variable a8 : std_logic_vector(1 downto 0) := "00";
    variable b12 : std_logic_vector(1 downto 0) := "00";
    variable a9 : std_logic_vector(3 downto 0) := "0000";
    variable b13 : std_logic_vector(3 downto 0) := "0000";
    variable b14 : std_logic_vector(7 downto 0) := "00000000";
    variable a10 : std_logic_vector(7 downto 0) := "00000000";
    variable b15 : std_logic_vector(6 downto 0) := "0000000";
    variable b16 : std_logic_vector(1 downto 0) := "00";
    variable a11 : std_logic_vector(15 downto 0) := "0000000000000000";
    variable b17 : std_logic_vector(14 downto 0) := "000000000000000";
    variable a12 : std_logic_vector(30 downto 0) := "0000000000000000000000000000000";
    variable temp65 : std_logic_vector(31 downto 0) := "00000000000000000000000000000000";
    variable temp66 : unsigned(1 downto 0) := unsigned'("00");
    variable temp67 : unsigned(1 downto 0) := unsigned'("00");
  begin
    if rising_edge(clk) then
      temp22 := reset = '1';
      if temp22 then
        fifo_wr_index <= unsigned'("00");
        fifo_1_wr_index <= unsigned'("00");
        fifo_2_wr_index <= unsigned'("00");
        fifo_3_wr_index <= unsigned'("00");
        fifo_4_wr_index <= unsigned'("00");
        fifo_5_wr_index <= unsigned'("00");
      else
        if in_valid = '1' then
          temp23 := fifo_full = '1';
          temp24 := not (temp23);
          assert temp24 report "writing to full fifo";
          inp := in_bit;
          temp25 := (inp) & (inp);
          temp26 := fifo_wr_index;
          fifo_fifo_mem(to_integer(temp26)) <= std_logic_vector(temp25(0 downto 0));
          temp27 := (fifo_wr_index) + (1);
          fifo_wr_index <= temp27;
          temp28 := fifo_1_full = '1';
          temp29 := not (temp28);
          assert temp29 report "writing to full fifo";
          inp1 := in_bit_vector;
          temp30 := inp1;
          temp31 := fifo_1_wr_index;
          fifo_1_fifo_1_mem(to_integer(temp31)) <= temp30;
          temp32 := (fifo_1_wr_index) + (1);
          fifo_1_wr_index <= temp32;
          temp33 := fifo_2_full = '1';
          temp34 := not (temp33);
          assert temp34 report "writing to full fifo";
          inp2 := in_signed;
          temp35 := std_logic_vector(inp2);
          temp36 := fifo_2_wr_index;
          fifo_2_fifo_2_mem(to_integer(temp36)) <= temp35;
          temp37 := (fifo_2_wr_index) + (1);
          fifo_2_wr_index <= temp37;
          temp38 := fifo_3_full = '1';
          temp39 := not (temp38);
          assert temp39 report "writing to full fifo";
          temp40 := fifo_3_wr_index;
          fifo_3_fifo_3_mem(to_integer(temp40)) <= sig;
          temp41 := (fifo_3_wr_index) + (1);
          fifo_3_wr_index <= temp41;
          temp42 := fifo_4_full = '1';
          temp43 := not (temp42);
          assert temp43 report "writing to full fifo";
          temp44 := fifo_4_wr_index;
          fifo_4_fifo_4_mem(to_integer(temp44)) <= raw_val;
          temp45 := (fifo_4_wr_index) + (1);
          fifo_4_wr_index <= temp45;
          inp3 := in_bit;
          inp4 := in_bit_vector;
          inp5 := in_signed;
          inp6 := sig(0)(0);
          inp7 := sig(1)(0);
          inp8 := sig(2)(0);
          inp9 := sig(3)(0);
          inp10 := sig(4)(0);
          inp11 := sig(5)(0);
          inp12 := sig(6)(0);
          inp13 := sig(7)(0);
          temp46 := (inp6) & (inp6);
          temp47 := (inp7) & (inp7);
          temp48 := (inp8) & (inp8);
          temp49 := (inp9) & (inp9);
          temp50 := (inp10) & (inp10);
          temp51 := (inp11) & (inp11);
          temp52 := (inp12) & (inp12);
          temp53 := (inp13) & (inp13);
          inp14 := ( 0 => std_logic_vector(temp46(0 downto 0)), 1 => std_logic_vector(temp47(0 downto 0)), 2 => std_logic_vector(temp48(0 downto 0)), 3 => std_logic_vector(temp49(0 downto 0)), 4 => std_logic_vector(temp50(0 downto 0)), 5 => std_logic_vector(temp51(0 downto 0)), 6 => std_logic_vector(temp52(0 downto 0)), 7 => std_logic_vector(temp53(0 downto 0)) );
          temp54 := ( 0 => raw_val(0), 1 => raw_val(1) );
          temp55 := fifo_5_full = '1';
          temp56 := not (temp55);
          assert temp56 report "writing to full fifo";
          temp57 := (inp14(0)(0)) & (inp14(0)(0));
          temp58 := (inp14(1)(0)) & (inp14(1)(0));
          temp59 := (inp14(2)(0)) & (inp14(2)(0));
          temp60 := (inp14(3)(0)) & (inp14(3)(0));
          temp61 := (inp14(4)(0)) & (inp14(4)(0));
          temp62 := (inp14(5)(0)) & (inp14(5)(0));
          temp63 := (inp14(6)(0)) & (inp14(6)(0));
          temp64 := (inp14(7)(0)) & (inp14(7)(0));
          inp15 := ( 0 => std_logic_vector(temp57(0 downto 0)), 1 => std_logic_vector(temp58(0 downto 0)), 2 => std_logic_vector(temp59(0 downto 0)), 3 => std_logic_vector(temp60(0 downto 0)), 4 => std_logic_vector(temp61(0 downto 0)), 5 => std_logic_vector(temp62(0 downto 0)), 6 => std_logic_vector(temp63(0 downto 0)), 7 => std_logic_vector(temp64(0 downto 0)) );
          inp16 := ( 0 => temp54(0), 1 => temp54(1) );
          b := inp16(0)(0);
          a := inp16(0)(1);
          b1 := inp16(0)(2);
          first := inp16(0)(3);
          a1 := (first) & (b1);
          b2 := (a) & (b);
          b3 := (a1) & (b2);
          b4 := inp16(1)(0);
          a2 := inp16(1)(1);
          b5 := inp16(1)(2);
          first1 := inp16(1)(3);
          a3 := (first1) & (b5);
          b6 := (a2) & (b4);
          first2 := (a3) & (b6);
          first3 := (first2) & (b3);
          b7 := inp15(0);
          a4 := inp15(1);
          b8 := inp15(2);
          a5 := inp15(3);
          b9 := inp15(4);
          a6 := inp15(5);
          b10 := inp15(6);
          first4 := inp15(7);
          a7 := (first4) & (b10);
          b11 := (a6) & (b9);
          a8 := (a5) & (b8);
          b12 := (a4) & (b7);
          a9 := (a7) & (b11);
          b13 := (a8) & (b12);
          b14 := (a9) & (b13);
          a10 := std_logic_vector(inp5);
          b15 := inp4;
          b16 := (inp3) & (inp3);
          a11 := (first3) & (b14);
          b17 := (a10) & (b15);
          a12 := (a11) & (b17);
          temp65 := (a12) & (std_logic_vector(b16(0 downto 0)));
          temp66 := fifo_5_wr_index;
          fifo_5_fifo_5_mem(to_integer(temp66)) <= temp65;
          temp67 := (fifo_5_wr_index) + (1);
          fifo_5_wr_index <= temp67;
        end if;
      end if;
    end if;
  end process;
  

  proc_receiver_bit: process(clk)
    variable temp22 : boolean := false;
    variable temp23 : boolean := false;
    variable temp24 : boolean := false;
    variable temp25 : boolean := false;
    variable temp26 : boolean := false;
    variable temp27 : boolean := false;
    variable temp28 : unsigned(1 downto 0) := unsigned'("00");
    variable temp29 : unsigned(1 downto 0) := unsigned'("00");
    variable temp30 : std_logic := '0';
  begin
    if rising_edge(clk) then
      temp22 := reset = '1';
      if temp22 then
        fifo_rd_index <= unsigned'("00");
      else
        temp23 := receive = '1';
        if temp23 then
          temp24 := fifo_empty = '1';
          temp25 := not (temp24);
          if temp25 then
            temp26 := fifo_empty = '1';
            temp27 := not (temp26);
            assert temp27 report "reading from empty fifo";
            temp28 := (fifo_rd_index) + (1);
            fifo_rd_index <= temp28;
            temp29 := fifo_rd_index;
            temp30 := fifo_fifo_mem(to_integer(temp29))(0);
            buffer_out_bit <= temp30;
          end if;
        end if;
      end if;
    end if;
  end process;
  

  proc_receiver_bit_vector: process(clk)
    variable temp22 : boolean := false;
    variable temp23 : boolean := false;
    variable temp24 : boolean := false;
    variable temp25 : boolean := false;
    variable temp26 : boolean := false;
    variable temp27 : boolean := false;
    variable temp28 : unsigned(1 downto 0) := unsigned'("00");
    variable temp29 : unsigned(1 downto 0) := unsigned'("00");
    variable temp30 : std_logic_vector(6 downto 0) := "0000000";
  begin
    if rising_edge(clk) then
      temp22 := reset = '1';
      if temp22 then
        fifo_1_rd_index <= unsigned'("00");
      else
        temp23 := receive = '1';
        if temp23 then
          temp24 := fifo_1_empty = '1';
          temp25 := not (temp24);
          if temp25 then
            temp26 := fifo_1_empty = '1';
            temp27 := not (temp26);
            assert temp27 report "reading from empty fifo";
            temp28 := (fifo_1_rd_index) + (1);
            fifo_1_rd_index <= temp28;
            temp29 := fifo_1_rd_index;
            temp30 := fifo_1_fifo_1_mem(to_integer(temp29));
            buffer_out_bit_vector <= temp30;
          end if;
        end if;
      end if;
    end if;
  end process;
  

  proc_receiver_signed: process(clk)
    variable temp22 : boolean := false;
    variable temp23 : boolean := false;
    variable temp24 : boolean := false;
    variable temp25 : boolean := false;
    variable temp26 : boolean := false;
    variable temp27 : boolean := false;
    variable temp28 : unsigned(1 downto 0) := unsigned'("00");
    variable temp29 : unsigned(1 downto 0) := unsigned'("00");
    variable temp30 : signed(7 downto 0) := signed'("00000000");
  begin
    if rising_edge(clk) then
      temp22 := reset = '1';
      if temp22 then
        fifo_2_rd_index <= unsigned'("00");
      else
        temp23 := receive = '1';
        if temp23 then
          temp24 := fifo_2_empty = '1';
          temp25 := not (temp24);
          if temp25 then
            temp26 := fifo_2_empty = '1';
            temp27 := not (temp26);
            assert temp27 report "reading from empty fifo";
            temp28 := (fifo_2_rd_index) + (1);
            fifo_2_rd_index <= temp28;
            temp29 := fifo_2_rd_index;
            temp30 := signed(fifo_2_fifo_2_mem(to_integer(temp29)));
            buffer_out_signed <= temp30;
          end if;
        end if;
      end if;
    end if;
  end process;
  

  proc_receiver_array: process(clk)
    variable temp22 : boolean := false;
    variable temp23 : boolean := false;
    variable temp24 : boolean := false;
    variable temp25 : boolean := false;
    variable temp26 : boolean := false;
    variable temp27 : boolean := false;
    variable temp28 : unsigned(1 downto 0) := unsigned'("00");
    variable temp29 : unsigned(1 downto 0) := unsigned'("00");
    variable raw_val1 : array_type := ( 0 => "0", 1 => "0", 2 => "0", 3 => "0", 4 => "0", 5 => "0", 6 => "0", 7 => "0" );
  begin
    if rising_edge(clk) then
      temp22 := reset = '1';
      if temp22 then
        fifo_3_rd_index <= unsigned'("00");
      else
        temp23 := receive = '1';
        if temp23 then
          temp24 := fifo_3_empty = '1';
          temp25 := not (temp24);
          if temp25 then
            temp26 := fifo_3_empty = '1';
            temp27 := not (temp26);
            assert temp27 report "reading from empty fifo";
            temp28 := (fifo_3_rd_index) + (1);
            fifo_3_rd_index <= temp28;
            temp29 := fifo_3_rd_index;
            raw_val1 := fifo_3_fifo_3_mem(to_integer(temp29));
            buffer_out_array(0) <= raw_val1(0)(0);
            buffer_out_array(1) <= raw_val1(1)(0);
            buffer_out_array(2) <= raw_val1(2)(0);
            buffer_out_array(3) <= raw_val1(3)(0);
            buffer_out_array(4) <= raw_val1(4)(0);
            buffer_out_array(5) <= raw_val1(5)(0);
            buffer_out_array(6) <= raw_val1(6)(0);
            buffer_out_array(7) <= raw_val1(7)(0);
          end if;
        end if;
      end if;
    end if;
  end process;
  

  proc_receiver_array2: process(clk)
    variable temp22 : boolean := false;
    variable temp23 : boolean := false;
    variable temp24 : boolean := false;
    variable temp25 : boolean := false;
    variable temp26 : boolean := false;
    variable temp27 : boolean := false;
    variable temp28 : unsigned(1 downto 0) := unsigned'("00");
    variable temp29 : unsigned(1 downto 0) := unsigned'("00");
    variable raw_val1 : array_type2 := ( 0 => ( 0 => "0", 1 => "0", 2 => "0", 3 => "0" ), 1 => ( 0 => "0", 1 => "0", 2 => "0", 3 => "0" ) );
  begin
    if rising_edge(clk) then
      temp22 := reset = '1';
      if temp22 then
        fifo_4_rd_index <= unsigned'("00");
      else
        temp23 := receive = '1';
        if temp23 then
          temp24 := fifo_4_empty = '1';
          temp25 := not (temp24);
          if temp25 then
            temp26 := fifo_4_empty = '1';
            temp27 := not (temp26);
            assert temp27 report "reading from empty fifo";
            temp28 := (fifo_4_rd_index) + (1);
            fifo_4_rd_index <= temp28;
            temp29 := fifo_4_rd_index;
            raw_val1 := fifo_4_fifo_4_mem(to_integer(temp29));
            buffer_out_array2(0 downto 0) <= raw_val1(0)(0);
            buffer_out_array2(1 downto 1) <= raw_val1(0)(1);
            buffer_out_array2(2 downto 2) <= raw_val1(0)(2);
            buffer_out_array2(3 downto 3) <= raw_val1(0)(3);
            buffer_out_array2(4 downto 4) <= raw_val1(1)(0);
            buffer_out_array2(5 downto 5) <= raw_val1(1)(1);
            buffer_out_array2(6 downto 6) <= raw_val1(1)(2);
            buffer_out_array2(7 downto 7) <= raw_val1(1)(3);
          end if;
        end if;
      end if;
    end if;
  end process;
  

  proc_receiver_record: process(clk)
    variable temp22 : boolean := false;
    variable temp23 : boolean := false;
    variable temp24 : boolean := false;
    variable temp25 : boolean := false;
    variable temp26 : boolean := false;
    variable temp27 : boolean := false;
    variable temp28 : unsigned(1 downto 0) := unsigned'("00");
    variable temp29 : unsigned(1 downto 0) := unsigned'("00");
    variable temp30 : std_logic := '0';
    variable temp31 : std_logic_vector(6 downto 0) := "0000000";
    variable temp32 : signed(7 downto 0) := signed'("00000000");
    variable inp : std_logic := '0';
    variable inp1 : std_logic := '0';
    variable inp2 : std_logic := '0';
    variable inp3 : std_logic := '0';
    variable inp4 : std_logic := '0';
    variable inp5 : std_logic := '0';
    variable inp6 : std_logic := '0';
    variable inp7 : std_logic := '0';
    variable temp33 : std_logic_vector(1 downto 0) := "00";
    variable temp34 : std_logic_vector(1 downto 0) := "00";
    variable temp35 : std_logic_vector(1 downto 0) := "00";
    variable temp36 : std_logic_vector(1 downto 0) := "00";
    variable temp37 : std_logic_vector(1 downto 0) := "00";
    variable temp38 : std_logic_vector(1 downto 0) := "00";
    variable temp39 : std_logic_vector(1 downto 0) := "00";
    variable temp40 : std_logic_vector(1 downto 0) := "00";
    variable temp41 : array_type := ( 0 => "0", 1 => "0", 2 => "0", 3 => "0", 4 => "0", 5 => "0", 6 => "0", 7 => "0" );
    variable inp8 : std_logic_vector(0 downto 0) := "0";
    variable inp9 : std_logic_vector(0 downto 0) := "0";
    variable inp10 : std_logic_vector(0 downto 0) := "0";
    variable inp11 : std_logic_vector(0 downto 0) := "0";
    variable temp42 : std_logic_vector(0 downto 0) := "0";
    variable temp43 : std_logic_vector(0 downto 0) := "0";
    variable temp44 : std_logic_vector(0 downto 0) := "0";
    variable temp45 : std_logic_vector(0 downto 0) := "0";
    variable temp46 : array_type1 := ( 0 => "0", 1 => "0", 2 => "0", 3 => "0" );
    variable inp12 : std_logic_vector(0 downto 0) := "0";
    variable inp13 : std_logic_vector(0 downto 0) := "0";
    variable inp14 : std_logic_vector(0 downto 0) := "0";
    variable inp15 : std_logic_vector(0 downto 0) := "0";
    variable temp47 : std_logic_vector(0 downto 0) := "0";
    variable temp48 : std_logic_vector(0 downto 0) := "0";
    variable temp49 : std_logic_vector(0 downto 0) := "0";
    variable temp50 : std_logic_vector(0 downto 0) := "0";
    variable temp51 : array_type1 := ( 0 => "0", 1 => "0", 2 => "0", 3 => "0" );
    variable raw_val1 : array_type2 := ( 0 => ( 0 => "0", 1 => "0", 2 => "0", 3 => "0" ), 1 => ( 0 => "0", 1 => "0", 2 => "0", 3 => "0" ) );
  begin
    if rising_edge(clk) then
      temp22 := reset = '1';
      if temp22 then
        fifo_5_rd_index <= unsigned'("00");
      else
        temp23 := receive = '1';
        if temp23 then
          temp24 := fifo_5_empty = '1';
          temp25 := not (temp24);
          if temp25 then
            temp26 := fifo_5_empty = '1';
            temp27 := not (temp26);
            assert temp27 report "reading from empty fifo";
            temp28 := (fifo_5_rd_index) + (1);
            fifo_5_rd_index <= temp28;
            temp29 := fifo_5_rd_index;
            temp30 := fifo_5_fifo_5_mem(to_integer(temp29))(0);
            temp31 := std_logic_vector(fifo_5_fifo_5_mem(to_integer(temp29))(7 downto 1));
            temp32 := signed(std_logic_vector(fifo_5_fifo_5_mem(to_integer(temp29))(15 downto 8)));
            inp := fifo_5_fifo_5_mem(to_integer(temp29))(16);
            inp1 := fifo_5_fifo_5_mem(to_integer(temp29))(17);
            inp2 := fifo_5_fifo_5_mem(to_integer(temp29))(18);
            inp3 := fifo_5_fifo_5_mem(to_integer(temp29))(19);
            inp4 := fifo_5_fifo_5_mem(to_integer(temp29))(20);
            inp5 := fifo_5_fifo_5_mem(to_integer(temp29))(21);
            inp6 := fifo_5_fifo_5_mem(to_integer(temp29))(22);
            inp7 := fifo_5_fifo_5_mem(to_integer(temp29))(23);
            temp33 := (inp) & (inp);
            temp34 := (inp1) & (inp1);
            temp35 := (inp2) & (inp2);
            temp36 := (inp3) & (inp3);
            temp37 := (inp4) & (inp4);
            temp38 := (inp5) & (inp5);
            temp39 := (inp6) & (inp6);
            temp40 := (inp7) & (inp7);
            temp41 := ( 0 => std_logic_vector(temp33(0 downto 0)), 1 => std_logic_vector(temp34(0 downto 0)), 2 => std_logic_vector(temp35(0 downto 0)), 3 => std_logic_vector(temp36(0 downto 0)), 4 => std_logic_vector(temp37(0 downto 0)), 5 => std_logic_vector(temp38(0 downto 0)), 6 => std_logic_vector(temp39(0 downto 0)), 7 => std_logic_vector(temp40(0 downto 0)) );
            inp8 := std_logic_vector(fifo_5_fifo_5_mem(to_integer(temp29))(24 downto 24));
            inp9 := std_logic_vector(fifo_5_fifo_5_mem(to_integer(temp29))(25 downto 25));
            inp10 := std_logic_vector(fifo_5_fifo_5_mem(to_integer(temp29))(26 downto 26));
            inp11 := std_logic_vector(fifo_5_fifo_5_mem(to_integer(temp29))(27 downto 27));
            temp42 := inp8;
            temp43 := inp9;
            temp44 := inp10;
            temp45 := inp11;
            temp46 := ( 0 => temp42, 1 => temp43, 2 => temp44, 3 => temp45 );
            inp12 := std_logic_vector(fifo_5_fifo_5_mem(to_integer(temp29))(28 downto 28));
            inp13 := std_logic_vector(fifo_5_fifo_5_mem(to_integer(temp29))(29 downto 29));
            inp14 := std_logic_vector(fifo_5_fifo_5_mem(to_integer(temp29))(30 downto 30));
            inp15 := std_logic_vector(fifo_5_fifo_5_mem(to_integer(temp29))(31 downto 31));
            temp47 := inp12;
            temp48 := inp13;
            temp49 := inp14;
            temp50 := inp15;
            temp51 := ( 0 => temp47, 1 => temp48, 2 => temp49, 3 => temp50 );
            raw_val1 := ( 0 => temp46, 1 => temp51 );
            buffer_out_rec_bit <= temp30;
            buffer_out_rec_bit_vector <= temp31;
            buffer_out_rec_signed <= temp32;
            buffer_out_rec_array(0) <= temp41(0)(0);
            buffer_out_rec_array(1) <= temp41(1)(0);
            buffer_out_rec_array(2) <= temp41(2)(0);
            buffer_out_rec_array(3) <= temp41(3)(0);
            buffer_out_rec_array(4) <= temp41(4)(0);
            buffer_out_rec_array(5) <= temp41(5)(0);
            buffer_out_rec_array(6) <= temp41(6)(0);
            buffer_out_rec_array(7) <= temp41(7)(0);
            buffer_out_rec_array2(0 downto 0) <= raw_val1(0)(0);
            buffer_out_rec_array2(1 downto 1) <= raw_val1(0)(1);
            buffer_out_rec_array2(2 downto 2) <= raw_val1(0)(2);
            buffer_out_rec_array2(3 downto 3) <= raw_val1(0)(3);
            buffer_out_rec_array2(4 downto 4) <= raw_val1(1)(0);
            buffer_out_rec_array2(5 downto 5) <= raw_val1(1)(1);
            buffer_out_rec_array2(6 downto 6) <= raw_val1(1)(2);
            buffer_out_rec_array2(7 downto 7) <= raw_val1(1)(3);
          end if;
        end if;
      end if;
    end if;
  end process;
end architecture arch_test_fifo_03;