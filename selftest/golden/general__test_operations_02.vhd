library ieee;
use ieee.std_logic_1164.all;
use ieee.numeric_std.all;


entity simple_concat is
  port (
    inp_bit : in std_logic;
    inp_vector : in std_logic_vector(7 downto 0);
    inp_signed : in signed(7 downto 0);
    inp_unsigned : in unsigned(7 downto 0);
    out_concat_b_b : out std_logic_vector(1 downto 0);
    out_concat_b_v : out std_logic_vector(8 downto 0);
    out_concat_b_u : out std_logic_vector(8 downto 0);
    out_concat_b_s : out std_logic_vector(8 downto 0);
    out_concat_v_b : out std_logic_vector(8 downto 0);
    out_concat_v_v : out std_logic_vector(15 downto 0);
    out_concat_v_u : out std_logic_vector(15 downto 0);
    out_concat_v_s : out std_logic_vector(15 downto 0);
    out_concat_u_b : out std_logic_vector(8 downto 0);
    out_concat_u_u : out std_logic_vector(15 downto 0);
    out_concat_u_v : out std_logic_vector(15 downto 0);
    out_concat_u_s : out std_logic_vector(15 downto 0);
    out_concat_s_b : out std_logic_vector(8 downto 0);
    out_concat_s_s : out std_logic_vector(15 downto 0);
    out_concat_s_u : out std_logic_vector(15 downto 0);
    out_concat_s_v : out std_logic_vector(15 downto 0)
    );
end simple_concat;


architecture arch_simple_concat of simple_concat is
  function cohdl_bool_to_std_logic(inp: boolean) return std_logic is
  begin
    if inp then
      return('1');
    else
      return('0');
    end if;
  end function cohdl_bool_to_std_logic;
  signal buffer_out_concat_b_b : std_logic_vector(1 downto 0);
  signal buffer_out_concat_b_v : std_logic_vector(8 downto 0);
  signal buffer_out_concat_b_u : std_logic_vector(8 downto 0);
  signal buffer_out_concat_b_s : std_logic_vector(8 downto 0);
  signal buffer_out_concat_v_b : std_logic_vector(8 downto 0);
  signal buffer_out_concat_v_v : std_logic_vector(15 downto 0);
  signal buffer_out_concat_v_u : std_logic_vector(15 downto 0);
  signal buffer_out_concat_v_s : std_logic_vector(15 downto 0);
  signal buffer_out_concat_u_b : std_logic_vector(8 downto 0);
  signal buffer_out_concat_u_u : std_logic_vector(15 downto 0);
  signal buffer_out_concat_u_v : std_logic_vector(15 downto 0);
  signal buffer_out_concat_u_s : std_logic_vector(15 downto 0);
  signal buffer_out_concat_s_b : std_logic_vector(8 downto 0);
  signal buffer_out_concat_s_s : std_logic_vector(15 downto 0);
  signal buffer_out_concat_s_u : std_logic_vector(15 downto 0);
  signal buffer_out_concat_s_v : std_logic_vector(15 downto 0);
  signal temp : std_logic_vector(1 downto 0);
  signal temp1 : std_logic_vector(8 downto 0);
  signal temp2 : std_logic_vector(8 downto 0);
  signal temp3 : std_logic_vector(8 downto 0);
  signal temp4 : std_logic_vector(8 downto 0);
  signal temp5 : std_logic_vector(15 downto 0);
  signal temp6 : std_logic_vector(15 downto 0);
  signal temp7 : std_logic_vector(15 downto 0);
  signal temp8 : std_logic_vector(8 downto 0);
  signal temp9 : std_logic_vector(15 downto 0);
  signal temp10 : std_logic_vector(15 downto 0);
  signal temp11 : std_logic_vector(15 downto 0);
  signal temp12 : std_logic_vector(8 downto 0);
  signal temp13 : std_logic_vector(15 downto 0);
  signal temp14 : std_logic_vector(15 downto 0);
  signal temp15 : std_logic_vector(15 downto 0);
begin
  
  -- CONCURRENT BLOCK (buffer assignment)
  out_concat_b_b <= buffer_out_concat_b_b;
  out_concat_b_v <= buffer_out_concat_b_v;
  out_concat_b_u <= buffer_out_concat_b_u;
  out_concat_b_s <= buffer_out_concat_b_s;
  out_concat_v_b <= buffer_out_concat_v_b;
  out_concat_v_v <= buffer_out_concat_v_v;
  out_concat_v_u <= buffer_out_concat_v_u;
  out_concat_v_s <= buffer_out_concat_v_s;
  out_concat_u_b <= buffer_out_concat_u_b;
  out_concat_u_u <= buffer_out_concat_u_u;
  out_concat_u_v <= buffer_out_concat_u_v;
  out_concat_u_s <= buffer_out_concat_u_s;
  out_concat_s_b <= buffer_out_concat_s_b;
  out_concat_s_s <= buffer_out_concat_s_s;
  out_concat_s_u <= buffer_out_concat_s_u;
  out_concat_s_v <= buffer_out_concat_s_v;
  
  -- CONCURRENT BLOCK (logic)
  temp <= (inp_bit) & (inp_bit);
  buffer_out_concat_b_b <= temp;
  temp1 <= (inp_bit) & (inp_vector);
  buffer_out_concat_b_v <= temp1;
  temp2 <= (inp_bit) & (std_logic_vector(inp_unsigned));
  buffer_out_concat_b_u <= temp2;
  temp3 <= (inp_bit) & (std_logic_vector(inp_signed));
  buffer_out_concat_b_s <= temp3;
  temp4 <= (inp_vector) & (inp_bit);
  buffer_out_concat_v_b <= temp4;
  temp5 <= (inp_vector) & (inp_vector);
  buffer_out_concat_v_v <= temp5;
  temp6 <= (inp_vector) & (std_logic_vector(inp_unsigned));
  buffer_out_concat_v_u <= temp6;
  temp7 <= (inp_vector) & (std_logic_vector(inp_signed));
  buffer_out_concat_v_s <= temp7;
  temp8 <= (std_logic_vector(inp_unsigned)) & (inp_bit);
  buffer_out_concat_u_b <= temp8;
  temp9 <= (std_logic_vector(inp_unsigned)) & (std_logic_vector(inp_unsigned));
  buffer_out_concat_u_u <= temp9;
  temp10 <= (std_logic_vector(inp_unsigned)) & (inp_vector);
  buffer_out_concat_u_v <= temp10;
  temp11 <= (std_logic_vector(inp_unsigned)) & (std_logic_vector(inp_signed));
  buffer_out_concat_u_s <= temp11;
  temp12 <= (std_logic_vector(inp_signed)) & (inp_bit);
  buffer_out_concat_s_b <= temp12;
  temp13 <= (std_logic_vector(inp_signed)) & (std_logic_vector(inp_signed));
  buffer_out_concat_s_s <= temp13;
  temp14 <= (std_logic_vector(inp_signed)) & (std_logic_vector(inp_unsigned));
  buffer_out_concat_s_u <= temp14;
  temp15 <= (std_logic_vector(inp_signed)) & (inp_vector);
  buffer_out_concat_s_v <= temp15;
end architecture arch_simple_concat;