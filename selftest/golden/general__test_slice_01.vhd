library ieee;
use ieee.std_logic_1164.all;
use ieee.numeric_std.all;


entity test_slice_01 is
  port (
    inp1 : in std_logic_vector(4 downto 0);
    inp2 : in std_logic_vector(4 downto 0);
    out2_lsb : out std_logic;
    out2_msb : out std_logic;
    out2_lsb_3 : out std_logic_vector(2 downto 0);
    out2_msb_3 : out std_logic_vector(2 downto 0);
    out2_seq_l2_m : out std_logic;
    out2_seq_m2_l : out std_logic;
    out2_seq_l4_m3 : out std_logic_vector(2 downto 0);
    out2_seq_m4_l3 : out std_logic_vector(2 downto 0);
    out2_seq_l5_m5_l4_m2 : out std_logic_vector(1 downto 0);
    out2_seq_m5_l5_m4_l2 : out std_logic_vector(1 downto 0)
    );
end test_slice_01;


architecture arch_test_slice_01 of test_slice_01 is
  function cohdl_bool_to_std_logic(inp: boolean) return std_logic is
  begin
    if inp then
      return('1');
    else
      return('0');
    end if;
  end function cohdl_bool_to_std_logic;
  signal buffer_out2_lsb : std_logic;
  signal buffer_out2_msb : std_logic;
  signal buffer_out2_lsb_3 : std_logic_vector(2 downto 0);
  signal buffer_out2_msb_3 : std_logic_vector(2 downto 0);
  signal buffer_out2_seq_l2_m : std_logic;
  signal buffer_out2_seq_m2_l : std_logic;
  signal buffer_out2_seq_l4_m3 : std_logic_vector(2 downto 0);
  signal buffer_out2_seq_m4_l3 : std_logic_vector(2 downto 0);
  signal buffer_out2_seq_l5_m5_l4_m2 : std_logic_vector(1 downto 0);
  signal buffer_out2_seq_m5_l5_m4_l2 : std_logic_vector(1 downto 0);
begin
  
  -- CONCURRENT BLOCK (buffer assignment)
  out2_lsb <= buffer_out2_lsb;
  out2_msb <= buffer_out2_msb;
  out2_lsb_3 <= buffer_out2_lsb_3;
  out2_msb_3 <= buffer_out2_msb_3;
  out2_seq_l2_m <= buffer_out2_seq_l2_m;
  out2_seq_m2_l <= buffer_out2_seq_m2_l;
  out2_seq_l4_m3 <= buffer_out2_seq_l4_m3;
  out2_seq_m4_l3 <= buffer_out2_seq_m4_l3;
  out2_seq_l5_m5_l4_m2 <= buffer_out2_seq_l5_m5_l4_m2;
  out2_seq_m5_l5_m4_l2 <= buffer_out2_seq_m5_l5_m4_l2;
  
  -- CONCURRENT BLOCK (logic)
  buffer_out2_lsb <= inp2(0);
  buffer_out2_msb <= inp2(4);
  buffer_out2_lsb_3 <= std_logic_vector(inp2(2 downto 0));
  buffer_out2_msb_3 <= std_logic_vector(inp2(4 downto 2));
  buffer_out2_seq_l2_m <= inp2(1);
  buffer_out2_seq_m2_l <= inp2(3);
  buffer_out2_seq_l4_m3 <= std_logic_vector(inp2(3 downto 1));
  buffer_out2_seq_m4_l3 <= std_logic_vector(inp2(3 downto 1));
  buffer_out2_seq_l5_m5_l4_m2 <= std_logic_vector(inp2(3 downto 2));
  buffer_out2_seq_m5_l5_m4_l2 <= std_logic_vector(inp2(2 downto 1));
end architecture arch_test_slice_01;