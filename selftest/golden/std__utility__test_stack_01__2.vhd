library ieee;
use ieee.std_logic_1164.all;
use ieee.numeric_std.all;


entity test_stack_01 is
  port (
    clk : in std_logic;
    reset : in std_logic;
    data_1 : in std_logic;
    push_1 : in std_logic;
    pop_1 : in std_logic;
    reset_1 : in std_logic;
    out_1 : out std_logic;
    front_1 : out std_logic;
    empty_1 : out std_logic;
    full_1 : out std_logic;
    size_1 : out unsigned(3 downto 0)
    );
end test_stack_01;


architecture arch_test_stack_01 of test_stack_01 is
  function cohdl_bool_to_std_logic(inp: boolean) return std_logic is
  begin
    if inp then
      return('1');
    else
      return('0');
    end if;
  end function cohdl_bool_to_std_logic;
  signal buffer_out_1 : std_logic := '0';
  signal buffer_front_1 : std_logic := '0';
  signal buffer_empty_1 : std_logic := '1';
  signal buffer_full_1 : std_logic := '0';
  signal buffer_size_1 : unsigned(3 downto 0) := unsigned'("0000");
  signal stack_index : unsigned(2 downto 0) := unsigned'("000");
  type array_type is array(0 to 4) of std_logic_vector(0 downto 0);
  signal stack_stack_mem : array_type;
begin
  
  -- CONCURRENT BLOCK (buffer assignment)
  out_1 <= buffer_out_1;
  front_1 <= buffer_front_1;
  empty_1 <= buffer_empty_1;
  full_1 <= buffer_full_1;
  size_1 <= buffer_size_1;
  

  proc_stack_01: process(clk)
    variable temp : boolean;
    variable temp1 : boolean;
    variable inp : std_logic;
    variable temp2 : std_logic_vector(1 downto 0);
    variable temp3 : unsigned(2 downto 0);
    variable temp4 : boolean;
    variable temp5 : unsigned(2 downto 0);
    variable temp6 : boolean;
    variable temp7 : boolean;
    variable index : unsigned(2 downto 0);
    variable temp8 : unsigned(2 downto 0);
    variable temp9 : std_logic;
    variable temp10 : boolean;
    variable temp11 : boolean;
    variable temp12 : boolean;
    variable temp13 : unsigned(2 downto 0);
    variable temp14 : boolean;
    variable temp15 : boolean;
    variable index1 : unsigned(2 downto 0);
    variable temp16 : unsigned(2 downto 0);
    variable temp17 : std_logic;
  begin
    if rising_edge(clk) then
      temp := reset = '1';
      if temp then
        stack_index <= unsigned'("000");
        buffer_out_1 <= '0';
        buffer_empty_1 <= '1';
        buffer_full_1 <= '0';
        buffer_size_1 <= unsigned'("0000");
        buffer_front_1 <= '0';
      else
        temp1 := push_1 = '1';
        if temp1 then
          inp := data_1;
          temp2 := (inp) & (inp);
          temp3 := stack_index;
          stack_stack_mem(to_integer(temp3)) <= std_logic_vector(temp2(0 downto 0));
          temp4 := (stack_index < 5);
          assert temp4 report "push to full stack";
          temp5 := (stack_index) + (1);
          stack_index <= temp5;
        end if;
        temp6 := pop_1 = '1';
        if temp6 then
          temp7 := (stack_index /= 0);
          assert temp7 report "pop from empty stack";
          index := (stack_index) - (1);
          stack_index <= index;
          temp8 := index;
          temp9 := stack_stack_mem(to_integer(temp8))(0);
          buffer_out_1 <= temp9;
        end if;
        temp10 := reset_1 = '1';
        if temp10 then
          stack_index <= unsigned'("000");
        end if;
        temp11 := (stack_index = 0);
        buffer_empty_1 <= cohdl_bool_to_std_logic(temp11);
        temp12 := (stack_index = 5);
        buffer_full_1 <= cohdl_bool_to_std_logic(temp12);
        temp13 := stack_index;
        buffer_size_1 <= resize(temp13, 4);
        temp14 := (stack_index = 0);
        temp15 := not (temp14);
        if temp15 then
          index1 := (stack_index) - (1);
          temp16 := index1;
          temp17 := stack_stack_mem(to_integer(temp16))(0);
          buffer_front_1 <= temp17;
        else
          buffer_front_1 <= '0';
        end if;
      end if;
    end if;
  end process;
end architecture arch_test_stack_01;