library ieee;
use ieee.std_logic_1164.all;
use ieee.numeric_std.all;


entity test_array_nested_03 is
  port (
    clk : in std_logic;
    rd_addr_a : in unsigned(2 downto 0);
    rd_addr_b : in unsigned(1 downto 0);
    rd_addr_c : in unsigned(1 downto 0);
    rd_data_enum : out std_logic_vector(1 downto 0);
    rd_data_vec : out std_logic_vector(3 downto 0);
    wr_addr_a : in unsigned(2 downto 0);
    wr_addr_b : in unsigned(1 downto 0);
    wr_addr_c : in unsigned(1 downto 0);
    wr_data : in std_logic_vector(3 downto 0)
    );
end test_array_nested_03;


architecture arch_test_array_nested_03 of test_array_nested_03 is
  function cohdl_bool_to_std_logic(inp: boolean) return std_logic is
  begin
    if inp then
      return('1');
    else
      return('0');
    end if;
  end function cohdl_bool_to_std_logic;
  signal buffer_rd_data_enum : std_logic_vector(1 downto 0);
  signal buffer_rd_data_vec : std_logic_vector(3 downto 0);
  type MyEnum is (a, b, c, d);
  type array_type is array(0 to 3) of MyEnum;
  type array_type1 is array(0 to 3) of array_type;
  type array_type2 is array(0 to 7) of array_type1;
  signal mem_enum : array_type2;
  type array_type3 is array(0 to 3) of std_logic_vector(3 downto 0);
  type array_type4 is array(0 to 3) of array_type3;
  type array_type5 is array(0 to 7) of array_type4;
  signal mem_vec : array_type5;
begin
  
  -- CONCURRENT BLOCK (buffer assignment)
  rd_data_enum <= buffer_rd_data_enum;
  rd_data_vec <= buffer_rd_data_vec;
  

  proc_enum: process(clk)
    variable temp : unsigned(1 downto 0);
    variable temp1 : unsigned(1 downto 0);
    variable temp2 : unsigned(2 downto 0);
    variable arg : std_logic_vector(1 downto 0);
    variable arg1 : MyEnum;
    variable temp3 : unsigned(1 downto 0);
    variable temp4 : unsigned(2 downto 0);
    variable temp5 : unsigned(1 downto 0);
  begin
    if rising_edge(clk) then
      temp := rd_addr_c;
      temp1 := rd_addr_b;
      temp2 := rd_addr_a;
      case mem_enum(to_integer(temp2))(to_integer(temp1))(to_integer(temp)) is
        when a =>
          arg := "00";
        when b =>
          arg := "01";
        when c =>
          arg := "10";
        when d =>
          arg := "11";
        when others =>
          null;
      end case;
      buffer_rd_data_enum <= arg;
      case std_logic_vector'(wr_data(1 downto 0)) is
        when "00" =>
          arg1 := a;
        when "01" =>
          arg1 := b;
        when "10" =>
          arg1 := c;
        when "11" =>
          arg1 := d;
        when others =>
          null;
      end case;
      temp3 := wr_addr_b;
      temp4 := wr_addr_a;
      temp5 := wr_addr_c;
      mem_enum(to_integer(temp4))(to_integer(temp3))(to_integer(temp5)) <= arg1;
    end if;
  end process;
  

  proc_vec: process(clk)
    variable temp : unsigned(1 downto 0);
    variable temp1 : unsigned(1 downto 0);
    variable temp2 : unsigned(2 downto 0);
    variable temp3 : unsigned(1 downto 0);
    variable temp4 : unsigned(1 downto 0);
    variable temp5 : unsigned(2 downto 0);
    variable temp6 : unsigned(1 downto 0);
    variable temp7 : unsigned(1 downto 0);
    variable temp8 : unsigned(2 downto 0);
    variable temp9 : unsigned(1 downto 0);
    variable temp10 : unsigned(1 downto 0);
    variable temp11 : unsigned(2 downto 0);
  begin
    if rising_edge(clk) then
      temp := rd_addr_c;
      temp1 := rd_addr_b;
      temp2 := rd_addr_a;
      buffer_rd_data_vec(2 downto 0) <= std_logic_vector(mem_vec(to_integer(temp2))(to_integer(temp1))(to_integer(temp))(2 downto 0));
      temp3 := rd_addr_c;
      temp4 := rd_addr_b;
      temp5 := rd_addr_a;
      buffer_rd_data_vec(3) <= mem_vec(to_integer(temp5))(to_integer(temp4))(to_integer(temp3))(3);
      temp6 := wr_addr_c;
      temp7 := wr_addr_b;
      temp8 := wr_addr_a;
      mem_vec(to_integer(temp8))(to_integer(temp7))(to_integer(temp6))(0) <= wr_data(0);
      temp9 := wr_addr_c;
      temp10 := wr_addr_b;
      temp11 := wr_addr_a;
      mem_vec(to_integer(temp11))(to_integer(temp10))(to_integer(temp9))(3 downto 1) <= std_logic_vector(wr_data(3 downto 1));
    end if;
  end process;
end architecture arch_test_array_nested_03;