library ieee;
use ieee.std_logic_1164.all;
use ieee.numeric_std.all;


entity test_select_with_02 is
  port (
    clk : in std_logic;
    op : in std_logic_vector(1 downto 0);
    inp_vec_a : in std_logic_vector(2 downto 0);
    inp_vec_b : in std_logic_vector(2 downto 0);
    out_vec : out std_logic_vector(2 downto 0);
    out_unsigned : out unsigned(4 downto 0);
    out_signed : out signed(5 downto 0);
    inp_bit_a : in std_logic;
    inp_bit_b : in std_logic;
    out_bit : out std_logic
    );
end test_select_with_02;


architecture arch_test_select_with_02 of test_select_with_02 is
  function cohdl_bool_to_std_logic(inp: boolean) return std_logic is
  begin
    if inp then
      return('1');
    else
      return('0');
    end if;
  end function cohdl_bool_to_std_logic;
  signal buffer_out_vec : std_logic_vector(2 downto 0);
  signal buffer_out_unsigned : unsigned(4 downto 0);
  signal buffer_out_signed : signed(5 downto 0);
  signal buffer_out_bit : std_logic;
begin
  
  -- CONCURRENT BLOCK (buffer assignment)
  out_vec <= buffer_out_vec;
  out_unsigned <= buffer_out_unsigned;
  out_signed <= buffer_out_signed;
  out_bit <= buffer_out_bit;
  

  proc_simple: process(clk)
    variable temp : std_logic_vector(2 downto 0);
    variable temp1 : std_logic_vector(2 downto 0);
    variable temp2 : std_logic_vector(2 downto 0);
    variable temp3 : std_logic_vector(2 downto 0);
    variable temp4 : unsigned(2 downto 0);
    variable temp5 : unsigned(2 downto 0);
    variable temp6 : unsigned(2 downto 0);
    variable temp7 : unsigned(4 downto 0);
    variable temp8 : signed(2 downto 0);
    variable temp9 : unsigned(2 downto 0);
    variable temp10 : signed(5 downto 0);
    variable temp11 : std_logic;
    variable temp12 : std_logic;
    variable temp13 : std_logic;
    variable temp14 : std_logic;
  begin
    if rising_edge(clk) then
      temp := (inp_vec_a) and (inp_vec_b);
      temp1 := (inp_vec_a) or (inp_vec_b);
      temp2 := (inp_vec_a) xor (inp_vec_b);
      case op is
        when "00" =>
          temp3 := temp;
        when "01" =>
          temp3 := temp1;
        when "10" =>
          temp3 := temp2;
        when "11" =>
          temp3 := "111";
        when others =>
          null;
      end case;
      buffer_out_vec <= temp3;
      temp4 := (unsigned(inp_vec_a)) and (unsigned(inp_vec_b));
      temp5 := (unsigned(inp_vec_a)) or (unsigned(inp_vec_b));
      temp6 := (unsigned(inp_vec_a)) xor (unsigned(inp_vec_b));
      case op is
        when "00" =>
          temp7 := resize(temp4, 5);
        when "01" =>
          temp7 := resize(temp5, 5);
        when "10" =>
          temp7 := resize(temp6, 5);
        when "11" =>
          temp7 := unsigned'("11111");
        when others =>
          null;
      end case;
      buffer_out_unsigned <= temp7;
      temp8 := (signed(inp_vec_a)) and (signed(inp_vec_b));
      temp9 := (unsigned(inp_vec_a)) xor (unsigned(inp_vec_b));
      case op is
        when "00" =>
          temp10 := resize(temp8, 6);
        when "01" =>
          temp10 := signed'("000000");
        when "10" =>
          temp10 := signed(std_logic_vector(resize(temp9, 6)));
        when "11" =>
          temp10 := signed'("111111");
        when others =>
          null;
      end case;
      buffer_out_signed <= temp10;
      temp11 := (inp_bit_a) and (inp_bit_b);
      temp12 := (inp_bit_a) or (inp_bit_b);
      temp13 := (inp_bit_a) xor (inp_bit_b);
      case op is
        when "00" =>
          temp14 := temp11;
        when "01" =>
          temp14 := temp12;
        when "10" =>
          temp14 := temp13;
        when "11" =>
          temp14 := '0';
        when others =>
          null;
      end case;
      buffer_out_bit <= temp14;
    end if;
  end process;
end architecture arch_test_select_with_02;