library ieee;
use ieee.std_logic_1164.all;
use ieee.numeric_std.all;


entity test_context_manager_01 is
  port (
    clk : in std_logic;
    reset : in std_logic;
    ctx_a : out unsigned(3 downto 0);
    ctx_b : out unsigned(3 downto 0);
    ctx_c : out unsigned(3 downto 0);
    ctx_d : out unsigned(3 downto 0);
    level : out unsigned(3 downto 0)
    );
end test_context_manager_01;


architecture arch_test_context_manager_01 of test_context_manager_01 is
  function cohdl_bool_to_std_logic(inp: boolean) return std_logic is
  begin
    if inp then
      return('1');
    else
      return('0');
    end if;
  end function cohdl_bool_to_std_logic;
  signal buffer_ctx_a : unsigned(3 downto 0) := unsigned'("0000");
  signal buffer_ctx_b : unsigned(3 downto 0) := unsigned'("0000");
  signal buffer_ctx_c : unsigned(3 downto 0) := unsigned'("0000");
  signal buffer_ctx_d : unsigned(3 downto 0) := unsigned'("0000");
  signal buffer_level : unsigned(3 downto 0) := unsigned'("0000");
  type state_proc is (state_0, state_1, state_2, state_3, state_4, state_5);
  signal s_proc : state_proc := state_0;
  signal sig : unsigned(1 downto 0);
  signal sig1 : unsigned(0 downto 0);
  signal sig2 : unsigned(0 downto 0);
begin
  
  -- CONCURRENT BLOCK (buffer assignment)
  ctx_a <= buffer_ctx_a;
  ctx_b <= buffer_ctx_b;
  ctx_c <= buffer_ctx_c;
  ctx_d <= buffer_ctx_d;
  level <= buffer_level;
  

  proc: process(clk)
    variable temp : boolean;
    variable counter : unsigned(3 downto 0);
    variable temp1 : unsigned(3 downto 0);
    variable temp2 : unsigned(3 downto 0);
    variable temp3 : boolean;
    variable temp4 : unsigned(1 downto 0);
    variable temp5 : unsigned(3 downto 0);
    variable temp6 : unsigned(3 downto 0);
    variable temp7 : unsigned(3 downto 0);
    variable temp8 : boolean;
    variable temp9 : unsigned(0 downto 0);
    variable temp10 : unsigned(3 downto 0);
    variable temp11 : unsigned(3 downto 0);
    variable temp12 : unsigned(3 downto 0);
    variable temp13 : boolean;
    variable temp14 : unsigned(0 downto 0);
    variable temp15 : unsigned(3 downto 0);
    variable temp16 : unsigned(3 downto 0);
    variable temp17 : boolean;
  begin
    if rising_edge(clk) then
      temp := reset = '1';
      if temp then
        s_proc <= state_0;
        buffer_ctx_a <= unsigned'("0000");
        buffer_level <= unsigned'("0000");
        buffer_ctx_b <= unsigned'("0000");
        buffer_ctx_c <= unsigned'("0000");
        buffer_ctx_d <= unsigned'("0000");
      else
        case s_proc is
          when state_0 =>
            s_proc <= state_1;
            counter := unsigned'("0000");
            temp1 := (counter) + (1);
            counter := temp1;
            buffer_ctx_a <= counter;
            buffer_level <= counter;
            temp2 := (counter) + (1);
            counter := temp2;
            buffer_ctx_b <= counter;
            buffer_level <= counter;
            sig <= unsigned'("10");
          when state_1 =>
            temp3 := (sig /= 0);
            if temp3 then
              s_proc <= state_1;
              temp4 := (sig) - (1);
              sig <= temp4;
            else
              s_proc <= state_2;
              temp5 := (counter) + (1);
              counter := temp5;
              buffer_ctx_c <= counter;
              buffer_level <= counter;
            end if;
          when state_2 =>
            s_proc <= state_3;
            temp6 := (counter) + (1);
            counter := temp6;
            buffer_ctx_d <= counter;
            buffer_level <= counter;
            temp7 := (counter) + (1);
            counter := temp7;
            buffer_ctx_c <= counter;
            buffer_level <= counter;
            sig1 <= unsigned'("1");
          when state_3 =>
            temp8 := (sig1 /= 0);
            if temp8 then
              s_proc <= state_3;
              temp9 := (sig1) - (1);
              sig1 <= temp9;
            else
              s_proc <= state_4;
              temp10 := (counter) - (1);
              counter := temp10;
              buffer_ctx_c <= counter;
              buffer_level <= counter;
              temp11 := (counter) - (1);
              counter := temp11;
              buffer_ctx_d <= counter;
              buffer_level <= counter;
            end if;
          when state_4 =>
            s_proc <= state_5;
            temp12 := (counter) - (1);
            counter := temp12;
            buffer_ctx_c <= counter;
            buffer_level <= counter;
            sig2 <= unsigned'("1");
          when state_5 =>
            temp13 := (sig2 /= 0);
            if temp13 then
              s_proc <= state_5;
              temp14 := (sig2) - (1);
              sig2 <= temp14;
            else
              s_proc <= state_0;
              temp15 := (counter) - (1);
              counter := temp15;
              buffer_ctx_b <= counter;
              buffer_level <= counter;
              temp16 := (counter) - (1);
              counter := temp16;
              buffer_ctx_a <= counter;
              buffer_level <= counter;
              temp17 := (counter = 0);
              assert temp17;
            end if;
          when others =>
            null;
        end case;
      end if;
    end if;
  end process;
end architecture arch_test_context_manager_01;