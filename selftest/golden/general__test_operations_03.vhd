library ieee;
use ieee.std_logic_1164.all;
use ieee.numeric_std.all;


entity simple_shift is
  port (
    inp_shift : in unsigned(3 downto 0);
    inp_signed : in signed(7 downto 0);
    inp_unsigned : in unsigned(7 downto 0);
    out_s_left_0 : out signed(7 downto 0);
    out_s_left_1 : out signed(7 downto 0);
    out_s_left_4 : out signed(7 downto 0);
    out_u_left_0 : out unsigned(7 downto 0);
    out_u_left_1 : out unsigned(7 downto 0);
    out_u_left_4 : out unsigned(7 downto 0);
    out_s_right_0 : out signed(7 downto 0);
    out_s_right_1 : out signed(7 downto 0);
    out_s_right_4 : out signed(7 downto 0);
    out_u_right_0 : out unsigned(7 downto 0);
    out_u_right_1 : out unsigned(7 downto 0);
    out_u_right_4 : out unsigned(7 downto 0);
    out_s_left : out signed(7 downto 0);
    out_u_left : out unsigned(7 downto 0);
    out_s_right : out signed(7 downto 0);
    out_u_right : out unsigned(7 downto 0)
    );
end simple_shift;


architecture arch_simple_shift of simple_shift is
  function cohdl_bool_to_std_logic(inp: boolean) return std_logic is
  begin
    if inp then
      return('1');
    else
      return('0');
    end if;
  end function cohdl_bool_to_std_logic;
  signal buffer_out_s_left_0 : signed(7 downto 0);
  signal buffer_out_s_left_1 : signed(7 downto 0);
  signal buffer_out_s_left_4 : signed(7 downto 0);
  signal buffer_out_u_left_0 : unsigned(7 downto 0);
  signal buffer_out_u_left_1 : unsigned(7 downto 0);
  signal buffer_out_u_left_4 : unsigned(7 downto 0);
  signal buffer_out_s_right_0 : signed(7 downto 0);
  signal buffer_out_s_right_1 : signed(7 downto 0);
  signal buffer_out_s_right_4 : signed(7 downto 0);
  signal buffer_out_u_right_0 : unsigned(7 downto 0);
  signal buffer_out_u_right_1 : unsigned(7 downto 0);
  signal buffer_out_u_right_4 : unsigned(7 downto 0);
  signal buffer_out_s_left : signed(7 downto 0);
  signal buffer_out_u_left : unsigned(7 downto 0);
  signal buffer_out_s_right : signed(7 downto 0);
  signal buffer_out_u_right : unsigned(7 downto 0);
  signal temp : signed(7 downto 0);
  signal temp1 : signed(7 downto 0);
  signal int_sig_shift : integer := 4;
  signal temp2 : signed(7 downto 0);
  signal temp3 : unsigned(7 downto 0);
  signal temp4 : unsigned(7 downto 0);
  signal temp5 : unsigned(7 downto 0);
  signal temp6 : signed(7 downto 0);
  signal temp7 : signed(7 downto 0);
  signal temp8 : signed(7 downto 0);
  signal temp9 : unsigned(7 downto 0);
  signal temp10 : unsigned(7 downto 0);
  signal temp11 : unsigned(7 downto 0);
  signal temp12 : signed(7 downto 0);
  signal temp13 : unsigned(7 downto 0);
  signal temp14 : signed(7 downto 0);
  signal temp15 : unsigned(7 downto 0);
begin
  
  -- CONCURRENT BLOCK (buffer assignment)
  out_s_left_0 <= buffer_out_s_left_0;
  out_s_left_1 <= buffer_out_s_left_1;
  out_s_left_4 <= buffer_out_s_left_4;
  out_u_left_0 <= buffer_out_u_left_0;
  out_u_left_1 <= buffer_out_u_left_1;
  out_u_left_4 <= buffer_out_u_left_4;
  out_s_right_0 <= buffer_out_s_right_0;
  out_s_right_1 <= buffer_out_s_right_1;
  out_s_right_4 <= buffer_out_s_right_4;
  out_u_right_0 <= buffer_out_u_right_0;
  out_u_right_1 <= buffer_out_u_right_1;
  out_u_right_4 <= buffer_out_u_right_4;
  out_s_left <= buffer_out_s_left;
  out_u_left <= buffer_out_u_left;
  out_s_right <= buffer_out_s_right;
  out_u_right <= buffer_out_u_right;
  
  -- CONCURRENT BLOCK (logic)
  temp <= shift_left(inp_signed, 0);
  buffer_out_s_left_0 <= temp;
  temp1 <= shift_left(inp_signed, 1);
  buffer_out_s_left_1 <= temp1;
  temp2 <= shift_left(inp_signed, int_sig_shift);
  buffer_out_s_left_4 <= temp2;
  temp3 <= shift_left(inp_unsigned, 0);
  buffer_out_u_left_0 <= temp3;
  temp4 <= shift_left(inp_unsigned, 1);
  buffer_out_u_left_1 <= temp4;
  temp5 <= shift_left(inp_unsigned, int_sig_shift);
  buffer_out_u_left_4 <= temp5;
  temp6 <= shift_right(inp_signed, 0);
  buffer_out_s_right_0 <= temp6;
  temp7 <= shift_right(inp_signed, 1);
  buffer_out_s_right_1 <= temp7;
  temp8 <= shift_right(inp_signed, int_sig_shift);
  buffer_out_s_right_4 <= temp8;
  temp9 <= shift_right(inp_unsigned, 0);
  buffer_out_u_right_0 <= temp9;
  temp10 <= shift_right(inp_unsigned, 1);
  buffer_out_u_right_1 <= temp10;
  temp11 <= shift_right(inp_unsigned, int_sig_shift);
  buffer_out_u_right_4 <= temp11;
  temp12 <= shift_left(inp_signed, to_integer(inp_shift));
  buffer_out_s_left <= temp12;
  temp13 <= shift_left(inp_unsigned, to_integer(inp_shift));
  buffer_out_u_left <= temp13;
  temp14 <= shift_right(inp_signed, to_integer(inp_shift));
  buffer_out_s_right <= temp14;
  temp15 <= shift_right(inp_unsigned, to_integer(inp_shift));
  buffer_out_u_right <= temp15;
end architecture arch_simple_shift;