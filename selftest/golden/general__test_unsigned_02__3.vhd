library ieee;
use ieee.std_logic_1164.all;
use ieee.numeric_std.all;


entity test_operations_const is
  port (
    input : in unsigned(3 downto 0);
    input_div : in unsigned(3 downto 0);
    op_add : out unsigned(3 downto 0);
    op_sub : out unsigned(3 downto 0);
    op_mul : out unsigned(7 downto 0);
    op_div : out unsigned(3 downto 0);
    op_tdiv : out unsigned(3 downto 0);
    op_mod : out unsigned(3 downto 0);
    op_rem : out unsigned(3 downto 0);
    op_add_2 : out unsigned(3 downto 0);
    op_sub_2 : out unsigned(3 downto 0);
    op_mul_2 : out unsigned(7 downto 0);
    op_div_2 : out unsigned(3 downto 0);
    op_mod_2 : out unsigned(3 downto 0)
    );
end test_operations_const;


architecture arch_test_operations_const of test_operations_const is
  function cohdl_bool_to_std_logic(inp: boolean) return std_logic is
  begin
    if inp then
      return('1');
    else
      return('0');
    end if;
  end function cohdl_bool_to_std_logic;
  signal buffer_op_add : unsigned(3 downto 0);
  signal buffer_op_sub : unsigned(3 downto 0);
  signal buffer_op_mul : unsigned(7 downto 0);
  signal buffer_op_div : unsigned(3 downto 0);
  signal buffer_op_tdiv : unsigned(3 downto 0);
  signal buffer_op_mod : unsigned(3 downto 0);
  signal buffer_op_rem : unsigned(3 downto 0);
  signal buffer_op_add_2 : unsigned(3 downto 0);
  signal buffer_op_sub_2 : unsigned(3 downto 0);
  signal buffer_op_mul_2 : unsigned(7 downto 0);
  signal buffer_op_div_2 : unsigned(3 downto 0);
  signal buffer_op_mod_2 : unsigned(3 downto 0);
  signal temp : unsigned(3 downto 0);
  signal temp1 : unsigned(3 downto 0);
  signal temp2 : unsigned(7 downto 0);
  signal temp3 : unsigned(3 downto 0);
  signal temp4 : unsigned(3 downto 0);
  signal temp5 : unsigned(3 downto 0);
  signal temp6 : unsigned(3 downto 0);
  signal temp7 : unsigned(3 downto 0);
  signal temp8 : unsigned(3 downto 0);
  signal temp9 : unsigned(7 downto 0);
  signal temp10 : unsigned(3 downto 0);
  signal temp11 : unsigned(3 downto 0);
begin
  
  -- CONCURRENT BLOCK (buffer assignment)
  op_add <= buffer_op_add;
  op_sub <= buffer_op_sub;
  op_mul <= buffer_op_mul;
  op_div <= buffer_op_div;
  op_tdiv <= buffer_op_tdiv;
  op_mod <= buffer_op_mod;
  op_rem <= buffer_op_rem;
  op_add_2 <= buffer_op_add_2;
  op_sub_2 <= buffer_op_sub_2;
  op_mul_2 <= buffer_op_mul_2;
  op_div_2 <= buffer_op_div_2;
  op_mod_2 <= buffer_op_mod_2;
  
  -- CONCURRENT BLOCK (logic_simple)
  temp <= (input) + (2);
  buffer_op_add <= temp;
  temp1 <= (input) - (2);
  buffer_op_sub <= temp1;
  temp2 <= (input) * (2);
  buffer_op_mul <= temp2;
  temp3 <= (input) / (2);
  buffer_op_div <= temp3;
  temp4 <= (input) / (2);
  buffer_op_tdiv <= temp4;
  temp5 <= (input) mod (2);
  buffer_op_mod <= temp5;
  temp6 <= (input) rem (2);
  buffer_op_rem <= temp6;
  temp7 <= (2) + (input);
  buffer_op_add_2 <= temp7;
  temp8 <= (2) - (input);
  buffer_op_sub_2 <= temp8;
  temp9 <= (2) * (input);
  buffer_op_mul_2 <= temp9;
  temp10 <= (2) / (input_div);
  buffer_op_div_2 <= temp10;
  temp11 <= (2) mod (input_div);
  buffer_op_mod_2 <= temp11;
end architecture arch_test_operations_const;