library ieee;
use ieee.std_logic_1164.all;
use ieee.numeric_std.all;


entity test_for_05 is
  port (
    clk : in std_logic;
    reset : in std_logic;
    input : in std_logic_vector(2 downto 0);
    sel : in unsigned(1 downto 0);
    result : out std_logic
    );
end test_for_05;


architecture arch_test_for_05 of test_for_05 is
  function cohdl_bool_to_std_logic(inp: boolean) return std_logic is
  begin
    if inp then
      return('1');
    else
      return('0');
    end if;
  end function cohdl_bool_to_std_logic;
  signal buffer_result : std_logic := '0';
  type state_proc is (state_0, state_1, state_2, state_3, state_4);
  signal s_proc : state_proc := state_0;
begin
  
  -- CONCURRENT BLOCK (buffer assignment)
  result <= buffer_result;
  

  proc: process(clk)
    variable temp : boolean;
    variable temp1 : boolean;
    variable temp2 : boolean;
    variable temp3 : boolean;
  begin
    if rising_edge(clk) then
      temp := reset = '1';
      if temp then
        s_proc <= state_0;
        buffer_result <= '0';
      else
        buffer_result <= '0';
        case s_proc is
          when state_0 =>
            if (input /= "000") then
              temp1 := (sel = 0);
              if temp1 then
                s_proc <= state_1;
              else
                temp2 := (sel = 1);
                if temp2 then
                  s_proc <= state_2;
                else
                  temp3 := (sel = 2);
                  if temp3 then
                    s_proc <= state_3;
                  else
                    s_proc <= state_4;
                  end if;
                end if;
              end if;
            end if;
          when state_1 =>
            if input(0) = '1' then
              s_proc <= state_0;
              buffer_result <= '1';
            end if;
          when state_2 =>
            if input(1) = '1' then
              s_proc <= state_0;
              buffer_result <= '1';
            end if;
          when state_3 =>
            if input(2) = '1' then
              s_proc <= state_0;
              buffer_result <= '1';
            end if;
          when state_4 =>
            if (input /= "000") then
              s_proc <= state_0;
              buffer_result <= '1';
            end if;
          when others =>
            null;
        end case;
      end if;
    end if;
  end process;
end architecture arch_test_for_05;