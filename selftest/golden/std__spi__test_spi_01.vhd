library ieee;
use ieee.std_logic_1164.all;
use ieee.numeric_std.all;


entity test_spi_01 is
  port (
    clk : in std_logic;
    start_transaction : in std_logic;
    command : in std_logic_vector(7 downto 0);
    led : out std_logic_vector(7 downto 0);
    sclk : out std_logic;
    mosi : out std_logic;
    miso : in std_logic;
    cs : out std_logic
    );
end test_spi_01;


architecture arch_test_spi_01 of test_spi_01 is
  function cohdl_bool_to_std_logic(inp: boolean) return std_logic is
  begin
    if inp then
      return('1');
    else
      return('0');
    end if;
  end function cohdl_bool_to_std_logic;
  signal buffer_led : std_logic_vector(7 downto 0);
  signal buffer_sclk : std_logic;
  signal buffer_mosi : std_logic;
  signal buffer_cs : std_logic;
  signal combined_reset : std_logic;
  signal spi_toggle_reset : std_logic := '1';
  signal spi_toggle_counter : unsigned(2 downto 0) := unsigned'("000");
  signal spi_toggle_state : std_logic := '0';
  signal spi_toggle_rising : std_logic := '0';
  signal spi_toggle_falling : std_logic := '0';
  signal source : std_logic := '1';
  type state_proc is (state_0, state_1, state_2, state_3);
  signal s_proc : state_proc := state_0;
  signal sig : unsigned(4 downto 0);
  signal out_shift_reg : std_logic_vector(7 downto 0);
  signal in_shift_reg : std_logic_vector(7 downto 0);
begin
  
  -- CONCURRENT BLOCK (buffer assignment)
  led <= buffer_led;
  sclk <= buffer_sclk;
  mosi <= buffer_mosi;
  cs <= buffer_cs;
  
  -- CONCURRENT BLOCK (logic)
  combined_reset <= spi_toggle_reset;
  

  proc: process(clk)
    variable temp : boolean;
    variable temp1 : unsigned(2 downto 0);
    variable temp2 : boolean;
    variable next_cnt : unsigned(2 downto 0);
    variable temp3 : boolean;
    variable temp4 : boolean;
    variable temp5 : boolean;
    variable temp6 : boolean;
    variable temp7 : boolean;
    variable temp8 : boolean;
    variable temp9 : boolean;
  begin
    if rising_edge(clk) then
      temp := combined_reset = '1';
      if temp then
        spi_toggle_counter <= unsigned'("000");
        spi_toggle_state <= '0';
        spi_toggle_rising <= '0';
        spi_toggle_falling <= '0';
      else
        temp1 := (spi_toggle_counter) + (1);
        temp2 := (spi_toggle_counter = 7);
        case temp2 is
          when true =>
            next_cnt := unsigned'("000");
          when others =>
            next_cnt := temp1;
        end case;
        spi_toggle_counter <= next_cnt;
        temp3 := (next_cnt < 4);
        spi_toggle_state <= cohdl_bool_to_std_logic(temp3);
        temp4 := spi_toggle_state = '1';
        temp5 := not (temp4);
        temp6 := temp5 and temp3;
        temp7 := not (temp3);
        temp8 := spi_toggle_state = '1';
        temp9 := temp8 and temp7;
        spi_toggle_rising <= cohdl_bool_to_std_logic(temp6);
        spi_toggle_falling <= cohdl_bool_to_std_logic(temp9);
      end if;
    end if;
  end process;
  
  -- CONCURRENT BLOCK (logic)
  buffer_sclk <= spi_toggle_state;
  
  -- CONCURRENT BLOCK (logic)
  buffer_cs <= source;
  

  proc1: process(clk)
    variable alias_out_shift_reg : std_logic_vector(7 downto 0);
    variable temp : std_logic_vector(7 downto 0);
    variable temp1 : boolean;
    variable temp2 : unsigned(4 downto 0);
    variable temp3 : std_logic_vector(7 downto 0);
    variable temp4 : std_logic_vector(7 downto 0);
    variable temp5 : std_logic_vector(7 downto 0);
  begin
    if rising_edge(clk) then
      case s_proc is
        when state_0 =>
          if start_transaction = '1' then
            s_proc <= state_1;
            source <= '0';
            spi_toggle_reset <= '0';
            sig <= unsigned'("10000");
            alias_out_shift_reg := command;
            out_shift_reg <= command;
            in_shift_reg <= "00000000";
            temp := (std_logic_vector(alias_out_shift_reg(6 downto 0))) & ("0");
            out_shift_reg <= temp;
            buffer_mosi <= alias_out_shift_reg(7);
          end if;
        when state_1 =>
          temp1 := (sig /= 0);
          if temp1 then
            s_proc <= state_2;
            temp2 := (sig) - (1);
            sig <= temp2;
          else
            s_proc <= state_0;
            spi_toggle_reset <= '1';
            source <= '1';
            temp3 := in_shift_reg;
            buffer_led <= temp3;
          end if;
        when state_2 =>
          if spi_toggle_falling = '1' then
            s_proc <= state_3;
            temp4 := (std_logic_vector(in_shift_reg(6 downto 0))) & (miso);
            in_shift_reg <= temp4;
          end if;
        when state_3 =>
          if spi_toggle_rising = '1' then
            s_proc <= state_1;
            temp5 := (std_logic_vector(out_shift_reg(6 downto 0))) & ("0");
            out_shift_reg <= temp5;
            buffer_mosi <= out_shift_reg(7);
          end if;
        when others =>
          null;
      end case;
    end if;
  end process;
end architecture arch_test_spi_01;