library ieee;
use ieee.std_logic_1164.all;
use ieee.numeric_std.all;


entity test_functions is
  port (
    sw : in std_logic_vector(3 downto 0);
    ident_in : in std_logic_vector(3 downto 0);
    ident_in_2 : in std_logic_vector(3 downto 0);
    ident_out : out std_logic_vector(3 downto 0);
    ident_out_2 : out std_logic_vector(3 downto 0);
    sel_bit : in std_logic;
    selected : out std_logic_vector(3 downto 0);
    selected_2 : out std_logic_vector(3 downto 0);
    selected_nullfull : out std_logic_vector(3 downto 0)
    );
end test_functions;


architecture arch_test_functions of test_functions is
  function cohdl_bool_to_std_logic(inp: boolean) return std_logic is
  begin
    if inp then
      return('1');
    else
      return('0');
    end if;
  end function cohdl_bool_to_std_logic;
  signal buffer_ident_out : std_logic_vector(3 downto 0);
  signal buffer_ident_out_2 : std_logic_vector(3 downto 0);
  signal buffer_selected : std_logic_vector(3 downto 0);
  signal buffer_selected_2 : std_logic_vector(3 downto 0);
  signal buffer_selected_nullfull : std_logic_vector(3 downto 0);
  signal temp : boolean;
  signal temp1 : std_logic_vector(3 downto 0);
  signal temp2 : boolean;
  signal temp3 : std_logic_vector(3 downto 0);
  signal temp4 : boolean;
  signal temp5 : std_logic_vector(3 downto 0);
begin
  
  -- CONCURRENT BLOCK (buffer assignment)
  ident_out <= buffer_ident_out;
  ident_out_2 <= buffer_ident_out_2;
  selected <= buffer_selected;
  selected_2 <= buffer_selected_2;
  selected_nullfull <= buffer_selected_nullfull;
  
  -- CONCURRENT BLOCK (logic_simple)
  buffer_ident_out <= ident_in;
  buffer_ident_out_2 <= ident_in_2;
  temp <= sel_bit = '1';
  with temp select temp1 <=
    ident_in when true,
    ident_in_2 when others;
  buffer_selected <= temp1;
  temp2 <= sel_bit = '1';
  with temp2 select temp3 <=
    ident_in when true,
    ident_in_2 when others;
  buffer_selected_2 <= temp3;
  temp4 <= sel_bit = '1';
  with temp4 select temp5 <=
    "1111" when true,
    "0000" when others;
  buffer_selected_nullfull <= temp5;
end architecture arch_test_functions;