library ieee;
use ieee.std_logic_1164.all;
use ieee.numeric_std.all;


entity test_inline_03 is
  port (
    inp_bit_1 : in std_logic;
    inp_bit_2 : in std_logic;
    inp_bit_3 : in std_logic;
    inp_bit_4 : in std_logic;
    out_bit : out std_logic
    );
end test_inline_03;


architecture arch_test_inline_03 of test_inline_03 is
  function cohdl_bool_to_std_logic(inp: boolean) return std_logic is
  begin
    if inp then
      return('1');
    else
      return('0');
    end if;
  end function cohdl_bool_to_std_logic;
  signal buffer_out_bit : std_logic;
  signal b : std_logic;
  signal temp : std_logic;
begin
  
  -- CONCURRENT BLOCK (buffer assignment)
  out_bit <= buffer_out_bit;
  
  -- CONCURRENT BLOCK (logic)
  b <= (inp_bit_3) and (inp_bit_4);
  temp <=  (inp_bit_1 xor inp_bit_2) or (inp_bit_1 xor b);
  buffer_out_bit <= temp;
end architecture arch_test_inline_03;