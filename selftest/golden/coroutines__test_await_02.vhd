library ieee;
use ieee.std_logic_1164.all;
use ieee.numeric_std.all;


entity test_await_02 is
  port (
    clk : in std_logic;
    inp_1 : in std_logic;
    inp_2 : in std_logic;
    out_1 : out std_logic;
    out_2 : out std_logic;
    out_push : out std_logic
    );
end test_await_02;


architecture arch_test_await_02 of test_await_02 is
  function cohdl_bool_to_std_logic(inp: boolean) return std_logic is
  begin
    if inp then
      return('1');
    else
      return('0');
    end if;
  end function cohdl_bool_to_std_logic;
  signal buffer_out_1 : std_logic;
  signal buffer_out_2 : std_logic;
  signal buffer_out_push : std_logic := '0';
  type state_proc_simple is (state_0, state_1, state_2);
  signal s_proc_simple : state_proc_simple := state_0;
begin
  
  -- CONCURRENT BLOCK (buffer assignment)
  out_1 <= buffer_out_1;
  out_2 <= buffer_out_2;
  out_push <= buffer_out_push;
  

  proc_simple: process(clk)
  begin
    if rising_edge(clk) then
      buffer_out_push <= '0';
      case s_proc_simple is
        when state_0 =>
          s_proc_simple <= state_1;
          buffer_out_1 <= '1';
          buffer_out_2 <= '0';
        when state_1 =>
          if inp_1 = '1' then
            s_proc_simple <= state_2;
            buffer_out_push <= '1';
            buffer_out_1 <= '0';
            buffer_out_2 <= '1';
          end if;
        when state_2 =>
          if inp_2 = '1' then
            s_proc_simple <= state_0;
          end if;
        when others =>
          null;
      end case;
    end if;
  end process;
end architecture arch_test_await_02;