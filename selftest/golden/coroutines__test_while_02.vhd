library ieee;
use ieee.std_logic_1164.all;
use ieee.numeric_std.all;


entity test_while_02 is
  port (
    clk : in std_logic;
    reset : in std_logic;
    state : out unsigned(3 downto 0);
    select1 : in std_logic;
    select2 : in std_logic
    );
end test_while_02;


architecture arch_test_while_02 of test_while_02 is
  function cohdl_bool_to_std_logic(inp: boolean) return std_logic is
  begin
    if inp then
      return('1');
    else
      return('0');
    end if;
  end function cohdl_bool_to_std_logic;
  signal buffer_state : unsigned(3 downto 0) := unsigned'("0000");
  type state_proc is (state_0, state_1, state_2);
  signal s_proc : state_proc := state_0;
begin
  
  -- CONCURRENT BLOCK (buffer assignment)
  state <= buffer_state;
  

  proc: process(clk)
    variable temp : boolean;
    variable var : unsigned(3 downto 0);
    variable temp1 : boolean;
    variable temp2 : boolean;
    variable temp3 : boolean;
    variable temp4 : unsigned(3 downto 0);
    variable temp5 : boolean;
    variable temp6 : unsigned(3 downto 0);
  begin
    if rising_edge(clk) then
      temp := reset = '1';
      if temp then
        s_proc <= state_0;
        buffer_state <= unsigned'("0000");
      else
        case s_proc is
          when state_0 =>
            var := unsigned'("1000");
            temp1 := select1 = '1';
            if temp1 then
              s_proc <= state_1;
            else
              temp2 := select2 = '1';
              if temp2 then
                s_proc <= state_2;
              else
                s_proc <= state_0;
              end if;
            end if;
          when state_1 =>
            temp3 := (var /= 0);
            if temp3 then
              s_proc <= state_1;
              temp4 := (var) - (1);
              var := temp4;
              buffer_state <= var;
            else
              s_proc <= state_0;
            end if;
          when state_2 =>
            temp5 := (var /= 0);
            if temp5 then
              s_proc <= state_2;
              temp6 := (var) - (2);
              var := temp6;
              buffer_state <= var;
            else
              s_proc <= state_0;
            end if;
          when others =>
            null;
        end case;
      end if;
    end if;
  end process;
end architecture arch_test_while_02;