library ieee;
use ieee.std_logic_1164.all;
use ieee.numeric_std.all;


entity test_reset_builder_01 is
  port (
    clk : in std_logic;
    reset : in std_logic;
    cond : in std_logic;
    high_0 : out std_logic;
    high_or_none : out std_logic;
    high_and_none : out std_logic;
    high_or_low : out std_logic;
    high_and_low : out std_logic;
    high_or_high : out std_logic;
    high_and_high : out std_logic;
    low_0 : out std_logic;
    low_or_none : out std_logic;
    low_and_none : out std_logic;
    low_or_low : out std_logic;
    low_and_low : out std_logic;
    low_or_high : out std_logic;
    low_and_high : out std_logic
    );
end test_reset_builder_01;


architecture arch_test_reset_builder_01 of test_reset_builder_01 is
  function cohdl_bool_to_std_logic(inp: boolean) return std_logic is
  begin
    if inp then
      return('1');
    else
      return('0');
    end if;
  end function cohdl_bool_to_std_logic;
  signal buffer_high_0 : std_logic := '0';
  signal buffer_high_or_none : std_logic := '0';
  signal buffer_high_and_none : std_logic := '0';
  signal buffer_high_or_low : std_logic := '0';
  signal buffer_high_and_low : std_logic := '0';
  signal buffer_high_or_high : std_logic := '0';
  signal buffer_high_and_high : std_logic := '0';
  signal buffer_low_0 : std_logic := '0';
  signal buffer_low_or_none : std_logic := '0';
  signal buffer_low_and_none : std_logic := '0';
  signal buffer_low_or_low : std_logic := '0';
  signal buffer_low_and_low : std_logic := '0';
  signal buffer_low_or_high : std_logic := '0';
  signal buffer_low_and_high : std_logic := '0';
  signal temp : boolean;
  signal temp1 : boolean;
  signal temp2 : boolean;
  signal combined_reset : std_logic;
  signal temp3 : boolean;
  signal temp4 : boolean;
  signal temp5 : boolean;
  signal combined_reset1 : std_logic;
  signal temp6 : std_logic;
  signal temp7 : boolean;
  signal temp8 : boolean;
  signal temp9 : boolean;
  signal combined_reset2 : std_logic;
  signal temp10 : std_logic;
  signal temp11 : boolean;
  signal temp12 : boolean;
  signal temp13 : boolean;
  signal combined_reset3 : std_logic;
  signal temp14 : boolean;
  signal temp15 : boolean;
  signal temp16 : boolean;
  signal combined_reset4 : std_logic;
  signal temp17 : boolean;
  signal temp18 : boolean;
  signal temp19 : boolean;
  signal combined_reset5 : std_logic;
  signal temp20 : std_logic;
  signal temp21 : boolean;
  signal temp22 : boolean;
  signal temp23 : boolean;
  signal combined_reset6 : std_logic;
  signal temp24 : std_logic;
  signal temp25 : boolean;
  signal temp26 : boolean;
  signal temp27 : boolean;
  signal combined_reset7 : std_logic;
  signal temp28 : boolean;
  signal temp29 : boolean;
  signal temp30 : boolean;
  signal combined_reset8 : std_logic;
  signal temp31 : boolean;
  signal temp32 : boolean;
  signal temp33 : boolean;
  signal combined_reset9 : std_logic;
  signal temp34 : std_logic;
  signal temp35 : boolean;
  signal temp36 : boolean;
  signal temp37 : boolean;
  signal combined_reset10 : std_logic;
  signal temp38 : std_logic;
  signal temp39 : boolean;
  signal temp40 : boolean;
  signal temp41 : boolean;
  signal combined_reset11 : std_logic;
begin
  
  -- CONCURRENT BLOCK (buffer assignment)
  high_0 <= buffer_high_0;
  high_or_none <= buffer_high_or_none;
  high_and_none <= buffer_high_and_none;
  high_or_low <= buffer_high_or_low;
  high_and_low <= buffer_high_and_low;
  high_or_high <= buffer_high_or_high;
  high_and_high <= buffer_high_and_high;
  low_0 <= buffer_low_0;
  low_or_none <= buffer_low_or_none;
  low_and_none <= buffer_low_and_none;
  low_or_low <= buffer_low_or_low;
  low_and_low <= buffer_low_and_low;
  low_or_high <= buffer_low_or_high;
  low_and_high <= buffer_low_and_high;
  

  proc: process(clk)
    variable temp42 : boolean;
  begin
    if rising_edge(clk) then
      temp42 := reset = '1';
      if temp42 then
        buffer_high_0 <= '0';
      else
        buffer_high_0 <= '1';
      end if;
    end if;
  end process;
  
  -- CONCURRENT BLOCK (logic)
  temp <= reset = '1';
  temp1 <= cond = '1';
  temp2 <= temp or temp1;
  combined_reset <= cohdl_bool_to_std_logic(temp2);
  

  proc1: process(clk)
    variable temp42 : boolean;
  begin
    if rising_edge(clk) then
      temp42 := combined_reset = '1';
      if temp42 then
        buffer_high_or_none <= '0';
      else
        buffer_high_or_none <= '1';
      end if;
    end if;
  end process;
  
  -- CONCURRENT BLOCK (logic)
  temp3 <= reset = '1';
  temp4 <= cond = '1';
  temp5 <= temp3 and temp4;
  combined_reset1 <= cohdl_bool_to_std_logic(temp5);
  

  proc2: process(clk)
    variable temp42 : boolean;
  begin
    if rising_edge(clk) then
      temp42 := combined_reset1 = '1';
      if temp42 then
        buffer_high_and_none <= '0';
      else
        buffer_high_and_none <= '1';
      end if;
    end if;
  end process;
  
  -- CONCURRENT BLOCK (logic)
  temp6 <= not (reset);
  temp7 <= temp6 = '1';
  temp8 <= cond = '1';
  temp9 <= temp7 and temp8;
  combined_reset2 <= cohdl_bool_to_std_logic(temp9);
  

  proc3: process(clk)
    variable temp42 : boolean;
    variable temp43 : boolean;
  begin
    if rising_edge(clk) then
      temp42 := combined_reset2 = '1';
      temp43 := not (temp42);
      if temp43 then
        buffer_high_or_low <= '0';
      else
        buffer_high_or_low <= '1';
      end if;
    end if;
  end process;
  
  -- CONCURRENT BLOCK (logic)
  temp10 <= not (reset);
  temp11 <= temp10 = '1';
  temp12 <= cond = '1';
  temp13 <= temp11 or temp12;
  combined_reset3 <= cohdl_bool_to_std_logic(temp13);
  

  proc4: process(clk)
    variable temp42 : boolean;
    variable temp43 : boolean;
  begin
    if rising_edge(clk) then
      temp42 := combined_reset3 = '1';
      temp43 := not (temp42);
      if temp43 then
        buffer_high_and_low <= '0';
      else
        buffer_high_and_low <= '1';
      end if;
    end if;
  end process;
  
  -- CONCURRENT BLOCK (logic)
  temp14 <= reset = '1';
  temp15 <= cond = '1';
  temp16 <= temp14 or temp15;
  combined_reset4 <= cohdl_bool_to_std_logic(temp16);
  

  proc5: process(clk)
    variable temp42 : boolean;
  begin
    if rising_edge(clk) then
      temp42 := combined_reset4 = '1';
      if temp42 then
        buffer_high_or_high <= '0';
      else
        buffer_high_or_high <= '1';
      end if;
    end if;
  end process;
  
  -- CONCURRENT BLOCK (logic)
  temp17 <= reset = '1';
  temp18 <= cond = '1';
  temp19 <= temp17 and temp18;
  combined_reset5 <= cohdl_bool_to_std_logic(temp19);
  

  proc6: process(clk)
    variable temp42 : boolean;
  begin
    if rising_edge(clk) then
      temp42 := combined_reset5 = '1';
      if temp42 then
        buffer_high_and_high <= '0';
      else
        buffer_high_and_high <= '1';
      end if;
    end if;
  end process;
  

  proc7: process(clk)
    variable temp42 : boolean;
    variable temp43 : boolean;
  begin
    if rising_edge(clk) then
      temp42 := reset = '1';
      temp43 := not (temp42);
      if temp43 then
        buffer_low_0 <= '0';
      else
        buffer_low_0 <= '1';
      end if;
    end if;
  end process;
  
  -- CONCURRENT BLOCK (logic)
  temp20 <= not (reset);
  temp21 <= temp20 = '1';
  temp22 <= cond = '1';
  temp23 <= temp21 or temp22;
  combined_reset6 <= cohdl_bool_to_std_logic(temp23);
  

  proc8: process(clk)
    variable temp42 : boolean;
  begin
    if rising_edge(clk) then
      temp42 := combined_reset6 = '1';
      if temp42 then
        buffer_low_or_none <= '0';
      else
        buffer_low_or_none <= '1';
      end if;
    end if;
  end process;
  
  -- CONCURRENT BLOCK (logic)
  temp24 <= not (reset);
  temp25 <= temp24 = '1';
  temp26 <= cond = '1';
  temp27 <= temp25 and temp26;
  combined_reset7 <= cohdl_bool_to_std_logic(temp27);
  

  proc9: process(clk)
    variable temp42 : boolean;
  begin
    if rising_edge(clk) then
      temp42 := combined_reset7 = '1';
      if temp42 then
        buffer_low_and_none <= '0';
      else
        buffer_low_and_none <= '1';
      end if;
    end if;
  end process;
  
  -- CONCURRENT BLOCK (logic)
  temp28 <= reset = '1';
  temp29 <= cond = '1';
  temp30 <= temp28 and temp29;
  combined_reset8 <= cohdl_bool_to_std_logic(temp30);
  

  proc10: process(clk)
    variable temp42 : boolean;
    variable temp43 : boolean;
  begin
    if rising_edge(clk) then
      temp42 := combined_reset8 = '1';
      temp43 := not (temp42);
      if temp43 then
        buffer_low_or_low <= '0';
      else
        buffer_low_or_low <= '1';
      end if;
    end if;
  end process;
  
  -- CONCURRENT BLOCK (logic)
  temp31 <= reset = '1';
  temp32 <= cond = '1';
  temp33 <= temp31 or temp32;
  combined_reset9 <= cohdl_bool_to_std_logic(temp33);
  

  proc11: process(clk)
    variable temp42 : boolean;
    variable temp43 : boolean;
  begin
    if rising_edge(clk) then
      temp42 := combined_reset9 = '1';
      temp43 := not (temp42);
      if temp43 then
        buffer_low_and_low <= '0';
      else
        buffer_low_and_low <= '1';
      end if;
    end if;
  end process;
  
  -- CONCURRENT BLOCK (logic)
  temp34 <= not (reset);
  temp35 <= temp34 = '1';
  temp36 <= cond = '1';
  temp37 <= temp35 or temp36;
  combined_reset10 <= cohdl_bool_to_std_logic(temp37);
  

  proc12: process(clk)
    variable temp42 : boolean;
  begin
    if rising_edge(clk) then
      temp42 := combined_reset10 = '1';
      if temp42 then
        buffer_low_or_high <= '0';
      else
        buffer_low_or_high <= '1';
      end if;
    end if;
  end process;
  
  -- CONCURRENT BLOCK (logic)
  temp38 <= not (reset);
  temp39 <= temp38 = '1';
  temp40 <= cond = '1';
  temp41 <= temp39 and temp40;
  combined_reset11 <= cohdl_bool_to_std_logic(temp41);
  

  proc13: process(clk)
    variable temp42 : boolean;
  begin
    if rising_edge(clk) then
      temp42 := combined_reset11 = '1';
      if temp42 then
        buffer_low_and_high <= '0';
      else
        buffer_low_and_high <= '1';
      end if;
    end if;
  end process;
end architecture arch_test_reset_builder_01;