library ieee;
use ieee.std_logic_1164.all;
use ieee.numeric_std.all;


entity test_array_06 is
  port (
    clk : in std_logic;
    reset : in std_logic;
    addr : in unsigned(1 downto 0);
    rd_v_v : out std_logic_vector(3 downto 0);
    rd_v_s : out signed(3 downto 0);
    rd_v_u : out unsigned(3 downto 0);
    rd_v_long_s : out signed(7 downto 0);
    rd_v_long_u : out unsigned(7 downto 0);
    rd_s_v : out std_logic_vector(3 downto 0);
    rd_s_s : out signed(3 downto 0);
    rd_s_u : out unsigned(3 downto 0);
    rd_s_long_s : out signed(7 downto 0);
    rd_s_long_u : out unsigned(7 downto 0);
    rd_u_v : out std_logic_vector(3 downto 0);
    rd_u_s : out signed(3 downto 0);
    rd_u_u : out unsigned(3 downto 0);
    rd_u_long_s : out signed(7 downto 0);
    rd_u_long_u : out unsigned(7 downto 0)
    );
end test_array_06;


architecture arch_test_array_06 of test_array_06 is
  function cohdl_bool_to_std_logic(inp: boolean) return std_logic is
  begin
    if inp then
      return('1');
    else
      return('0');
    end if;
  end function cohdl_bool_to_std_logic;
  signal buffer_rd_v_v : std_logic_vector(3 downto 0);
  signal buffer_rd_v_s : signed(3 downto 0);
  signal buffer_rd_v_u : unsigned(3 downto 0);
  signal buffer_rd_v_long_s : signed(7 downto 0);
  signal buffer_rd_v_long_u : unsigned(7 downto 0);
  signal buffer_rd_s_v : std_logic_vector(3 downto 0);
  signal buffer_rd_s_s : signed(3 downto 0);
  signal buffer_rd_s_u : unsigned(3 downto 0);
  signal buffer_rd_s_long_s : signed(7 downto 0);
  signal buffer_rd_s_long_u : unsigned(7 downto 0);
  signal buffer_rd_u_v : std_logic_vector(3 downto 0);
  signal buffer_rd_u_s : signed(3 downto 0);
  signal buffer_rd_u_u : unsigned(3 downto 0);
  signal buffer_rd_u_long_s : signed(7 downto 0);
  signal buffer_rd_u_long_u : unsigned(7 downto 0);
  signal temp : unsigned(1 downto 0);
  type array_type is array(0 to 3) of std_logic_vector(3 downto 0);
  signal array_vector : array_type := ( 0 => "0000", 1 => "1001", 2 => "0111", 3 => "1111" );
  signal temp1 : unsigned(1 downto 0);
  signal temp2 : unsigned(1 downto 0);
  signal temp3 : unsigned(1 downto 0);
  signal temp4 : unsigned(1 downto 0);
  signal temp5 : unsigned(1 downto 0);
  type array_type1 is array(0 to 3) of signed(3 downto 0);
  signal array_signed : array_type1 := ( 0 => signed'("0000"), 1 => signed'("1001"), 2 => signed'("0111"), 3 => signed'("1111") );
  signal temp6 : unsigned(1 downto 0);
  signal temp7 : unsigned(1 downto 0);
  signal temp8 : unsigned(1 downto 0);
  signal temp9 : unsigned(1 downto 0);
  signal temp10 : unsigned(1 downto 0);
  type array_type2 is array(0 to 3) of unsigned(3 downto 0);
  signal array_unsigned : array_type2 := ( 0 => unsigned'("0000"), 1 => unsigned'("1001"), 2 => unsigned'("0111"), 3 => unsigned'("1111") );
  signal temp11 : unsigned(1 downto 0);
  signal temp12 : unsigned(1 downto 0);
  signal temp13 : unsigned(1 downto 0);
  signal temp14 : unsigned(1 downto 0);
begin
  
  -- CONCURRENT BLOCK (buffer assignment)
  rd_v_v <= buffer_rd_v_v;
  rd_v_s <= buffer_rd_v_s;
  rd_v_u <= buffer_rd_v_u;
  rd_v_long_s <= buffer_rd_v_long_s;
  rd_v_long_u <= buffer_rd_v_long_u;
  rd_s_v <= buffer_rd_s_v;
  rd_s_s <= buffer_rd_s_s;
  rd_s_u <= buffer_rd_s_u;
  rd_s_long_s <= buffer_rd_s_long_s;
  rd_s_long_u <= buffer_rd_s_long_u;
  rd_u_v <= buffer_rd_u_v;
  rd_u_s <= buffer_rd_u_s;
  rd_u_u <= buffer_rd_u_u;
  rd_u_long_s <= buffer_rd_u_long_s;
  rd_u_long_u <= buffer_rd_u_long_u;
  
  -- CONCURRENT BLOCK (logic)
  temp <= addr;
  buffer_rd_v_v <= array_vector(to_integer(temp));
  temp1 <= addr;
  buffer_rd_v_s <= signed(array_vector(to_integer(temp1)));
  temp2 <= addr;
  buffer_rd_v_u <= unsigned(array_vector(to_integer(temp2)));
  temp3 <= addr;
  buffer_rd_v_long_s <= resize(signed(array_vector(to_integer(temp3))), 8);
  temp4 <= addr;
  buffer_rd_v_long_u <= resize(unsigned(array_vector(to_integer(temp4))), 8);
  temp5 <= addr;
  buffer_rd_s_v <= std_logic_vector(array_signed(to_integer(temp5)));
  temp6 <= addr;
  buffer_rd_s_s <= array_signed(to_integer(temp6));
  temp7 <= addr;
  buffer_rd_s_u <= unsigned(std_logic_vector(array_signed(to_integer(temp7))));
  temp8 <= addr;
  buffer_rd_s_long_s <= resize(array_signed(to_integer(temp8)), 8);
  temp9 <= addr;
  buffer_rd_s_long_u <= resize(unsigned(std_logic_vector(array_signed(to_integer(temp9)))), 8);
  temp10 <= addr;
  buffer_rd_u_v <= std_logic_vector(array_unsigned(to_integer(temp10)));
  temp11 <= addr;
  buffer_rd_u_s <= signed(std_logic_vector(resize(array_unsigned(to_integer(temp11)), 4)));
  temp12 <= addr;
  buffer_rd_u_u <= array_unsigned(to_integer(temp12));
  temp13 <= addr;
  buffer_rd_u_long_s <= resize(signed(std_logic_vector(resize(array_unsigned(to_integer(temp13)), 4))), 8);
  temp14 <= addr;
  buffer_rd_u_long_u <= resize(array_unsigned(to_integer(temp14)), 8);
end architecture arch_test_array_06;