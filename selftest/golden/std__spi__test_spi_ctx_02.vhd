library ieee;
use ieee.std_logic_1164.all;
use ieee.numeric_std.all;


entity test_spi_ctx_02 is
  port (
    clk : in std_logic;
    start_transaction : in std_logic;
    command : in std_logic_vector(7 downto 0);
    led : out std_logic_vector(7 downto 0);
    sclk : out std_logic;
    mosi : out std_logic;
    miso : in std_logic;
    cs : out std_logic
    );
end test_spi_ctx_02;


architecture arch_test_spi_ctx_02 of test_spi_ctx_02 is
  function cohdl_bool_to_std_logic(inp: boolean) return std_logic is
  begin
    if inp then
      return('1');
    else
      return('0');
    end if;
  end function cohdl_bool_to_std_logic;
  signal buffer_led : std_logic_vector(7 downto 0);
  signal buffer_sclk : std_logic;
  signal buffer_mosi : std_logic;
  signal buffer_cs : std_logic;
  signal combined_reset : std_logic;
  signal spi_toggle_reset : std_logic := '1';
  signal spi_toggle_counter : unsigned(2 downto 0) := unsigned'("000");
  signal spi_toggle_state : std_logic := '1';
  signal spi_toggle_rising : std_logic := '0';
  signal spi_toggle_falling : std_logic := '0';
  signal source : std_logic := '1';
  type state_proc is (state_0, state_1, state_2, state_3, state_4, state_5, state_6, state_7, state_8, state_9, state_10, state_11, state_12, state_13, state_14, state_15, state_16, state_17, state_18);
  signal s_proc : state_proc := state_0;
  signal out_shift_out : std_logic_vector(1 downto 0);
  signal out_shift_out1 : std_logic_vector(2 downto 0);
  signal out_shift_out2 : std_logic_vector(3 downto 0);
  signal out_shift_out3 : std_logic_vector(2 downto 0);
  signal in_shift_reg : std_logic_vector(1 downto 0);
  signal in_shift_reg1 : std_logic_vector(7 downto 0);
begin
  
  -- CONCURRENT BLOCK (buffer assignment)
  led <= buffer_led;
  sclk <= buffer_sclk;
  mosi <= buffer_mosi;
  cs <= buffer_cs;
  
  -- CONCURRENT BLOCK (logic)
  combined_reset <= spi_toggle_reset;
  

  proc: process(clk)
    variable temp : boolean;
    variable temp1 : unsigned(2 downto 0);
    variable temp2 : boolean;
    variable next_cnt : unsigned(2 downto 0);
    variable temp3 : boolean;
    variable temp4 : boolean;
    variable temp5 : boolean;
    variable temp6 : boolean;
    variable temp7 : boolean;
    variable temp8 : boolean;
    variable temp9 : boolean;
  begin
    if rising_edge(clk) then
      temp := combined_reset = '1';
      if temp then
        spi_toggle_counter <= unsigned'("000");
        spi_toggle_state <= '1';
        spi_toggle_rising <= '0';
        spi_toggle_falling <= '0';
      else
        temp1 := (spi_toggle_counter) + (1);
        temp2 := (spi_toggle_counter = 7);
        case temp2 is
          when true =>
            next_cnt := unsigned'("000");
          when others =>
            next_cnt := temp1;
        end case;
        spi_toggle_counter <= next_cnt;
        temp3 := (next_cnt < 4);
        spi_toggle_state <= cohdl_bool_to_std_logic(temp3);
        temp4 := spi_toggle_state = '1';
        temp5 := not (temp4);
        temp6 := temp5 and temp3;
        temp7 := not (temp3);
        temp8 := spi_toggle_state = '1';
        temp9 := temp8 and temp7;
        spi_toggle_rising <= cohdl_bool_to_std_logic(temp6);
        spi_toggle_falling <= cohdl_bool_to_std_logic(temp9);
      end if;
    end if;
  end process;
  
  -- CONCURRENT BLOCK (logic)
  buffer_sclk <= spi_toggle_state;
  
  -- CONCURRENT BLOCK (logic)
  buffer_cs <= source;
  

  proc1: process(clk)
    variable data : std_logic_vector(0 downto 0);
    variable val : std_logic_vector(1 downto 0);
    variable alias_out_shift_out : std_logic_vector(1 downto 0);
    variable temp : std_logic_vector(1 downto 0);
    variable temp1 : boolean;
    variable temp2 : boolean;
    variable temp3 : boolean;
    variable temp4 : boolean;
    variable temp5 : boolean;
    variable temp6 : std_logic_vector(1 downto 0);
    variable temp7 : boolean;
    variable temp8 : boolean;
    variable val1 : std_logic_vector(2 downto 0);
    variable alias_out_shift_out1 : std_logic_vector(2 downto 0);
    variable temp9 : std_logic_vector(2 downto 0);
    variable temp10 : boolean;
    variable temp11 : boolean;
    variable temp12 : boolean;
    variable temp13 : boolean;
    variable temp14 : boolean;
    variable temp15 : std_logic_vector(2 downto 0);
    variable temp16 : boolean;
    variable temp17 : boolean;
    variable val2 : std_logic_vector(3 downto 0);
    variable alias_out_shift_out2 : std_logic_vector(3 downto 0);
    variable temp18 : std_logic_vector(3 downto 0);
    variable temp19 : boolean;
    variable temp20 : boolean;
    variable temp21 : boolean;
    variable temp22 : boolean;
    variable temp23 : boolean;
    variable temp24 : std_logic_vector(3 downto 0);
    variable temp25 : boolean;
    variable temp26 : boolean;
    variable val3 : std_logic_vector(2 downto 0);
    variable alias_out_shift_out3 : std_logic_vector(2 downto 0);
    variable temp27 : std_logic_vector(2 downto 0);
    variable temp28 : boolean;
    variable temp29 : boolean;
    variable temp30 : boolean;
    variable temp31 : boolean;
    variable temp32 : boolean;
    variable temp33 : std_logic_vector(2 downto 0);
    variable temp34 : boolean;
    variable temp35 : boolean;
    variable temp36 : std_logic;
    variable temp37 : boolean;
    variable temp38 : boolean;
    variable temp39 : boolean;
    variable temp40 : boolean;
    variable temp41 : boolean;
    variable temp42 : std_logic_vector(1 downto 0);
    variable temp43 : std_logic_vector(0 downto 0);
    variable temp44 : std_logic;
    variable temp45 : boolean;
    variable temp46 : boolean;
    variable temp47 : boolean;
    variable temp48 : boolean;
    variable temp49 : boolean;
    variable temp50 : std_logic_vector(7 downto 0);
    variable temp51 : std_logic_vector(6 downto 0);
  begin
    if rising_edge(clk) then
      case s_proc is
        when state_0 =>
          if start_transaction = '1' then
            s_proc <= state_1;
            source <= '0';
            spi_toggle_reset <= '0';
            data := std_logic_vector(command(7 downto 7));
            val := (data) & ('1');
            alias_out_shift_out := val;
            out_shift_out <= val;
            temp := (std_logic_vector(alias_out_shift_out(0 downto 0))) & ("0");
            temp1 := (temp /= "00");
            temp2 := temp1;
            assert temp2 report "invalid shift, register already empty";
            out_shift_out <= temp;
            buffer_mosi <= alias_out_shift_out(1);
          end if;
        when state_1 =>
          temp3 := (std_logic_vector(out_shift_out(0 downto 0)) /= "0");
          temp4 := not (temp3);
          temp5 := not (temp4);
          if temp5 then
            s_proc <= state_2;
          else
            s_proc <= state_3;
          end if;
        when state_2 =>
          if spi_toggle_rising = '1' then
            s_proc <= state_1;
            temp6 := (std_logic_vector(out_shift_out(0 downto 0))) & ("0");
            temp7 := (temp6 /= "00");
            temp8 := temp7;
            assert temp8 report "invalid shift, register already empty";
            out_shift_out <= temp6;
            buffer_mosi <= out_shift_out(1);
          end if;
        when state_3 =>
          if spi_toggle_rising = '1' then
            s_proc <= state_4;
            buffer_mosi <= '0';
            val1 := (std_logic_vector(command(6 downto 5))) & ('1');
            alias_out_shift_out1 := val1;
            out_shift_out1 <= val1;
            temp9 := (std_logic_vector(alias_out_shift_out1(1 downto 0))) & ("0");
            temp10 := (temp9 /= "000");
            temp11 := temp10;
            assert temp11 report "invalid shift, register already empty";
            out_shift_out1 <= temp9;
            buffer_mosi <= alias_out_shift_out1(2);
          end if;
        when state_4 =>
          temp12 := (std_logic_vector(out_shift_out1(1 downto 0)) /= "00");
          temp13 := not (temp12);
          temp14 := not (temp13);
          if temp14 then
            s_proc <= state_5;
          else
            s_proc <= state_6;
          end if;
        when state_5 =>
          if spi_toggle_rising = '1' then
            s_proc <= state_4;
            temp15 := (std_logic_vector(out_shift_out1(1 downto 0))) & ("0");
            temp16 := (temp15 /= "000");
            temp17 := temp16;
            assert temp17 report "invalid shift, register already empty";
            out_shift_out1 <= temp15;
            buffer_mosi <= out_shift_out1(2);
          end if;
        when state_6 =>
          if spi_toggle_rising = '1' then
            s_proc <= state_7;
            buffer_mosi <= '0';
            val2 := (std_logic_vector(command(4 downto 2))) & ('1');
            alias_out_shift_out2 := val2;
            out_shift_out2 <= val2;
            temp18 := (std_logic_vector(alias_out_shift_out2(2 downto 0))) & ("0");
            temp19 := (temp18 /= "0000");
            temp20 := temp19;
            assert temp20 report "invalid shift, register already empty";
            out_shift_out2 <= temp18;
            buffer_mosi <= alias_out_shift_out2(3);
          end if;
        when state_7 =>
          temp21 := (std_logic_vector(out_shift_out2(2 downto 0)) /= "000");
          temp22 := not (temp21);
          temp23 := not (temp22);
          if temp23 then
            s_proc <= state_8;
          else
            s_proc <= state_9;
          end if;
        when state_8 =>
          if spi_toggle_rising = '1' then
            s_proc <= state_7;
            temp24 := (std_logic_vector(out_shift_out2(2 downto 0))) & ("0");
            temp25 := (temp24 /= "0000");
            temp26 := temp25;
            assert temp26 report "invalid shift, register already empty";
            out_shift_out2 <= temp24;
            buffer_mosi <= out_shift_out2(3);
          end if;
        when state_9 =>
          if spi_toggle_rising = '1' then
            s_proc <= state_10;
            buffer_mosi <= '0';
            val3 := (std_logic_vector(command(1 downto 0))) & ('1');
            alias_out_shift_out3 := val3;
            out_shift_out3 <= val3;
            temp27 := (std_logic_vector(alias_out_shift_out3(1 downto 0))) & ("0");
            temp28 := (temp27 /= "000");
            temp29 := temp28;
            assert temp29 report "invalid shift, register already empty";
            out_shift_out3 <= temp27;
            buffer_mosi <= alias_out_shift_out3(2);
          end if;
        when state_10 =>
          temp30 := (std_logic_vector(out_shift_out3(1 downto 0)) /= "00");
          temp31 := not (temp30);
          temp32 := not (temp31);
          if temp32 then
            s_proc <= state_11;
          else
            s_proc <= state_12;
          end if;
        when state_11 =>
          if spi_toggle_rising = '1' then
            s_proc <= state_10;
            temp33 := (std_logic_vector(out_shift_out3(1 downto 0))) & ("0");
            temp34 := (temp33 /= "000");
            temp35 := temp34;
            assert temp35 report "invalid shift, register already empty";
            out_shift_out3 <= temp33;
            buffer_mosi <= out_shift_out3(2);
          end if;
        when state_12 =>
          if spi_toggle_rising = '1' then
            s_proc <= state_13;
            buffer_mosi <= '0';
            in_shift_reg <= "01";
          end if;
        when state_13 =>
          temp36 := in_shift_reg(1);
          temp37 := temp36 = '1';
          temp38 := not (temp37);
          if temp38 then
            s_proc <= state_14;
          else
            s_proc <= state_15;
          end if;
        when state_14 =>
          if spi_toggle_falling = '1' then
            s_proc <= state_13;
            temp39 := (std_logic_vector(in_shift_reg(1 downto 1)) /= "0");
            temp40 := not (temp39);
            temp41 := temp40;
            assert temp41 report "invalid shift, register already full";
            temp42 := (std_logic_vector(in_shift_reg(0 downto 0))) & (miso);
            in_shift_reg <= temp42;
          end if;
        when state_15 =>
          if spi_toggle_rising = '1' then
            s_proc <= state_16;
            temp43 := std_logic_vector(in_shift_reg(0 downto 0));
            buffer_led(7 downto 7) <= temp43;
            in_shift_reg1 <= "00000001";
          end if;
        when state_16 =>
          temp44 := in_shift_reg1(7);
          temp45 := temp44 = '1';
          temp46 := not (temp45);
          if temp46 then
            s_proc <= state_17;
          else
            s_proc <= state_18;
          end if;
        when state_17 =>
          if spi_toggle_falling = '1' then
            s_proc <= state_16;
            temp47 := (std_logic_vector(in_shift_reg1(7 downto 7)) /= "0");
            temp48 := not (temp47);
            temp49 := temp48;
            assert temp49 report "invalid shift, register already full";
            temp50 := (std_logic_vector(in_shift_reg1(6 downto 0))) & (miso);
            in_shift_reg1 <= temp50;
          end if;
        when state_18 =>
          if spi_toggle_rising = '1' then
            s_proc <= state_0;
            temp51 := std_logic_vector(in_shift_reg1(6 downto 0));
            buffer_led(6 downto 0) <= temp51;
            spi_toggle_reset <= '1';
            source <= '1';
          end if;
        when others =>
          null;
      end case;
    end if;
  end process;
end architecture arch_test_spi_ctx_02;