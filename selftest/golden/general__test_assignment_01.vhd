library ieee;
use ieee.std_logic_1164.all;
use ieee.numeric_std.all;


entity test_assignment_01 is
  port (
    clk : in std_logic;
    step : in std_logic;
    inp1 : in std_logic;
    inp2 : in std_logic_vector(3 downto 0);
    out1 : out std_logic;
    out2 : out std_logic_vector(3 downto 0)
    );
end test_assignment_01;


architecture arch_test_assignment_01 of test_assignment_01 is
  function cohdl_bool_to_std_logic(inp: boolean) return std_logic is
  begin
    if inp then
      return('1');
    else
      return('0');
    end if;
  end function cohdl_bool_to_std_logic;
  signal buffer_out1 : std_logic := '0';
  signal buffer_out2 : std_logic_vector(3 downto 0) := "0000";
  type state_proc is (state_0, state_1, state_2);
  signal s_proc : state_proc := state_0;
begin
  
  -- CONCURRENT BLOCK (buffer assignment)
  out1 <= buffer_out1;
  out2 <= buffer_out2;
  

  proc: process(clk)
    variable var1 : std_logic;
    variable var2 : std_logic_vector(3 downto 0);
  begin
    if rising_edge(clk) then
      buffer_out2 <= "0000";
      case s_proc is
        when state_0 =>
          if step = '1' then
            s_proc <= state_1;
            buffer_out1 <= inp1;
          end if;
        when state_1 =>
          if step = '1' then
            s_proc <= state_2;
            var1 := inp1;
            var2 := inp2;
            buffer_out2 <= var2;
          end if;
        when state_2 =>
          if step = '1' then
            s_proc <= state_0;
            buffer_out1 <= var1;
            buffer_out2 <= var2;
          end if;
        when others =>
          null;
      end case;
    end if;
  end process;
end architecture arch_test_assignment_01;