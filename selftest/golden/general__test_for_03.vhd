library ieee;
use ieee.std_logic_1164.all;
use ieee.numeric_std.all;


entity test_for_03 is
  port (
    value : in std_logic_vector(15 downto 0);
    mask : in std_logic_vector(15 downto 0);
    result : out std_logic
    );
end test_for_03;


architecture arch_test_for_03 of test_for_03 is
  function cohdl_bool_to_std_logic(inp: boolean) return std_logic is
  begin
    if inp then
      return('1');
    else
      return('0');
    end if;
  end function cohdl_bool_to_std_logic;
  signal buffer_result : std_logic;
begin
  
  -- CONCURRENT BLOCK (buffer assignment)
  result <= buffer_result;
  

  proc: process(mask, value)
    variable temp : boolean;
    variable temp1 : boolean;
    variable temp2 : boolean;
    variable temp3 : boolean;
    variable temp4 : boolean;
    variable temp5 : boolean;
    variable temp6 : boolean;
    variable temp7 : boolean;
    variable temp8 : boolean;
    variable temp9 : boolean;
    variable temp10 : boolean;
    variable temp11 : boolean;
    variable temp12 : boolean;
    variable temp13 : boolean;
    variable temp14 : boolean;
    variable temp15 : boolean;
  begin
    temp := mask(0) = '1';
    if temp then
      buffer_result <= value(0);
    else
      temp1 := mask(1) = '1';
      if temp1 then
        buffer_result <= value(1);
      else
        temp2 := mask(2) = '1';
        if temp2 then
          buffer_result <= value(2);
        else
          temp3 := mask(3) = '1';
          if temp3 then
            buffer_result <= value(3);
          else
            temp4 := mask(4) = '1';
            if temp4 then
              buffer_result <= value(4);
            else
              temp5 := mask(5) = '1';
              if temp5 then
                buffer_result <= value(5);
              else
                temp6 := mask(6) = '1';
                if temp6 then
                  buffer_result <= value(6);
                else
                  temp7 := mask(7) = '1';
                  if temp7 then
                    buffer_result <= value(7);
                  else
                    temp8 := mask(8) = '1';
                    if temp8 then
                      buffer_result <= value(8);
                    else
                      temp9 := mask(9) = '1';
                      if temp9 then
                        buffer_result <= value(9);
                      else
                        temp10 := mask(10) = '1';
                        if temp10 then
                          buffer_result <= value(10);
                        else
                          temp11 := mask(11) = '1';
                          if temp11 then
                            buffer_result <= value(11);
                          else
                            temp12 := mask(12) = '1';
                            if temp12 then
                              buffer_result <= value(12);
                            else
                              temp13 := mask(13) = '1';
                              if temp13 then
                                buffer_result <= value(13);
                              else
                                temp14 := mask(14) = '1';
                                if temp14 then
                                  buffer_result <= value(14);
                                else
                                  temp15 := mask(15) = '1';
                                  if temp15 then
                                    buffer_result <= value(15);
                                  else
                                    buffer_result <= '0';
                                  end if;
                                end if;
                              end if;
                            end if;
                          end if;
                        end if;
                      end if;
                    end if;
                  end if;
                end if;
              end if;
            end if;
          end if;
        end if;
      end if;
    end if;
  end process;
end architecture arch_test_for_03;