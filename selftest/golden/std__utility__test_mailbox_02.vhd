library ieee;
use ieee.std_logic_1164.all;
use ieee.numeric_std.all;


entity test_mailbox_02 is
  port (
    clk : in std_logic;
    mailbox_data : out std_logic_vector(7 downto 0);
    received_data : out std_logic_vector(7 downto 0);
    is_set : out std_logic;
    is_clear : out std_logic
    );
end test_mailbox_02;


architecture arch_test_mailbox_02 of test_mailbox_02 is
  function cohdl_bool_to_std_logic(inp: boolean) return std_logic is
  begin
    if inp then
      return('1');
    else
      return('0');
    end if;
  end function cohdl_bool_to_std_logic;
  signal buffer_mailbox_data : std_logic_vector(7 downto 0);
  signal buffer_received_data : std_logic_vector(7 downto 0);
  signal buffer_is_set : std_logic;
  signal buffer_is_clear : std_logic;
  signal mailbox_data1 : std_logic_vector(7 downto 0);
  signal mailbox_sync_flag_tx : std_logic := '0';
  signal mailbox_sync_flag_rx : std_logic := '0';
  signal temp : boolean;
  signal temp1 : boolean;
  type state_proc_sender is (state_0, state_1);
  signal s_proc_sender : state_proc_sender := state_0;
  signal counter : unsigned(7 downto 0) := unsigned'("00000000");
begin
  
  -- CONCURRENT BLOCK (buffer assignment)
  mailbox_data <= buffer_mailbox_data;
  received_data <= buffer_received_data;
  is_set <= buffer_is_set;
  is_clear <= buffer_is_clear;
  
  -- CONCURRENT BLOCK (logic)
  buffer_mailbox_data <= mailbox_data1;
  temp <= (mailbox_sync_flag_tx /= mailbox_sync_flag_rx);
  buffer_is_set <= cohdl_bool_to_std_logic(temp);
  temp1 <= (mailbox_sync_flag_tx = mailbox_sync_flag_rx);
  buffer_is_clear <= cohdl_bool_to_std_logic(temp1);
  

  proc_sender: process(clk)
    variable temp2 : std_logic;
    variable temp3 : unsigned(7 downto 0);
    variable temp4 : boolean;
  begin
    if rising_edge(clk) then
      case s_proc_sender is
        when state_0 =>
          s_proc_sender <= state_1;
          mailbox_data1 <= std_logic_vector(counter);
          temp2 := not (mailbox_sync_flag_rx);
          mailbox_sync_flag_tx <= temp2;
          temp3 := (counter) + (1);
          counter <= temp3;
        when state_1 =>
          temp4 := (mailbox_sync_flag_tx = mailbox_sync_flag_rx);
          if temp4 then
            s_proc_sender <= state_1;
            mailbox_data1 <= std_logic_vector(counter);
            temp2 := not (mailbox_sync_flag_rx);
            mailbox_sync_flag_tx <= temp2;
            temp3 := (counter) + (1);
            counter <= temp3;
          end if;
        when others =>
          null;
      end case;
    end if;
  end process;
  

  proc_receiver: process(clk)
    variable temp2 : boolean;
  begin
    if rising_edge(clk) then
      temp2 := (mailbox_sync_flag_tx /= mailbox_sync_flag_rx);
      if temp2 then
        mailbox_sync_flag_rx <= mailbox_sync_flag_tx;
        buffer_received_data <= mailbox_data1;
      end if;
    end if;
  end process;
end architecture arch_test_mailbox_02;