library ieee;
use ieee.std_logic_1164.all;
use ieee.numeric_std.all;


entity test_leading_trailing is
  port (
    input : in std_logic_vector(1 downto 0);
    leading_0 : out unsigned(1 downto 0);
    leading_1 : out unsigned(1 downto 0);
    trailing_0 : out unsigned(1 downto 0);
    trailing_1 : out unsigned(1 downto 0)
    );
end test_leading_trailing;


architecture arch_test_leading_trailing of test_leading_trailing is
  function cohdl_bool_to_std_logic(inp: boolean) return std_logic is
  begin
    if inp then
      return('1');
    else
      return('0');
    end if;
  end function cohdl_bool_to_std_logic;
  signal buffer_leading_0 : unsigned(1 downto 0);
  signal buffer_leading_1 : unsigned(1 downto 0);
  signal buffer_trailing_0 : unsigned(1 downto 0);
  signal buffer_trailing_1 : unsigned(1 downto 0);
  signal seq : std_logic_vector(1 downto 0);
  signal temp : boolean;
  signal temp1 : boolean;
  signal temp2 : boolean;
  signal temp3 : unsigned(1 downto 0);
  signal temp4 : boolean;
  signal arg : unsigned(1 downto 0);
  signal seq1 : std_logic_vector(1 downto 0);
  signal temp5 : boolean;
  signal temp6 : boolean;
  signal temp7 : boolean;
  signal temp8 : unsigned(1 downto 0);
  signal temp9 : boolean;
  signal arg1 : unsigned(1 downto 0);
  signal temp10 : boolean;
  signal temp11 : boolean;
  signal temp12 : boolean;
  signal temp13 : unsigned(1 downto 0);
  signal temp14 : boolean;
  signal arg2 : unsigned(1 downto 0);
  signal temp15 : boolean;
  signal temp16 : boolean;
  signal temp17 : boolean;
  signal temp18 : unsigned(1 downto 0);
  signal temp19 : boolean;
  signal arg3 : unsigned(1 downto 0);
begin
  
  -- CONCURRENT BLOCK (buffer assignment)
  leading_0 <= buffer_leading_0;
  leading_1 <= buffer_leading_1;
  trailing_0 <= buffer_trailing_0;
  trailing_1 <= buffer_trailing_1;
  
  -- CONCURRENT BLOCK (logic_assign)
  seq <= (input(0)) & (input(1));
  temp <= (seq(0) /= '0');
  temp1 <= (seq(1) /= '0');
  temp2 <= temp1;
  with temp2 select temp3 <=
    unsigned'("01") when true,
    unsigned'("10") when others;
  temp4 <= temp;
  with temp4 select arg <=
    unsigned'("00") when true,
    temp3 when others;
  buffer_leading_0 <= arg;
  seq1 <= (input(0)) & (input(1));
  temp5 <= (seq1(0) /= '1');
  temp6 <= (seq1(1) /= '1');
  temp7 <= temp6;
  with temp7 select temp8 <=
    unsigned'("01") when true,
    unsigned'("10") when others;
  temp9 <= temp5;
  with temp9 select arg1 <=
    unsigned'("00") when true,
    temp8 when others;
  buffer_leading_1 <= arg1;
  temp10 <= (input(0) /= '0');
  temp11 <= (input(1) /= '0');
  temp12 <= temp11;
  with temp12 select temp13 <=
    unsigned'("01") when true,
    unsigned'("10") when others;
  temp14 <= temp10;
  with temp14 select arg2 <=
    unsigned'("00") when true,
    temp13 when others;
  buffer_trailing_0 <= arg2;
  temp15 <= (input(0) /= '1');
  temp16 <= (input(1) /= '1');
  temp17 <= temp16;
  with temp17 select temp18 <=
    unsigned'("01") when true,
    unsigned'("10") when others;
  temp19 <= temp15;
  with temp19 select arg3 <=
    unsigned'("00") when true,
    temp18 when others;
  buffer_trailing_1 <= arg3;
end architecture arch_test_leading_trailing;