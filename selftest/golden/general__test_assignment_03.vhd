library ieee;
use ieee.std_logic_1164.all;
use ieee.numeric_std.all;


entity test_assignment_03 is
  port (
    from_bitvector : in std_logic;
    from_unsigned : in std_logic;
    from_signed : in std_logic;
    from_primitive : in std_logic;
    from_str : in std_logic;
    from_null_full : in std_logic;
    inp_bitvector_short : in std_logic_vector(3 downto 0);
    inp_bitvector_long : in std_logic_vector(7 downto 0);
    inp_unsigned_short : in unsigned(3 downto 0);
    inp_unsigned_long : in unsigned(7 downto 0);
    inp_signed_short : in signed(3 downto 0);
    inp_signed_long : in signed(7 downto 0);
    out_bitvector_full_full : out std_logic_vector(3 downto 0);
    out_bitvector_full_slice : out std_logic_vector(3 downto 0);
    out_bitvector_slice_full : out std_logic_vector(7 downto 0);
    out_bitvector_slice_slice : out std_logic_vector(7 downto 0);
    out_unsigned_full_full : out unsigned(3 downto 0);
    out_unsigned_full_slice : out unsigned(3 downto 0);
    out_unsigned_slice_full : out unsigned(7 downto 0);
    out_unsigned_slice_slice : out unsigned(7 downto 0);
    out_signed_full_full : out signed(3 downto 0);
    out_signed_full_slice : out signed(3 downto 0);
    out_signed_slice_full : out signed(7 downto 0);
    out_signed_slice_slice : out signed(7 downto 0)
    );
end test_assignment_03;


architecture arch_test_assignment_03 of test_assignment_03 is
  function cohdl_bool_to_std_logic(inp: boolean) return std_logic is
  begin
    if inp then
      return('1');
    else
      return('0');
    end if;
  end function cohdl_bool_to_std_logic;
  signal buffer_out_bitvector_full_full : std_logic_vector(3 downto 0);
  signal buffer_out_bitvector_full_slice : std_logic_vector(3 downto 0);
  signal buffer_out_bitvector_slice_full : std_logic_vector(7 downto 0);
  signal buffer_out_bitvector_slice_slice : std_logic_vector(7 downto 0);
  signal buffer_out_unsigned_full_full : unsigned(3 downto 0);
  signal buffer_out_unsigned_full_slice : unsigned(3 downto 0);
  signal buffer_out_unsigned_slice_full : unsigned(7 downto 0);
  signal buffer_out_unsigned_slice_slice : unsigned(7 downto 0);
  signal buffer_out_signed_full_full : signed(3 downto 0);
  signal buffer_out_signed_full_slice : signed(3 downto 0);
  signal buffer_out_signed_slice_full : signed(7 downto 0);
  signal buffer_out_signed_slice_slice : signed(7 downto 0);
begin
  
  -- CONCURRENT BLOCK (buffer assignment)
  out_bitvector_full_full <= buffer_out_bitvector_full_full;
  out_bitvector_full_slice <= buffer_out_bitvector_full_slice;
  out_bitvector_slice_full <= buffer_out_bitvector_slice_full;
  out_bitvector_slice_slice <= buffer_out_bitvector_slice_slice;
  out_unsigned_full_full <= buffer_out_unsigned_full_full;
  out_unsigned_full_slice <= buffer_out_unsigned_full_slice;
  out_unsigned_slice_full <= buffer_out_unsigned_slice_full;
  out_unsigned_slice_slice <= buffer_out_unsigned_slice_slice;
  out_signed_full_full <= buffer_out_signed_full_full;
  out_signed_full_slice <= buffer_out_signed_full_slice;
  out_signed_slice_full <= buffer_out_signed_slice_full;
  out_signed_slice_slice <= buffer_out_signed_slice_slice;
  

  logic_bitvector_target: process(from_bitvector, inp_bitvector_short, inp_bitvector_long, from_unsigned, inp_unsigned_short, inp_unsigned_long, from_signed, inp_signed_short, inp_signed_long, from_primitive, from_str, from_null_full)
    variable temp : boolean;
    variable temp1 : boolean;
    variable temp2 : boolean;
    variable temp3 : boolean;
    variable temp4 : boolean;
    variable temp5 : boolean;
  begin
    temp := from_bitvector = '1';
    if temp then
      buffer_out_bitvector_full_full <= inp_bitvector_short;
      buffer_out_bitvector_full_slice <= std_logic_vector(inp_bitvector_long(3 downto 0));
      buffer_out_bitvector_slice_full(3 downto 0) <= inp_bitvector_short;
      buffer_out_bitvector_slice_full(7 downto 4) <= inp_bitvector_short;
      buffer_out_bitvector_slice_slice(3 downto 0) <= std_logic_vector(inp_bitvector_long(3 downto 0));
      buffer_out_bitvector_slice_slice(7 downto 4) <= std_logic_vector(inp_bitvector_long(7 downto 4));
    else
      temp1 := from_unsigned = '1';
      if temp1 then
        buffer_out_bitvector_full_full <= std_logic_vector(inp_unsigned_short);
        buffer_out_bitvector_full_slice <= std_logic_vector(unsigned(inp_unsigned_long(3 downto 0)));
        buffer_out_bitvector_slice_full(3 downto 0) <= std_logic_vector(inp_unsigned_short);
        buffer_out_bitvector_slice_full(7 downto 4) <= std_logic_vector(inp_unsigned_short);
        buffer_out_bitvector_slice_slice(3 downto 0) <= std_logic_vector(unsigned(inp_unsigned_long(3 downto 0)));
        buffer_out_bitvector_slice_slice(7 downto 4) <= std_logic_vector(unsigned(inp_unsigned_long(7 downto 4)));
      else
        temp2 := from_signed = '1';
        if temp2 then
          buffer_out_bitvector_full_full <= std_logic_vector(inp_signed_short);
          buffer_out_bitvector_full_slice <= std_logic_vector(signed(inp_signed_long(3 downto 0)));
          buffer_out_bitvector_slice_full(3 downto 0) <= std_logic_vector(inp_signed_short);
          buffer_out_bitvector_slice_full(7 downto 4) <= std_logic_vector(inp_signed_short);
          buffer_out_bitvector_slice_slice(3 downto 0) <= std_logic_vector(signed(inp_signed_long(3 downto 0)));
          buffer_out_bitvector_slice_slice(7 downto 4) <= std_logic_vector(signed(inp_signed_long(7 downto 4)));
        else
          temp3 := from_primitive = '1';
          if temp3 then
            buffer_out_bitvector_full_full <= "0000";
            buffer_out_bitvector_full_slice <= "0011";
            buffer_out_bitvector_slice_full(3 downto 0) <= "0000";
            buffer_out_bitvector_slice_full(7 downto 4) <= "1111";
            buffer_out_bitvector_slice_slice(3 downto 0) <= "0011";
            buffer_out_bitvector_slice_slice(7 downto 4) <= "1100";
          else
            temp4 := from_str = '1';
            if temp4 then
              buffer_out_bitvector_full_full <= "0000";
              buffer_out_bitvector_full_slice <= "0011";
              buffer_out_bitvector_slice_full(3 downto 0) <= "0000";
              buffer_out_bitvector_slice_full(7 downto 4) <= "1111";
              buffer_out_bitvector_slice_slice(3 downto 0) <= "0011";
              buffer_out_bitvector_slice_slice(7 downto 4) <= "1100";
            else
              temp5 := from_null_full = '1';
              if temp5 then
                buffer_out_bitvector_full_full <= "0000";
                buffer_out_bitvector_full_slice <= "1111";
                buffer_out_bitvector_slice_full(3 downto 0) <= "0000";
                buffer_out_bitvector_slice_full(7 downto 4) <= "1111";
                buffer_out_bitvector_slice_slice(3 downto 0) <= "0000";
                buffer_out_bitvector_slice_slice(7 downto 4) <= "1111";
              end if;
            end if;
          end if;
        end if;
      end if;
    end if;
  end process;
  

  logic_unsigned_target: process(from_bitvector, inp_bitvector_short, inp_bitvector_long, from_unsigned, inp_unsigned_short, inp_unsigned_long, from_signed, inp_signed_short, inp_signed_long, from_primitive, from_str, from_null_full)
    variable temp : boolean;
    variable temp1 : boolean;
    variable temp2 : boolean;
    variable temp3 : boolean;
    variable temp4 : boolean;
    variable temp5 : boolean;
  begin
    temp := from_bitvector = '1';
    if temp then
      buffer_out_unsigned_full_full <= unsigned(inp_bitvector_short);
      buffer_out_unsigned_full_slice <= unsigned(std_logic_vector(inp_bitvector_long(3 downto 0)));
      buffer_out_unsigned_slice_full(3 downto 0) <= unsigned(inp_bitvector_short);
      buffer_out_unsigned_slice_full(7 downto 4) <= unsigned(inp_bitvector_short);
      buffer_out_unsigned_slice_slice(3 downto 0) <= unsigned(std_logic_vector(inp_bitvector_long(3 downto 0)));
      buffer_out_unsigned_slice_slice(7 downto 4) <= unsigned(std_logic_vector(inp_bitvector_long(7 downto 4)));
    else
      temp1 := from_unsigned = '1';
      if temp1 then
        buffer_out_unsigned_full_full <= inp_unsigned_short;
        buffer_out_unsigned_full_slice <= unsigned(std_logic_vector(unsigned(inp_unsigned_long(3 downto 0))));
        buffer_out_unsigned_slice_full(3 downto 0) <= inp_unsigned_short;
        buffer_out_unsigned_slice_full(7 downto 4) <= inp_unsigned_short;
        buffer_out_unsigned_slice_slice(3 downto 0) <= unsigned(std_logic_vector(unsigned(inp_unsigned_long(3 downto 0))));
        buffer_out_unsigned_slice_slice(7 downto 4) <= unsigned(std_logic_vector(unsigned(inp_unsigned_long(7 downto 4))));
      else
        temp2 := from_signed = '1';
        if temp2 then
          buffer_out_unsigned_full_full <= unsigned(std_logic_vector(inp_signed_short));
          buffer_out_unsigned_full_slice <= unsigned(std_logic_vector(signed(inp_signed_long(3 downto 0))));
          buffer_out_unsigned_slice_full(3 downto 0) <= unsigned(std_logic_vector(inp_signed_short));
          buffer_out_unsigned_slice_full(7 downto 4) <= unsigned(std_logic_vector(inp_signed_short));
          buffer_out_unsigned_slice_slice(3 downto 0) <= unsigned(std_logic_vector(signed(inp_signed_long(3 downto 0))));
          buffer_out_unsigned_slice_slice(7 downto 4) <= unsigned(std_logic_vector(signed(inp_signed_long(7 downto 4))));
        else
          temp3 := from_primitive = '1';
          if temp3 then
            buffer_out_unsigned_full_full <= unsigned'("0000");
            buffer_out_unsigned_full_slice <= unsigned'("0011");
            buffer_out_unsigned_slice_full(3 downto 0) <= unsigned'("0000");
            buffer_out_unsigned_slice_full(7 downto 4) <= unsigned'("1111");
            buffer_out_unsigned_slice_slice(3 downto 0) <= unsigned'("0011");
            buffer_out_unsigned_slice_slice(7 downto 4) <= unsigned'("1100");
          else
            temp4 := from_str = '1';
            if temp4 then
              buffer_out_unsigned_full_full <= unsigned'("0000");
              buffer_out_unsigned_full_slice <= unsigned'("0011");
              buffer_out_unsigned_slice_full(3 downto 0) <= unsigned'("0000");
              buffer_out_unsigned_slice_full(7 downto 4) <= unsigned'("1111");
              buffer_out_unsigned_slice_slice(3 downto 0) <= unsigned'("0011");
              buffer_out_unsigned_slice_slice(7 downto 4) <= unsigned'("1100");
            else
              temp5 := from_null_full = '1';
              if temp5 then
                buffer_out_unsigned_full_full <= unsigned'("0000");
                buffer_out_unsigned_full_slice <= unsigned'("1111");
                buffer_out_unsigned_slice_full(3 downto 0) <= unsigned'("0000");
                buffer_out_unsigned_slice_full(7 downto 4) <= unsigned'("1111");
                buffer_out_unsigned_slice_slice(3 downto 0) <= unsigned'("0000");
                buffer_out_unsigned_slice_slice(7 downto 4) <= unsigned'("1111");
              end if;
            end if;
          end if;
        end if;
      end if;
    end if;
  end process;
  

  logic_signed_target: process(from_bitvector, inp_bitvector_short, inp_bitvector_long, from_unsigned, inp_unsigned_short, inp_unsigned_long, from_signed, inp_signed_short, inp_signed_long, from_primitive, from_str, from_null_full)
    variable temp : boolean;
    variable temp1 : boolean;
    variable temp2 : boolean;
    variable temp3 : boolean;
    variable temp4 : boolean;
    variable temp5 : boolean;
  begin
    temp := from_bitvector = '1';
    if temp then
      buffer_out_signed_full_full <= signed(inp_bitvector_short);
      buffer_out_signed_full_slice <= signed(std_logic_vector(inp_bitvector_long(3 downto 0)));
      buffer_out_signed_slice_full(3 downto 0) <= signed(inp_bitvector_short);
      buffer_out_signed_slice_full(7 downto 4) <= signed(inp_bitvector_short);
      buffer_out_signed_slice_slice(3 downto 0) <= signed(std_logic_vector(inp_bitvector_long(3 downto 0)));
      buffer_out_signed_slice_slice(7 downto 4) <= signed(std_logic_vector(inp_bitvector_long(7 downto 4)));
    else
      temp1 := from_unsigned = '1';
      if temp1 then
        buffer_out_signed_full_full <= signed(std_logic_vector(inp_unsigned_short));
        buffer_out_signed_full_slice <= signed(std_logic_vector(unsigned(inp_unsigned_long(3 downto 0))));
        buffer_out_signed_slice_full(3 downto 0) <= signed(std_logic_vector(inp_unsigned_short));
        buffer_out_signed_slice_full(7 downto 4) <= signed(std_logic_vector(inp_unsigned_short));
        buffer_out_signed_slice_slice(3 downto 0) <= signed(std_logic_vector(unsigned(inp_unsigned_long(3 downto 0))));
        buffer_out_signed_slice_slice(7 downto 4) <= signed(std_logic_vector(unsigned(inp_unsigned_long(7 downto 4))));
      else
        temp2 := from_signed = '1';
        if temp2 then
          buffer_out_signed_full_full <= inp_signed_short;
          buffer_out_signed_full_slice <= signed(std_logic_vector(signed(inp_signed_long(3 downto 0))));
          buffer_out_signed_slice_full(3 downto 0) <= inp_signed_short;
          buffer_out_signed_slice_full(7 downto 4) <= inp_signed_short;
          buffer_out_signed_slice_slice(3 downto 0) <= signed(std_logic_vector(signed(inp_signed_long(3 downto 0))));
          buffer_out_signed_slice_slice(7 downto 4) <= signed(std_logic_vector(signed(inp_signed_long(7 downto 4))));
        else
          temp3 := from_primitive = '1';
          if temp3 then
            buffer_out_signed_full_full <= signed'("0000");
            buffer_out_signed_full_slice <= signed'("0011");
            buffer_out_signed_slice_full(3 downto 0) <= signed'("0000");
            buffer_out_signed_slice_full(7 downto 4) <= signed'("1111");
            buffer_out_signed_slice_slice(3 downto 0) <= signed'("0011");
            buffer_out_signed_slice_slice(7 downto 4) <= signed'("1100");
          else
            temp4 := from_str = '1';
            if temp4 then
              buffer_out_signed_full_full <= signed'("0000");
              buffer_out_signed_full_slice <= signed'("0011");
              buffer_out_signed_slice_full(3 downto 0) <= signed'("0000");
              buffer_out_signed_slice_full(7 downto 4) <= signed'("1111");
              buffer_out_signed_slice_slice(3 downto 0) <= signed'("0011");
              buffer_out_signed_slice_slice(7 downto 4) <= signed'("1100");
            else
              temp5 := from_null_full = '1';
              if temp5 then
                buffer_out_signed_full_full <= signed'("0000");
                buffer_out_signed_full_slice <= signed'("1111");
                buffer_out_signed_slice_full(3 downto 0) <= signed'("0000");
                buffer_out_signed_slice_full(7 downto 4) <= signed'("1111");
                buffer_out_signed_slice_slice(3 downto 0) <= signed'("0000");
                buffer_out_signed_slice_slice(7 downto 4) <= signed'("1111");
              end if;
            end if;
          end if;
        end if;
      end if;
    end if;
  end process;
end architecture arch_test_assignment_03;