library ieee;
use ieee.std_logic_1164.all;
use ieee.numeric_std.all;


entity test_sync_flag_03 is
  port (
    clk : in std_logic;
    reset : in std_logic;
    start_sender : in std_logic;
    set_flag : out std_logic;
    clear_flag : out std_logic;
    is_set : out std_logic;
    is_clear : out std_logic;
    is_set_in_sender : out std_logic;
    is_clear_in_sender : out std_logic;
    is_set_in_receiver : out std_logic;
    is_clear_in_receiver : out std_logic
    );
end test_sync_flag_03;


architecture arch_test_sync_flag_03 of test_sync_flag_03 is
  function cohdl_bool_to_std_logic(inp: boolean) return std_logic is
  begin
    if inp then
      return('1');
    else
      return('0');
    end if;
  end function cohdl_bool_to_std_logic;
  signal buffer_set_flag : std_logic := '0';
  signal buffer_clear_flag : std_logic := '0';
  signal buffer_is_set : std_logic;
  signal buffer_is_clear : std_logic;
  signal buffer_is_set_in_sender : std_logic;
  signal buffer_is_clear_in_sender : std_logic;
  signal buffer_is_set_in_receiver : std_logic;
  signal buffer_is_clear_in_receiver : std_logic;
  signal sync_flag_tx : std_logic := '0';
  signal sync_flag_rx : std_logic := '0';
  signal temp : boolean;
  signal temp1 : boolean;
begin
  
  -- CONCURRENT BLOCK (buffer assignment)
  set_flag <= buffer_set_flag;
  clear_flag <= buffer_clear_flag;
  is_set <= buffer_is_set;
  is_clear <= buffer_is_clear;
  is_set_in_sender <= buffer_is_set_in_sender;
  is_clear_in_sender <= buffer_is_clear_in_sender;
  is_set_in_receiver <= buffer_is_set_in_receiver;
  is_clear_in_receiver <= buffer_is_clear_in_receiver;
  
  -- CONCURRENT BLOCK (logic)
  temp <= (sync_flag_tx /= sync_flag_rx);
  buffer_is_set <= cohdl_bool_to_std_logic(temp);
  temp1 <= (sync_flag_tx = sync_flag_rx);
  buffer_is_clear <= cohdl_bool_to_std_logic(temp1);
  

  set_sync: process(clk)
    variable temp2 : boolean;
    variable temp3 : boolean;
    variable temp4 : std_logic;
    variable temp5 : boolean;
    variable temp6 : boolean;
  begin
    if rising_edge(clk) then
      temp2 := reset = '1';
      if temp2 then
        sync_flag_tx <= '0';
        buffer_set_flag <= '0';
      else
        buffer_set_flag <= '0';
        temp3 := start_sender = '1';
        if temp3 then
          temp4 := not (sync_flag_rx);
          sync_flag_tx <= temp4;
          buffer_set_flag <= '1';
        end if;
        temp5 := (sync_flag_tx /= sync_flag_rx);
        buffer_is_set_in_sender <= cohdl_bool_to_std_logic(temp5);
        temp6 := (sync_flag_tx = sync_flag_rx);
        buffer_is_clear_in_sender <= cohdl_bool_to_std_logic(temp6);
      end if;
    end if;
  end process;
  

  clear_sync: process(clk)
    variable temp2 : boolean;
    variable temp3 : boolean;
    variable temp4 : boolean;
    variable temp5 : boolean;
  begin
    if rising_edge(clk) then
      temp2 := reset = '1';
      if temp2 then
        sync_flag_rx <= '0';
        buffer_clear_flag <= '0';
      else
        buffer_clear_flag <= '0';
        temp3 := (sync_flag_tx /= sync_flag_rx);
        if temp3 then
          sync_flag_rx <= sync_flag_tx;
          buffer_clear_flag <= '1';
        end if;
        temp4 := (sync_flag_tx /= sync_flag_rx);
        buffer_is_set_in_receiver <= cohdl_bool_to_std_logic(temp4);
        temp5 := (sync_flag_tx = sync_flag_rx);
        buffer_is_clear_in_receiver <= cohdl_bool_to_std_logic(temp5);
      end if;
    end if;
  end process;
end architecture arch_test_sync_flag_03;