library ieee;
use ieee.std_logic_1164.all;
use ieee.numeric_std.all;


entity test_context_manager_02 is
  port (
    clk : in std_logic;
    reset : in std_logic;
    condition : in unsigned(7 downto 0);
    result : out unsigned(15 downto 0);
    final_val : out unsigned(15 downto 0)
    );
end test_context_manager_02;


architecture arch_test_context_manager_02 of test_context_manager_02 is
  function cohdl_bool_to_std_logic(inp: boolean) return std_logic is
  begin
    if inp then
      return('1');
    else
      return('0');
    end if;
  end function cohdl_bool_to_std_logic;
  signal buffer_result : unsigned(15 downto 0);
  signal buffer_final_val : unsigned(15 downto 0);
begin
  
  -- CONCURRENT BLOCK (buffer assignment)
  result <= buffer_result;
  final_val <= buffer_final_val;
  

  proc: process(clk)
    variable temp : boolean;
    variable var_counter : unsigned(15 downto 0) := unsigned'("0000000000000000");
    variable temp1 : boolean;
    variable temp2 : unsigned(15 downto 0);
    variable temp3 : unsigned(15 downto 0);
    variable temp4 : unsigned(15 downto 0);
    variable temp5 : unsigned(15 downto 0);
    variable temp6 : boolean;
    variable temp7 : boolean;
    variable temp8 : boolean;
    variable temp9 : boolean;
    variable temp10 : unsigned(15 downto 0);
    variable temp11 : unsigned(15 downto 0);
    variable temp12 : unsigned(15 downto 0);
    variable temp13 : boolean;
    variable temp14 : boolean;
    variable temp15 : boolean;
    variable temp16 : unsigned(15 downto 0);
    variable temp17 : unsigned(15 downto 0);
    variable temp18 : unsigned(15 downto 0);
    variable temp19 : boolean;
    variable temp20 : unsigned(15 downto 0);
    variable temp21 : unsigned(15 downto 0);
    variable temp22 : unsigned(15 downto 0);
    variable temp23 : unsigned(15 downto 0);
    variable temp24 : unsigned(15 downto 0);
    variable temp25 : boolean;
    variable temp26 : unsigned(15 downto 0);
    variable temp27 : unsigned(15 downto 0);
  begin
    if rising_edge(clk) then
      temp := reset = '1';
      if temp then
        var_counter := unsigned'("0000000000000000");
      else
        var_counter := unsigned'("0000000000000000");
        temp1 := (condition = 0);
        if temp1 then
          temp2 := (var_counter) + (5);
          temp3 := temp2;
          temp4 := (var_counter) + (1);
          var_counter := temp4;
          buffer_result <= temp3;
          buffer_final_val <= var_counter;
        else
          temp5 := (var_counter) + (1);
          var_counter := temp5;
          temp6 := (condition = 6);
          temp7 := (condition = 11);
          temp8 := temp6 or temp7;
          if temp8 then
            temp9 := (condition = 11);
            if temp9 then
              temp10 := (var_counter) + (17);
              temp3 := temp10;
              temp11 := (var_counter) + (1);
              var_counter := temp11;
              buffer_result <= temp3;
              buffer_final_val <= var_counter;
            else
              temp12 := (var_counter) + (4);
              temp3 := temp12;
              buffer_result <= temp3;
              buffer_final_val <= var_counter;
            end if;
          else
            temp13 := (condition = 7);
            temp14 := (condition = 8);
            temp15 := temp13 or temp14;
            if temp15 then
              temp16 := (var_counter) + (11);
              temp3 := temp16;
              temp17 := (var_counter) + (1);
              var_counter := temp17;
              temp18 := (var_counter) + (1);
              var_counter := temp18;
              buffer_result <= temp3;
              buffer_final_val <= var_counter;
            else
              temp19 := (condition = 4);
              if temp19 then
                temp20 := (var_counter) + (1);
                temp3 := temp20;
                temp21 := (var_counter) + (1);
                var_counter := temp21;
                temp22 := (var_counter) + (1);
                var_counter := temp22;
                buffer_result <= temp3;
                buffer_final_val <= var_counter;
              else
                temp23 := (var_counter) + (1);
                var_counter := temp23;
                temp24 := (var_counter) + (1);
                var_counter := temp24;
                temp25 := (condition = 13);
                if temp25 then
                  temp26 := (var_counter) + (7);
                  temp3 := temp26;
                  buffer_result <= temp3;
                  buffer_final_val <= var_counter;
                else
                  temp27 := (var_counter) + (13);
                  temp3 := temp27;
                  buffer_result <= temp3;
                  buffer_final_val <= var_counter;
                end if;
              end if;
            end if;
          end if;
        end if;
      end if;
    end if;
  end process;
end architecture arch_test_context_manager_02;