library ieee;
use ieee.std_logic_1164.all;
use ieee.numeric_std.all;


entity test_while_01 is
  port (
    clk : in std_logic;
    reset : in std_logic;
    state : out unsigned(3 downto 0)
    );
end test_while_01;


architecture arch_test_while_01 of test_while_01 is
  function cohdl_bool_to_std_logic(inp: boolean) return std_logic is
  begin
    if inp then
      return('1');
    else
      return('0');
    end if;
  end function cohdl_bool_to_std_logic;
  signal buffer_state : unsigned(3 downto 0) := unsigned'("0000");
  type state_proc is (state_0, state_1);
  signal s_proc : state_proc := state_0;
begin
  
  -- CONCURRENT BLOCK (buffer assignment)
  state <= buffer_state;
  

  proc: process(clk)
    variable temp : boolean;
    variable var : unsigned(3 downto 0);
    variable temp1 : boolean;
    variable temp2 : unsigned(3 downto 0);
  begin
    if rising_edge(clk) then
      temp := reset = '1';
      if temp then
        s_proc <= state_0;
        buffer_state <= unsigned'("0000");
      else
        case s_proc is
          when state_0 =>
            s_proc <= state_1;
            var := unsigned'("1000");
          when state_1 =>
            temp1 := (var /= 0);
            if temp1 then
              s_proc <= state_1;
              temp2 := (var) - (1);
              var := temp2;
              buffer_state <= var;
            else
              s_proc <= state_0;
            end if;
          when others =>
            null;
        end case;
      end if;
    end if;
  end process;
end architecture arch_test_while_01;