library ieee;
use ieee.std_logic_1164.all;
use ieee.numeric_std.all;


entity test_slice_02 is
  port (
    inp1 : in std_logic_vector(4 downto 0);
    out1_a : out std_logic_vector(0 downto 0);
    out1_b : out std_logic_vector(1 downto 0);
    out1_c : out std_logic_vector(1 downto 0);
    out1_d : out std_logic_vector(6 downto 0);
    out1_e : out std_logic_vector(4 downto 0);
    out2_a : out std_logic_vector(0 downto 0);
    out2_b : out std_logic_vector(1 downto 0);
    out2_c : out std_logic_vector(1 downto 0);
    out2_d : out std_logic_vector(6 downto 0);
    out2_e : out std_logic_vector(4 downto 0)
    );
end test_slice_02;


architecture arch_test_slice_02 of test_slice_02 is
  function cohdl_bool_to_std_logic(inp: boolean) return std_logic is
  begin
    if inp then
      return('1');
    else
      return('0');
    end if;
  end function cohdl_bool_to_std_logic;
  signal buffer_out1_a : std_logic_vector(0 downto 0);
  signal buffer_out1_b : std_logic_vector(1 downto 0);
  signal buffer_out1_c : std_logic_vector(1 downto 0);
  signal buffer_out1_d : std_logic_vector(6 downto 0);
  signal buffer_out1_e : std_logic_vector(4 downto 0);
  signal buffer_out2_a : std_logic_vector(0 downto 0);
  signal buffer_out2_b : std_logic_vector(1 downto 0);
  signal buffer_out2_c : std_logic_vector(1 downto 0);
  signal buffer_out2_d : std_logic_vector(6 downto 0);
  signal buffer_out2_e : std_logic_vector(4 downto 0);
  signal temp : std_logic_vector(1 downto 0);
  signal temp1 : std_logic_vector(1 downto 0);
  signal temp2 : std_logic_vector(4 downto 0);
  signal temp3 : std_logic_vector(5 downto 0);
  signal temp4 : std_logic_vector(6 downto 0);
  signal temp5 : std_logic_vector(1 downto 0);
  signal temp6 : std_logic_vector(2 downto 0);
  signal temp7 : std_logic_vector(3 downto 0);
  signal temp8 : std_logic_vector(4 downto 0);
begin
  
  -- CONCURRENT BLOCK (buffer assignment)
  out1_a <= buffer_out1_a;
  out1_b <= buffer_out1_b;
  out1_c <= buffer_out1_c;
  out1_d <= buffer_out1_d;
  out1_e <= buffer_out1_e;
  out2_a <= buffer_out2_a;
  out2_b <= buffer_out2_b;
  out2_c <= buffer_out2_c;
  out2_d <= buffer_out2_d;
  out2_e <= buffer_out2_e;
  
  -- CONCURRENT BLOCK (logic)
  buffer_out1_a <= std_logic_vector(inp1(2 downto 2));
  temp <= (inp1(1)) & (std_logic_vector(inp1(4 downto 4)));
  buffer_out1_b <= temp;
  buffer_out1_c <= std_logic_vector(inp1(1 downto 0));
  temp1 <= (inp1(4)) & (std_logic_vector(inp1(1 downto 1)));
  temp2 <= (std_logic_vector(inp1(2 downto 0))) & (temp1);
  temp3 <= (inp1(0)) & (temp2);
  temp4 <= (inp1(0)) & (temp3);
  buffer_out1_d <= temp4;
  temp5 <= (inp1(1)) & (std_logic_vector(inp1(0 downto 0)));
  temp6 <= (inp1(2)) & (temp5);
  temp7 <= (inp1(3)) & (temp6);
  temp8 <= (inp1(4)) & (temp7);
  buffer_out1_e <= temp8;
  

  proc: process(inp1)
    variable s : std_logic_vector(4 downto 0);
    variable temp9 : std_logic_vector(1 downto 0);
    variable temp10 : std_logic_vector(1 downto 0);
    variable temp11 : std_logic_vector(4 downto 0);
    variable temp12 : std_logic_vector(5 downto 0);
    variable temp13 : std_logic_vector(6 downto 0);
    variable temp14 : std_logic_vector(1 downto 0);
    variable temp15 : std_logic_vector(2 downto 0);
    variable temp16 : std_logic_vector(3 downto 0);
    variable temp17 : std_logic_vector(4 downto 0);
  begin
    s := inp1;
    buffer_out2_a <= std_logic_vector(s(2 downto 2));
    temp9 := (s(1)) & (std_logic_vector(s(4 downto 4)));
    buffer_out2_b <= temp9;
    buffer_out2_c <= std_logic_vector(s(1 downto 0));
    temp10 := (s(4)) & (std_logic_vector(s(1 downto 1)));
    temp11 := (std_logic_vector(s(2 downto 0))) & (temp10);
    temp12 := (s(0)) & (temp11);
    temp13 := (s(0)) & (temp12);
    buffer_out2_d <= temp13;
    temp14 := (s(1)) & (std_logic_vector(s(0 downto 0)));
    temp15 := (s(2)) & (temp14);
    temp16 := (s(3)) & (temp15);
    temp17 := (s(4)) & (temp16);
    buffer_out2_e <= temp17;
  end process;
end architecture arch_test_slice_02;