library ieee;
use ieee.std_logic_1164.all;
use ieee.numeric_std.all;


entity test_array_01 is
  port (
    clk : in std_logic;
    rd_addr : in std_logic_vector(3 downto 0);
    rd_data : out std_logic_vector(15 downto 0);
    wr_addr : in std_logic_vector(3 downto 0);
    wr_data : in std_logic_vector(15 downto 0)
    );
end test_array_01;


architecture arch_test_array_01 of test_array_01 is
  function cohdl_bool_to_std_logic(inp: boolean) return std_logic is
  begin
    if inp then
      return('1');
    else
      return('0');
    end if;
  end function cohdl_bool_to_std_logic;
  signal buffer_rd_data : std_logic_vector(15 downto 0);
  type array_type is array(0 to 15) of std_logic_vector(15 downto 0);
  signal mem : array_type;
begin
  
  -- CONCURRENT BLOCK (buffer assignment)
  rd_data <= buffer_rd_data;
  

  proc: process(clk)
    variable temp : unsigned(3 downto 0);
    variable temp1 : unsigned(3 downto 0);
  begin
    if rising_edge(clk) then
      temp := unsigned(rd_addr);
      buffer_rd_data <= mem(to_integer(temp));
      temp1 := unsigned(wr_addr);
      mem(to_integer(temp1)) <= wr_data;
    end if;
  end process;
end architecture arch_test_array_01;