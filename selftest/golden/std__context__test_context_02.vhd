library ieee;
use ieee.std_logic_1164.all;
use ieee.numeric_std.all;


entity test_context_02 is
  port (
    clk_a : in std_logic;
    clk_b : in std_logic;
    reset_a : in std_logic;
    reset_b : in std_logic;
    reset_or : out std_logic;
    reset_and : out std_logic;
    reset_and_or : out std_logic;
    reset_expr_or : out std_logic;
    reset_expr_and : out std_logic;
    reset_expr_and_or : out std_logic
    );
end test_context_02;


architecture arch_test_context_02 of test_context_02 is
  function cohdl_bool_to_std_logic(inp: boolean) return std_logic is
  begin
    if inp then
      return('1');
    else
      return('0');
    end if;
  end function cohdl_bool_to_std_logic;
  signal buffer_reset_or : std_logic;
  signal buffer_reset_and : std_logic;
  signal buffer_reset_and_or : std_logic;
  signal buffer_reset_expr_or : std_logic;
  signal buffer_reset_expr_and : std_logic;
  signal buffer_reset_expr_and_or : std_logic;
  signal temp : boolean;
  signal temp1 : boolean;
  signal temp2 : boolean;
  signal combined_reset : std_logic;
  signal temp3 : boolean;
  signal temp4 : boolean;
  signal temp5 : boolean;
  signal combined_reset1 : std_logic;
  signal temp6 : boolean;
  signal temp7 : boolean;
  signal temp8 : boolean;
  signal combined_reset2 : std_logic;
  signal temp9 : boolean;
  signal temp10 : boolean;
  signal temp11 : boolean;
  signal combined_reset3 : std_logic;
  signal temp12 : boolean;
  signal temp13 : boolean;
  signal temp14 : boolean;
  signal combined_reset4 : std_logic;
  signal temp15 : boolean;
  signal temp16 : boolean;
  signal temp17 : boolean;
  signal combined_reset5 : std_logic;
  signal temp18 : boolean;
  signal temp19 : boolean;
  signal combined_reset6 : std_logic;
  signal combined_reset7 : std_logic;
  signal temp20 : std_logic;
  signal combined_reset8 : std_logic;
  signal temp21 : std_logic;
  signal temp22 : boolean;
  signal temp23 : boolean;
  signal combined_reset9 : std_logic;
  signal temp24 : boolean;
  signal temp25 : boolean;
  signal combined_reset10 : std_logic;
  signal temp26 : std_logic;
  signal temp27 : boolean;
  signal temp28 : boolean;
  signal combined_reset11 : std_logic;
begin
  
  -- CONCURRENT BLOCK (buffer assignment)
  reset_or <= buffer_reset_or;
  reset_and <= buffer_reset_and;
  reset_and_or <= buffer_reset_and_or;
  reset_expr_or <= buffer_reset_expr_or;
  reset_expr_and <= buffer_reset_expr_and;
  reset_expr_and_or <= buffer_reset_expr_and_or;
  
  -- CONCURRENT BLOCK (logic)
  temp <= reset_a = '1';
  temp1 <= reset_b = '1';
  temp2 <= temp or temp1;
  combined_reset <= cohdl_bool_to_std_logic(temp2);
  
  -- CONCURRENT BLOCK (logic)
  temp3 <= reset_a = '1';
  temp4 <= reset_b = '1';
  temp5 <= temp3 and temp4;
  combined_reset1 <= cohdl_bool_to_std_logic(temp5);
  
  -- CONCURRENT BLOCK (logic)
  temp6 <= combined_reset1 = '1';
  temp7 <= reset_b = '1';
  temp8 <= temp6 or temp7;
  combined_reset2 <= cohdl_bool_to_std_logic(temp8);
  
  -- CONCURRENT BLOCK (logic)
  temp9 <= reset_a = '1';
  temp10 <= reset_b = '1';
  temp11 <= temp9 or temp10;
  combined_reset3 <= cohdl_bool_to_std_logic(temp11);
  
  -- CONCURRENT BLOCK (logic)
  temp12 <= reset_a = '1';
  temp13 <= reset_b = '1';
  temp14 <= temp12 and temp13;
  combined_reset4 <= cohdl_bool_to_std_logic(temp14);
  
  -- CONCURRENT BLOCK (logic)
  temp15 <= combined_reset1 = '1';
  temp16 <= reset_b = '1';
  temp17 <= temp15 or temp16;
  combined_reset5 <= cohdl_bool_to_std_logic(temp17);
  
  -- CONCURRENT BLOCK (logic)
  buffer_reset_or <= combined_reset;
  
  -- CONCURRENT BLOCK (logic)
  buffer_reset_and <= combined_reset1;
  
  -- CONCURRENT BLOCK (logic)
  buffer_reset_and_or <= combined_reset2;
  
  -- CONCURRENT BLOCK (logic)
  buffer_reset_expr_or <= combined_reset3;
  
  -- CONCURRENT BLOCK (logic)
  buffer_reset_expr_and <= combined_reset4;
  
  -- CONCURRENT BLOCK (logic)
  buffer_reset_expr_and_or <= combined_reset5;
  
  -- CONCURRENT BLOCK (logic)
  temp18 <= reset_a = '1';
  temp19 <= temp18;
  combined_reset6 <= cohdl_bool_to_std_logic(temp19);
  
  -- CONCURRENT BLOCK (logic)
  combined_reset7 <= '0';
  
  -- CONCURRENT BLOCK (logic)
  temp20 <= not (reset_a);
  combined_reset8 <= '0';
  
  -- CONCURRENT BLOCK (logic)
  temp21 <= not (reset_b);
  temp22 <= temp21 = '1';
  temp23 <= temp22;
  combined_reset9 <= cohdl_bool_to_std_logic(temp23);
  
  -- CONCURRENT BLOCK (logic)
  temp24 <= reset_a = '1';
  temp25 <= temp24;
  combined_reset10 <= cohdl_bool_to_std_logic(temp25);
  
  -- CONCURRENT BLOCK (logic)
  temp26 <= not (reset_b);
  temp27 <= temp26 = '1';
  temp28 <= temp27;
  combined_reset11 <= cohdl_bool_to_std_logic(temp28);
end architecture arch_test_context_02;