library ieee;
use ieee.std_logic_1164.all;
use ieee.numeric_std.all;


entity InnerEntity is
  port (
    inp_bit : in std_logic;
    out_bit : out std_logic
    );
end InnerEntity;


architecture arch_InnerEntity of InnerEntity is
  function cohdl_bool_to_std_logic(inp: boolean) return std_logic is
  begin
    if inp then
      return('1');
    else
      return('0');
    end if;
  end function cohdl_bool_to_std_logic;
  signal buffer_out_bit : std_logic;
  signal temp : std_logic;
begin
  
  -- CONCURRENT BLOCK (buffer assignment)
  out_bit <= buffer_out_bit;
  
  -- CONCURRENT BLOCK (logic)
  temp <= not (inp_bit);
  buffer_out_bit <= temp;
end architecture arch_InnerEntity;
library ieee;
use ieee.std_logic_1164.all;
use ieee.numeric_std.all;


entity OuterEntity is
  port (
    inp_a : in std_logic;
    out_a : out std_logic;
    inp_b : in std_logic_vector(6 downto 0);
    out_b : out std_logic_vector(6 downto 0);
    inp_c : in std_logic_vector(6 downto 0);
    out_c : out std_logic_vector(6 downto 0);
    inp_d : in std_logic_vector(6 downto 0);
    out_d : out std_logic_vector(6 downto 0);
    inp_e : in std_logic_vector(6 downto 0);
    out_e : out std_logic_vector(6 downto 0)
    );
end OuterEntity;


architecture arch_OuterEntity of OuterEntity is
  function cohdl_bool_to_std_logic(inp: boolean) return std_logic is
  begin
    if inp then
      return('1');
    else
      return('0');
    end if;
  end function cohdl_bool_to_std_logic;
  signal buffer_out_a : std_logic;
  signal buffer_out_b : std_logic_vector(6 downto 0);
  signal buffer_out_c : std_logic_vector(6 downto 0);
  signal buffer_out_d : std_logic_vector(6 downto 0);
  signal buffer_out_e : std_logic_vector(6 downto 0);
  signal out_e0 : std_logic;
  signal con_in_e : std_logic;
  signal con_out_e : std_logic;
  signal con_InnerEntity_out_bit : std_logic;
  signal con_InnerEntity_inp_bit : std_logic;
  signal con_InnerEntity_out_bit1 : std_logic;
  signal out_e4 : std_logic;
  signal con_InnerEntity_out_bit2 : std_logic;
  signal con_InnerEntity_inp_bit1 : std_logic;
  signal out_e6 : std_logic;
  signal sig : std_logic;
  signal sig1 : std_logic;
  signal sig2 : std_logic;
  signal con_InnerEntity_out_bit3 : std_logic;
  signal con_InnerEntity_inp_bit2 : std_logic;
  signal con_InnerEntity_out_bit4 : std_logic;
  signal sig3 : std_logic;
  signal con_InnerEntity_out_bit5 : std_logic;
  signal con_InnerEntity_inp_bit3 : std_logic;
  signal sig4 : std_logic;
  signal sig5 : std_logic;
  signal sig6 : std_logic;
  signal sig7 : std_logic;
  signal con_InnerEntity_out_bit6 : std_logic;
  signal con_InnerEntity_inp_bit4 : std_logic;
  signal con_InnerEntity_out_bit7 : std_logic;
  signal sig8 : std_logic;
  signal con_InnerEntity_out_bit8 : std_logic;
  signal con_InnerEntity_inp_bit5 : std_logic;
  signal sig9 : std_logic;
  signal sig10 : std_logic;
  signal sig11 : std_logic;
  signal sig12 : std_logic;
  signal con_InnerEntity_out_bit9 : std_logic;
  signal con_InnerEntity_inp_bit6 : std_logic;
  signal con_InnerEntity_out_bit10 : std_logic;
  signal sig13 : std_logic;
  signal con_InnerEntity_out_bit11 : std_logic;
  signal con_InnerEntity_inp_bit7 : std_logic;
  signal sig14 : std_logic;
begin
  
  -- CONCURRENT BLOCK (buffer assignment)
  out_a <= buffer_out_a;
  out_b <= buffer_out_b;
  out_c <= buffer_out_c;
  out_d <= buffer_out_d;
  out_e <= buffer_out_e;
  comp_InnerEntity: entity work.InnerEntity(arch_InnerEntity)
    port map(
    inp_bit => inp_a,
    out_bit => buffer_out_a
    );
  comp_InnerEntity1: entity work.InnerEntity(arch_InnerEntity)
    port map(
    inp_bit => inp_e(0),
    out_bit => out_e0
    );
  comp_InnerEntity2: entity work.InnerEntity(arch_InnerEntity)
    port map(
    inp_bit => con_in_e,
    out_bit => con_out_e
    );
  comp_InnerEntity3: entity work.InnerEntity(arch_InnerEntity)
    port map(
    inp_bit => inp_e(2),
    out_bit => con_InnerEntity_out_bit
    );
  comp_InnerEntity4: entity work.InnerEntity(arch_InnerEntity)
    port map(
    inp_bit => con_InnerEntity_inp_bit,
    out_bit => con_InnerEntity_out_bit1
    );
  comp_InnerEntity5: entity work.InnerEntity(arch_InnerEntity)
    port map(
    inp_bit => inp_e(4),
    out_bit => out_e4
    );
  comp_InnerEntity6: entity work.InnerEntity(arch_InnerEntity)
    port map(
    inp_bit => inp_e(5),
    out_bit => con_InnerEntity_out_bit2
    );
  comp_InnerEntity7: entity work.InnerEntity(arch_InnerEntity)
    port map(
    inp_bit => con_InnerEntity_inp_bit1,
    out_bit => out_e6
    );
  comp_InnerEntity8: entity work.InnerEntity(arch_InnerEntity)
    port map(
    inp_bit => inp_b(0),
    out_bit => sig
    );
  comp_InnerEntity9: entity work.InnerEntity(arch_InnerEntity)
    port map(
    inp_bit => sig1,
    out_bit => sig2
    );
  comp_InnerEntity10: entity work.InnerEntity(arch_InnerEntity)
    port map(
    inp_bit => inp_b(2),
    out_bit => con_InnerEntity_out_bit3
    );
  comp_InnerEntity11: entity work.InnerEntity(arch_InnerEntity)
    port map(
    inp_bit => con_InnerEntity_inp_bit2,
    out_bit => con_InnerEntity_out_bit4
    );
  comp_InnerEntity12: entity work.InnerEntity(arch_InnerEntity)
    port map(
    inp_bit => inp_b(4),
    out_bit => sig3
    );
  comp_InnerEntity13: entity work.InnerEntity(arch_InnerEntity)
    port map(
    inp_bit => inp_b(5),
    out_bit => con_InnerEntity_out_bit5
    );
  comp_InnerEntity14: entity work.InnerEntity(arch_InnerEntity)
    port map(
    inp_bit => con_InnerEntity_inp_bit3,
    out_bit => sig4
    );
  comp_InnerEntity15: entity work.InnerEntity(arch_InnerEntity)
    port map(
    inp_bit => inp_c(0),
    out_bit => sig5
    );
  comp_InnerEntity16: entity work.InnerEntity(arch_InnerEntity)
    port map(
    inp_bit => sig6,
    out_bit => sig7
    );
  comp_InnerEntity17: entity work.InnerEntity(arch_InnerEntity)
    port map(
    inp_bit => inp_c(2),
    out_bit => con_InnerEntity_out_bit6
    );
  comp_InnerEntity18: entity work.InnerEntity(arch_InnerEntity)
    port map(
    inp_bit => con_InnerEntity_inp_bit4,
    out_bit => con_InnerEntity_out_bit7
    );
  comp_InnerEntity19: entity work.InnerEntity(arch_InnerEntity)
    port map(
    inp_bit => inp_c(4),
    out_bit => sig8
    );
  comp_InnerEntity20: entity work.InnerEntity(arch_InnerEntity)
    port map(
    inp_bit => inp_c(5),
    out_bit => con_InnerEntity_out_bit8
    );
  comp_InnerEntity21: entity work.InnerEntity(arch_InnerEntity)
    port map(
    inp_bit => con_InnerEntity_inp_bit5,
    out_bit => sig9
    );
  comp_InnerEntity22: entity work.InnerEntity(arch_InnerEntity)
    port map(
    inp_bit => inp_d(0),
    out_bit => sig10
    );
  comp_InnerEntity23: entity work.InnerEntity(arch_InnerEntity)
    port map(
    inp_bit => sig11,
    out_bit => sig12
    );
  comp_InnerEntity24: entity work.InnerEntity(arch_InnerEntity)
    port map(
    inp_bit => inp_d(2),
    out_bit => con_InnerEntity_out_bit9
    );
  comp_InnerEntity25: entity work.InnerEntity(arch_InnerEntity)
    port map(
    inp_bit => con_InnerEntity_inp_bit6,
    out_bit => con_InnerEntity_out_bit10
    );
  comp_InnerEntity26: entity work.InnerEntity(arch_InnerEntity)
    port map(
    inp_bit => inp_d(4),
    out_bit => sig13
    );
  comp_InnerEntity27: entity work.InnerEntity(arch_InnerEntity)
    port map(
    inp_bit => inp_d(5),
    out_bit => con_InnerEntity_out_bit11
    );
  comp_InnerEntity28: entity work.InnerEntity(arch_InnerEntity)
    port map(
    inp_bit => con_InnerEntity_inp_bit7,
    out_bit => sig14
    );
  
  -- CONCURRENT BLOCK (logic)
  buffer_out_b(0) <= sig;
  sig1 <= inp_b(1);
  buffer_out_b(1) <= sig2;
  buffer_out_b(2) <= con_InnerEntity_out_bit3;
  con_InnerEntity_inp_bit2 <= inp_b(3);
  buffer_out_b(3) <= con_InnerEntity_out_bit4;
  buffer_out_b(4) <= sig3;
  buffer_out_b(5) <= con_InnerEntity_out_bit5;
  con_InnerEntity_inp_bit3 <= inp_b(6);
  buffer_out_b(6) <= sig4;
  
  -- CONCURRENT BLOCK (always - logic)
  buffer_out_c(0) <= sig5;
  sig6 <= inp_c(1);
  buffer_out_c(1) <= sig7;
  buffer_out_c(2) <= con_InnerEntity_out_bit6;
  con_InnerEntity_inp_bit4 <= inp_c(3);
  buffer_out_c(3) <= con_InnerEntity_out_bit7;
  buffer_out_c(4) <= sig8;
  buffer_out_c(5) <= con_InnerEntity_out_bit8;
  con_InnerEntity_inp_bit5 <= inp_c(6);
  buffer_out_c(6) <= sig9;
  

  logic: process(sig5, inp_c, sig7, con_InnerEntity_out_bit6, con_InnerEntity_out_bit7, sig8, con_InnerEntity_out_bit8, sig9)
  begin
  end process;
  

  
  -- CONCURRENT BLOCK (always - logic)
  

  logic1: process(sig10, inp_d, sig12, con_InnerEntity_out_bit9, con_InnerEntity_out_bit10, sig13, con_InnerEntity_out_bit11, sig14)
  begin
    buffer_out_d(0) <= sig10;
    sig11 <= inp_d(1);
    buffer_out_d(1) <= sig12;
    buffer_out_d(2) <= con_InnerEntity_out_bit9;
    con_InnerEntity_inp_bit6 <= inp_d(3);
    buffer_out_d(3) <= con_InnerEntity_out_bit10;
    buffer_out_d(4) <= sig13;
    buffer_out_d(5) <= con_InnerEntity_out_bit11;
    con_InnerEntity_inp_bit7 <= inp_d(6);
    buffer_out_d(6) <= sig14;
  end process;
  

  
  -- CONCURRENT BLOCK (logic)
  buffer_out_e(0) <= out_e0;
  con_in_e <= inp_e(1);
  buffer_out_e(1) <= con_out_e;
  buffer_out_e(2) <= con_InnerEntity_out_bit;
  con_InnerEntity_inp_bit <= inp_e(3);
  buffer_out_e(3) <= con_InnerEntity_out_bit1;
  buffer_out_e(4) <= out_e4;
  buffer_out_e(5) <= con_InnerEntity_out_bit2;
  con_InnerEntity_inp_bit1 <= inp_e(6);
  buffer_out_e(6) <= out_e6;
end architecture arch_OuterEntity;
library ieee;
use ieee.std_logic_1164.all;
use ieee.numeric_std.all;


entity test_entity_connector is
  port (
    inp_a : in std_logic;
    out_a : out std_logic;
    inp_b : in std_logic_vector(6 downto 0);
    out_b : out std_logic_vector(6 downto 0);
    inp_c : in std_logic_vector(6 downto 0);
    out_c : out std_logic_vector(6 downto 0);
    inp_d : in std_logic_vector(6 downto 0);
    out_d : out std_logic_vector(6 downto 0);
    inp_e : in std_logic_vector(6 downto 0);
    out_e : out std_logic_vector(6 downto 0)
    );
end test_entity_connector;


architecture arch_test_entity_connector of test_entity_connector is
  function cohdl_bool_to_std_logic(inp: boolean) return std_logic is
  begin
    if inp then
      return('1');
    else
      return('0');
    end if;
  end function cohdl_bool_to_std_logic;
  signal buffer_out_a : std_logic;
  signal buffer_out_b : std_logic_vector(6 downto 0);
  signal buffer_out_c : std_logic_vector(6 downto 0);
  signal buffer_out_d : std_logic_vector(6 downto 0);
  signal buffer_out_e : std_logic_vector(6 downto 0);
begin
  
  -- CONCURRENT BLOCK (buffer assignment)
  out_a <= buffer_out_a;
  out_b <= buffer_out_b;
  out_c <= buffer_out_c;
  out_d <= buffer_out_d;
  out_e <= buffer_out_e;
  comp_OuterEntity: entity work.OuterEntity(arch_OuterEntity)
    port map(
    inp_a => inp_a,
    out_a => buffer_out_a,
    inp_b => inp_b,
    out_b => buffer_out_b,
    inp_c => inp_c,
    out_c => buffer_out_c,
    inp_d => inp_d,
    out_d => buffer_out_d,
    inp_e => inp_e,
    out_e => buffer_out_e
    );
end architecture arch_test_entity_connector;