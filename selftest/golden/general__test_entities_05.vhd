library ieee;
use ieee.std_logic_1164.all;
use ieee.numeric_std.all;


entity BaseEntity is
  port (
    base_a : in std_logic;
    base_b : in std_logic;
    base_result : out std_logic
    );
end BaseEntity;


architecture arch_BaseEntity of BaseEntity is
  function cohdl_bool_to_std_logic(inp: boolean) return std_logic is
  begin
    if inp then
      return('1');
    else
      return('0');
    end if;
  end function cohdl_bool_to_std_logic;
  signal buffer_base_result : std_logic;
  signal temp : std_logic;
begin
  
  -- CONCURRENT BLOCK (buffer assignment)
  base_result <= buffer_base_result;
  
  -- CONCURRENT BLOCK (logic)
  temp <= (base_a) or (base_b);
  buffer_base_result <= temp;
end architecture arch_BaseEntity;
library ieee;
use ieee.std_logic_1164.all;
use ieee.numeric_std.all;


entity DerivedEntity is
  port (
    base_a : in std_logic;
    base_b : in std_logic;
    base_result : out std_logic;
    derived_a : in std_logic;
    derived_b : in std_logic;
    derived_result : out std_logic;
    mixed_a : out std_logic;
    mixed_b : out std_logic
    );
end DerivedEntity;


architecture arch_DerivedEntity of DerivedEntity is
  function cohdl_bool_to_std_logic(inp: boolean) return std_logic is
  begin
    if inp then
      return('1');
    else
      return('0');
    end if;
  end function cohdl_bool_to_std_logic;
  signal buffer_base_result : std_logic;
  signal buffer_derived_result : std_logic;
  signal buffer_mixed_a : std_logic;
  signal buffer_mixed_b : std_logic;
  signal temp : std_logic;
  signal temp1 : std_logic;
  signal temp2 : std_logic;
  signal temp3 : std_logic;
begin
  
  -- CONCURRENT BLOCK (buffer assignment)
  base_result <= buffer_base_result;
  derived_result <= buffer_derived_result;
  mixed_a <= buffer_mixed_a;
  mixed_b <= buffer_mixed_b;
  
  -- CONCURRENT BLOCK (logic)
  temp <= (base_a) or (base_b);
  buffer_base_result <= temp;
  
  -- CONCURRENT BLOCK (logic)
  temp1 <= (derived_a) and (derived_b);
  buffer_derived_result <= temp1;
  temp2 <= (base_a) or (derived_a);
  buffer_mixed_a <= temp2;
  temp3 <= (base_b) xor (derived_b);
  buffer_mixed_b <= temp3;
end architecture arch_DerivedEntity;
library ieee;
use ieee.std_logic_1164.all;
use ieee.numeric_std.all;


entity test_entities_05 is
  port (
    inp_a : in std_logic;
    inp_b : in std_logic;
    out_result : out std_logic;
    inp_base_a : in std_logic;
    inp_base_b : in std_logic;
    out_base_result : out std_logic;
    inp_derived_a : in std_logic;
    inp_derived_b : in std_logic;
    out_derived_result : out std_logic;
    out_mixed_a : out std_logic;
    out_mixed_b : out std_logic
    );
end test_entities_05;


architecture arch_test_entities_05 of test_entities_05 is
  function cohdl_bool_to_std_logic(inp: boolean) return std_logic is
  begin
    if inp then
      return('1');
    else
      return('0');
    end if;
  end function cohdl_bool_to_std_logic;
  signal buffer_out_result : std_logic;
  signal buffer_out_base_result : std_logic;
  signal buffer_out_derived_result : std_logic;
  signal buffer_out_mixed_a : std_logic;
  signal buffer_out_mixed_b : std_logic;
begin
  
  -- CONCURRENT BLOCK (buffer assignment)
  out_result <= buffer_out_result;
  out_base_result <= buffer_out_base_result;
  out_derived_result <= buffer_out_derived_result;
  out_mixed_a <= buffer_out_mixed_a;
  out_mixed_b <= buffer_out_mixed_b;
  comp_BaseEntity: entity work.BaseEntity(arch_BaseEntity)
    port map(
    base_a => inp_a,
    base_b => inp_b,
    base_result => buffer_out_result
    );
  comp_DerivedEntity: entity work.DerivedEntity(arch_DerivedEntity)
    port map(
    base_a => inp_base_a,
    base_b => inp_base_b,
    base_result => buffer_out_base_result,
    derived_a => inp_derived_a,
    derived_b => inp_derived_b,
    derived_result => buffer_out_derived_result,
    mixed_a => buffer_out_mixed_a,
    mixed_b => buffer_out_mixed_b
    );
end architecture arch_test_entities_05;