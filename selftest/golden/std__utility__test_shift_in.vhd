library ieee;
use ieee.std_logic_1164.all;
use ieee.numeric_std.all;


entity test_shift_in is
  port (
    clk : in std_logic;
    start : in std_logic;
    bit_inp : in std_logic;
    res_in : out std_logic_vector(4 downto 0);
    res_in_delay : out std_logic_vector(4 downto 0);
    res_in_msb : out std_logic_vector(4 downto 0);
    res_in_msb_delay : out std_logic_vector(4 downto 0)
    );
end test_shift_in;


architecture arch_test_shift_in of test_shift_in is
  function cohdl_bool_to_std_logic(inp: boolean) return std_logic is
  begin
    if inp then
      return('1');
    else
      return('0');
    end if;
  end function cohdl_bool_to_std_logic;
  signal buffer_res_in : std_logic_vector(4 downto 0);
  signal buffer_res_in_delay : std_logic_vector(4 downto 0);
  signal buffer_res_in_msb : std_logic_vector(4 downto 0);
  signal buffer_res_in_msb_delay : std_logic_vector(4 downto 0);
  type state_proc_in is (state_0, state_1, state_2, state_3);
  signal s_proc_in : state_proc_in := state_0;
  signal in_shift_reg : std_logic_vector(5 downto 0);
  type state_proc_in_delay is (state_0, state_1, state_2, state_3);
  signal s_proc_in_delay : state_proc_in_delay := state_0;
  signal in_shift_reg1 : std_logic_vector(5 downto 0);
  type state_proc_in_msb is (state_0, state_1, state_2, state_3);
  signal s_proc_in_msb : state_proc_in_msb := state_0;
  signal in_shift_reg2 : std_logic_vector(5 downto 0);
  type state_proc_in_msb_delay is (state_0, state_1, state_2, state_3);
  signal s_proc_in_msb_delay : state_proc_in_msb_delay := state_0;
  signal in_shift_reg3 : std_logic_vector(5 downto 0);
begin
  
  -- CONCURRENT BLOCK (buffer assignment)
  res_in <= buffer_res_in;
  res_in_delay <= buffer_res_in_delay;
  res_in_msb <= buffer_res_in_msb;
  res_in_msb_delay <= buffer_res_in_msb_delay;
  

  proc_in: process(clk)
    variable alias_in_shift_reg : std_logic_vector(5 downto 0);
    variable temp : boolean;
    variable temp1 : boolean;
    variable temp2 : boolean;
    variable temp3 : std_logic_vector(5 downto 0);
    variable temp4 : std_logic;
    variable temp5 : boolean;
    variable temp6 : boolean;
    variable temp7 : boolean;
    variable temp8 : boolean;
    variable temp9 : boolean;
    variable temp10 : std_logic_vector(5 downto 0);
    variable temp11 : std_logic_vector(4 downto 0);
    variable temp12 : boolean;
    variable temp13 : boolean;
    variable temp14 : boolean;
    variable temp15 : std_logic_vector(5 downto 0);
    variable temp16 : std_logic;
    variable temp17 : boolean;
    variable temp18 : boolean;
    variable temp19 : boolean;
    variable temp20 : boolean;
    variable temp21 : boolean;
    variable temp22 : std_logic_vector(5 downto 0);
    variable temp23 : std_logic_vector(4 downto 0);
  begin
    if rising_edge(clk) then
      case s_proc_in is
        when state_0 =>
          if start = '1' then
            s_proc_in <= state_1;
            alias_in_shift_reg := "100000";
            in_shift_reg <= "100000";
            temp := (std_logic_vector(alias_in_shift_reg(0 downto 0)) /= "0");
            temp1 := not (temp);
            temp2 := temp1;
            assert temp2 report "invalid shift, register already full";
            temp3 := (bit_inp) & (std_logic_vector(alias_in_shift_reg(5 downto 1)));
            in_shift_reg <= temp3;
          end if;
        when state_1 =>
          temp4 := in_shift_reg(0);
          temp5 := temp4 = '1';
          temp6 := not (temp5);
          if temp6 then
            s_proc_in <= state_1;
            temp7 := (std_logic_vector(in_shift_reg(0 downto 0)) /= "0");
            temp8 := not (temp7);
            temp9 := temp8;
            assert temp9 report "invalid shift, register already full";
            temp10 := (bit_inp) & (std_logic_vector(in_shift_reg(5 downto 1)));
            in_shift_reg <= temp10;
          else
            s_proc_in <= state_2;
            temp11 := std_logic_vector(in_shift_reg(5 downto 1));
            buffer_res_in <= temp11;
            in_shift_reg <= "100000";
          end if;
        when state_2 =>
          if start = '1' then
            s_proc_in <= state_3;
            temp12 := (std_logic_vector(in_shift_reg(0 downto 0)) /= "0");
            temp13 := not (temp12);
            temp14 := temp13;
            assert temp14 report "invalid shift, register already full";
            temp15 := (bit_inp) & (std_logic_vector(in_shift_reg(5 downto 1)));
            in_shift_reg <= temp15;
          end if;
        when state_3 =>
          temp16 := in_shift_reg(0);
          temp17 := temp16 = '1';
          temp18 := not (temp17);
          if temp18 then
            s_proc_in <= state_3;
            temp19 := (std_logic_vector(in_shift_reg(0 downto 0)) /= "0");
            temp20 := not (temp19);
            temp21 := temp20;
            assert temp21 report "invalid shift, register already full";
            temp22 := (bit_inp) & (std_logic_vector(in_shift_reg(5 downto 1)));
            in_shift_reg <= temp22;
          else
            s_proc_in <= state_0;
            temp23 := std_logic_vector(in_shift_reg(5 downto 1));
            buffer_res_in <= temp23;
          end if;
        when others =>
          null;
      end case;
    end if;
  end process;
  

  proc_in_delay: process(clk)
    variable temp : std_logic;
    variable temp1 : boolean;
    variable temp2 : boolean;
    variable temp3 : boolean;
    variable temp4 : boolean;
    variable temp5 : boolean;
    variable temp6 : std_logic_vector(5 downto 0);
    variable temp7 : std_logic_vector(4 downto 0);
    variable temp8 : std_logic;
    variable temp9 : boolean;
    variable temp10 : boolean;
    variable temp11 : boolean;
    variable temp12 : boolean;
    variable temp13 : boolean;
    variable temp14 : std_logic_vector(5 downto 0);
    variable temp15 : std_logic_vector(4 downto 0);
  begin
    if rising_edge(clk) then
      case s_proc_in_delay is
        when state_0 =>
          if start = '1' then
            s_proc_in_delay <= state_1;
            in_shift_reg1 <= "100000";
          end if;
        when state_1 =>
          temp := in_shift_reg1(0);
          temp1 := temp = '1';
          temp2 := not (temp1);
          if temp2 then
            s_proc_in_delay <= state_1;
            temp3 := (std_logic_vector(in_shift_reg1(0 downto 0)) /= "0");
            temp4 := not (temp3);
            temp5 := temp4;
            assert temp5 report "invalid shift, register already full";
            temp6 := (bit_inp) & (std_logic_vector(in_shift_reg1(5 downto 1)));
            in_shift_reg1 <= temp6;
          else
            s_proc_in_delay <= state_2;
            temp7 := std_logic_vector(in_shift_reg1(5 downto 1));
            buffer_res_in_delay <= temp7;
            in_shift_reg1 <= "100000";
          end if;
        when state_2 =>
          if start = '1' then
            s_proc_in_delay <= state_3;
          end if;
        when state_3 =>
          temp8 := in_shift_reg1(0);
          temp9 := temp8 = '1';
          temp10 := not (temp9);
          if temp10 then
            s_proc_in_delay <= state_3;
            temp11 := (std_logic_vector(in_shift_reg1(0 downto 0)) /= "0");
            temp12 := not (temp11);
            temp13 := temp12;
            assert temp13 report "invalid shift, register already full";
            temp14 := (bit_inp) & (std_logic_vector(in_shift_reg1(5 downto 1)));
            in_shift_reg1 <= temp14;
          else
            s_proc_in_delay <= state_0;
            temp15 := std_logic_vector(in_shift_reg1(5 downto 1));
            buffer_res_in_delay <= temp15;
          end if;
        when others =>
          null;
      end case;
    end if;
  end process;
  

  proc_in_msb: process(clk)
    variable alias_in_shift_reg : std_logic_vector(5 downto 0);
    variable temp : boolean;
    variable temp1 : boolean;
    variable temp2 : boolean;
    variable temp3 : std_logic_vector(5 downto 0);
    variable temp4 : std_logic;
    variable temp5 : boolean;
    variable temp6 : boolean;
    variable temp7 : boolean;
    variable temp8 : boolean;
    variable temp9 : boolean;
    variable temp10 : std_logic_vector(5 downto 0);
    variable temp11 : std_logic_vector(4 downto 0);
    variable temp12 : boolean;
    variable temp13 : boolean;
    variable temp14 : boolean;
    variable temp15 : std_logic_vector(5 downto 0);
    variable temp16 : std_logic;
    variable temp17 : boolean;
    variable temp18 : boolean;
    variable temp19 : boolean;
    variable temp20 : boolean;
    variable temp21 : boolean;
    variable temp22 : std_logic_vector(5 downto 0);
    variable temp23 : std_logic_vector(4 downto 0);
  begin
    if rising_edge(clk) then
      case s_proc_in_msb is
        when state_0 =>
          if start = '1' then
            s_proc_in_msb <= state_1;
            alias_in_shift_reg := "000001";
            in_shift_reg2 <= "000001";
            temp := (std_logic_vector(alias_in_shift_reg(5 downto 5)) /= "0");
            temp1 := not (temp);
            temp2 := temp1;
            assert temp2 report "invalid shift, register already full";
            temp3 := (std_logic_vector(alias_in_shift_reg(4 downto 0))) & (bit_inp);
            in_shift_reg2 <= temp3;
          end if;
        when state_1 =>
          temp4 := in_shift_reg2(5);
          temp5 := temp4 = '1';
          temp6 := not (temp5);
          if temp6 then
            s_proc_in_msb <= state_1;
            temp7 := (std_logic_vector(in_shift_reg2(5 downto 5)) /= "0");
            temp8 := not (temp7);
            temp9 := temp8;
            assert temp9 report "invalid shift, register already full";
            temp10 := (std_logic_vector(in_shift_reg2(4 downto 0))) & (bit_inp);
            in_shift_reg2 <= temp10;
          else
            s_proc_in_msb <= state_2;
            temp11 := std_logic_vector(in_shift_reg2(4 downto 0));
            buffer_res_in_msb <= temp11;
            in_shift_reg2 <= "000001";
          end if;
        when state_2 =>
          if start = '1' then
            s_proc_in_msb <= state_3;
            temp12 := (std_logic_vector(in_shift_reg2(5 downto 5)) /= "0");
            temp13 := not (temp12);
            temp14 := temp13;
            assert temp14 report "invalid shift, register already full";
            temp15 := (std_logic_vector(in_shift_reg2(4 downto 0))) & (bit_inp);
            in_shift_reg2 <= temp15;
          end if;
        when state_3 =>
          temp16 := in_shift_reg2(5);
          temp17 := temp16 = '1';
          temp18 := not (temp17);
          if temp18 then
            s_proc_in_msb <= state_3;
            temp19 := (std_logic_vector(in_shift_reg2(5 downto 5)) /= "0");
            temp20 := not (temp19);
            temp21 := temp20;
            assert temp21 report "invalid shift, register already full";
            temp22 := (std_logic_vector(in_shift_reg2(4 downto 0))) & (bit_inp);
            in_shift_reg2 <= temp22;
          else
            s_proc_in_msb <= state_0;
            temp23 := std_logic_vector(in_shift_reg2(4 downto 0));
            buffer_res_in_msb <= temp23;
          end if;
        when others =>
          null;
      end case;
    end if;
  end process;
  

  proc_in_msb_delay: process(clk)
    variable temp : std_logic;
    variable temp1 : boolean;
    variable temp2 : boolean;
    variable temp3 : boolean;
    variable temp4 : boolean;
    variable temp5 : boolean;
    variable temp6 : std_logic_vector(5 downto 0);
    variable temp7 : std_logic_vector(4 downto 0);
    variable temp8 : std_logic;
    variable temp9 : boolean;
    variable temp10 : boolean;
    variable temp11 : boolean;
    variable temp12 : boolean;
    variable temp13 : boolean;
    variable temp14 : std_logic_vector(5 downto 0);
    variable temp15 : std_logic_vector(4 downto 0);
  begin
    if rising_edge(clk) then
      case s_proc_in_msb_delay is
        when state_0 =>
          if start = '1' then
            s_proc_in_msb_delay <= state_1;
            in_shift_reg3 <= "000001";
          end if;
        when state_1 =>
          temp := in_shift_reg3(5);
          temp1 := temp = '1';
          temp2 := not (temp1);
          if temp2 then
            s_proc_in_msb_delay <= state_1;
            temp3 := (std_logic_vector(in_shift_reg3(5 downto 5)) /= "0");
            temp4 := not (temp3);
            temp5 := temp4;
            assert temp5 report "invalid shift, register already full";
            temp6 := (std_logic_vector(in_shift_reg3(4 downto 0))) & (bit_inp);
            in_shift_reg3 <= temp6;
          else
            s_proc_in_msb_delay <= state_2;
            temp7 := std_logic_vector(in_shift_reg3(4 downto 0));
            buffer_res_in_msb_delay <= temp7;
            in_shift_reg3 <= "000001";
          end if;
        when state_2 =>
          if start = '1' then
            s_proc_in_msb_delay <= state_3;
          end if;
        when state_3 =>
          temp8 := in_shift_reg3(5);
          temp9 := temp8 = '1';
          temp10 := not (temp9);
          if temp10 then
            s_proc_in_msb_delay <= state_3;
            temp11 := (std_logic_vector(in_shift_reg3(5 downto 5)) /= "0");
            temp12 := not (temp11);
            temp13 := temp12;
            assert temp13 report "invalid shift, register already full";
            temp14 := (std_logic_vector(in_shift_reg3(4 downto 0))) & (bit_inp);
            in_shift_reg3 <= temp14;
          else
            s_proc_in_msb_delay <= state_0;
            temp15 := std_logic_vector(in_shift_reg3(4 downto 0));
            buffer_res_in_msb_delay <= temp15;
          end if;
        when others =>
          null;
      end case;
    end if;
  end process;
end architecture arch_test_shift_in;