library ieee;
use ieee.std_logic_1164.all;
use ieee.numeric_std.all;


entity test_enum_03 is
  port (
    inp_1 : in std_logic_vector(1 downto 0);
    inp_2 : in std_logic_vector(1 downto 0);
    is_a : out std_logic;
    is_b : out std_logic;
    is_c : out std_logic;
    is_d : out std_logic;
    is_not_a : out std_logic;
    is_not_b : out std_logic;
    is_not_c : out std_logic;
    is_not_d : out std_logic;
    is_same : out std_logic;
    is_not_same : out std_logic
    );
end test_enum_03;


architecture arch_test_enum_03 of test_enum_03 is
  function cohdl_bool_to_std_logic(inp: boolean) return std_logic is
  begin
    if inp then
      return('1');
    else
      return('0');
    end if;
  end function cohdl_bool_to_std_logic;
  signal buffer_is_a : std_logic;
  signal buffer_is_b : std_logic;
  signal buffer_is_c : std_logic;
  signal buffer_is_d : std_logic;
  signal buffer_is_not_a : std_logic;
  signal buffer_is_not_b : std_logic;
  signal buffer_is_not_c : std_logic;
  signal buffer_is_not_d : std_logic;
  signal buffer_is_same : std_logic;
  signal buffer_is_not_same : std_logic;
  type MyEnum is (a, b, c, d);
  signal temp : MyEnum;
  signal sig_1 : MyEnum;
  signal temp1 : MyEnum;
  signal sig_2 : MyEnum;
  signal temp2 : boolean;
  signal temp3 : boolean;
  signal temp4 : boolean;
  signal temp5 : boolean;
  signal temp6 : boolean;
  signal temp7 : boolean;
  signal temp8 : boolean;
  signal temp9 : boolean;
  signal temp10 : boolean;
  signal temp11 : boolean;
begin
  
  -- CONCURRENT BLOCK (buffer assignment)
  is_a <= buffer_is_a;
  is_b <= buffer_is_b;
  is_c <= buffer_is_c;
  is_d <= buffer_is_d;
  is_not_a <= buffer_is_not_a;
  is_not_b <= buffer_is_not_b;
  is_not_c <= buffer_is_not_c;
  is_not_d <= buffer_is_not_d;
  is_same <= buffer_is_same;
  is_not_same <= buffer_is_not_same;
  
  -- CONCURRENT BLOCK (logic_select_enum)
  with inp_1 select temp <=
    a when "00",
    b when "01",
    c when "10",
    d when "11",
    a when others;
  sig_1 <= temp;
  with inp_2 select temp1 <=
    a when "00",
    b when "01",
    c when "10",
    d when "11",
    a when others;
  sig_2 <= temp1;
  temp2 <= (sig_1 = a);
  buffer_is_a <= cohdl_bool_to_std_logic(temp2);
  temp3 <= (sig_1 = b);
  buffer_is_b <= cohdl_bool_to_std_logic(temp3);
  temp4 <= (sig_1 = c);
  buffer_is_c <= cohdl_bool_to_std_logic(temp4);
  temp5 <= (sig_1 = d);
  buffer_is_d <= cohdl_bool_to_std_logic(temp5);
  temp6 <= (sig_1 /= a);
  buffer_is_not_a <= cohdl_bool_to_std_logic(temp6);
  temp7 <= (sig_1 /= b);
  buffer_is_not_b <= cohdl_bool_to_std_logic(temp7);
  temp8 <= (sig_1 /= c);
  buffer_is_not_c <= cohdl_bool_to_std_logic(temp8);
  temp9 <= (sig_1 /= d);
  buffer_is_not_d <= cohdl_bool_to_std_logic(temp9);
  temp10 <= (sig_1 = sig_2);
  buffer_is_same <= cohdl_bool_to_std_logic(temp10);
  temp11 <= (sig_1 /= sig_2);
  buffer_is_not_same <= cohdl_bool_to_std_logic(temp11);
end architecture arch_test_enum_03;