library ieee;
use ieee.std_logic_1164.all;
use ieee.numeric_std.all;


entity test_value_branch_01 is
  port (
    enable : in std_logic;
    inp1 : in std_logic_vector(3 downto 0);
    inp2 : in std_logic_vector(3 downto 0);
    output1 : out std_logic_vector(3 downto 0);
    output2 : out std_logic_vector(3 downto 0);
    output3 : out std_logic
    );
end test_value_branch_01;


architecture arch_test_value_branch_01 of test_value_branch_01 is
  function cohdl_bool_to_std_logic(inp: boolean) return std_logic is
  begin
    if inp then
      return('1');
    else
      return('0');
    end if;
  end function cohdl_bool_to_std_logic;
  signal buffer_output1 : std_logic_vector(3 downto 0);
  signal buffer_output2 : std_logic_vector(3 downto 0);
  signal buffer_output3 : std_logic;
  signal temp : boolean;
  signal temp1 : std_logic_vector(3 downto 0);
  signal temp2 : std_logic_vector(3 downto 0);
  signal val : std_logic_vector(3 downto 0);
  signal temp3 : boolean;
  signal temp4 : std_logic;
begin
  
  -- CONCURRENT BLOCK (buffer assignment)
  output1 <= buffer_output1;
  output2 <= buffer_output2;
  output3 <= buffer_output3;
  
  -- CONCURRENT BLOCK (proc)
  temp <= enable = '1';
  with temp select temp1 <=
    inp1 when true,
    inp2 when others;
  with temp select temp2 <=
    inp1 when true,
    inp2 when others;
  with temp select val <=
    inp1 when true,
    inp2 when others;
  buffer_output1 <= temp1;
  buffer_output2 <= temp2;
  temp3 <= inp1(0) = '1';
  with temp3 select temp4 <=
    val(2) when true,
    inp2(3) when others;
  buffer_output3 <= temp4;
end architecture arch_test_value_branch_01;