library ieee;
use ieee.std_logic_1164.all;
use ieee.numeric_std.all;


entity test_overload_01 is
  port (
    a_real : in unsigned(2 downto 0);
    a_imag : in unsigned(2 downto 0);
    b_real : in unsigned(2 downto 0);
    b_imag : in unsigned(2 downto 0);
    sum_real : out unsigned(2 downto 0);
    sum_imag : out unsigned(2 downto 0);
    dif_real : out unsigned(2 downto 0);
    dif_imag : out unsigned(2 downto 0)
    );
end test_overload_01;


architecture arch_test_overload_01 of test_overload_01 is
  function cohdl_bool_to_std_logic(inp: boolean) return std_logic is
  begin
    if inp then
      return('1');
    else
      return('0');
    end if;
  end function cohdl_bool_to_std_logic;
  signal buffer_sum_real : unsigned(2 downto 0);
  signal buffer_sum_imag : unsigned(2 downto 0);
  signal buffer_dif_real : unsigned(2 downto 0);
  signal buffer_dif_imag : unsigned(2 downto 0);
  signal real : unsigned(2 downto 0);
  signal imag : unsigned(2 downto 0);
  signal real1 : unsigned(2 downto 0);
  signal imag1 : unsigned(2 downto 0);
begin
  
  -- CONCURRENT BLOCK (buffer assignment)
  sum_real <= buffer_sum_real;
  sum_imag <= buffer_sum_imag;
  dif_real <= buffer_dif_real;
  dif_imag <= buffer_dif_imag;
  
  -- CONCURRENT BLOCK (logic)
  real <= (a_real) + (b_real);
  imag <= (a_imag) + (b_imag);
  real1 <= (a_real) - (b_real);
  imag1 <= (a_imag) - (b_imag);
  buffer_sum_real <= real;
  buffer_sum_imag <= imag;
  buffer_dif_real <= real1;
  buffer_dif_imag <= imag1;
end architecture arch_test_overload_01;