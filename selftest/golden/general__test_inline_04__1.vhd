library ieee;
use ieee.std_logic_1164.all;
use ieee.numeric_std.all;


entity test_inline_04 is
  port (
    inp_bit_1 : in std_logic;
    inp_bit_2 : in std_logic;
    inp_bit_3 : in std_logic;
    inp_bit_4 : in std_logic;
    out_side_effect_1 : out std_logic;
    out_side_effect_2 : out std_logic;
    out_side_effect_3 : out std_logic;
    out_1 : out std_logic;
    out_2 : out std_logic;
    out_3 : out std_logic;
    out_4 : out std_logic_vector(1 downto 0)
    );
end test_inline_04;


architecture arch_test_inline_04 of test_inline_04 is
  function cohdl_bool_to_std_logic(inp: boolean) return std_logic is
  begin
    if inp then
      return('1');
    else
      return('0');
    end if;
  end function cohdl_bool_to_std_logic;
  signal buffer_out_side_effect_1 : std_logic;
  signal buffer_out_side_effect_2 : std_logic;
  signal buffer_out_side_effect_3 : std_logic;
  signal buffer_out_1 : std_logic;
  signal buffer_out_2 : std_logic;
  signal buffer_out_3 : std_logic;
  signal buffer_out_4 : std_logic_vector(1 downto 0);
  signal temp : std_logic_vector(1 downto 0);
  signal temp1 : std_logic;
  signal temp2 : std_logic;
  signal b : std_logic;
  signal temp3 : std_logic;
  signal b1 : std_logic;
  signal temp4 : std_logic;
  signal temp5 : std_logic;
begin
  
  -- CONCURRENT BLOCK (buffer assignment)
  out_side_effect_1 <= buffer_out_side_effect_1;
  out_side_effect_2 <= buffer_out_side_effect_2;
  out_side_effect_3 <= buffer_out_side_effect_3;
  out_1 <= buffer_out_1;
  out_2 <= buffer_out_2;
  out_3 <= buffer_out_3;
  out_4 <= buffer_out_4;
  
  -- CONCURRENT BLOCK (logic)
  temp <= (inp_bit_1 & inp_bit_3);
  temp1 <= (inp_bit_2 and inp_bit_3); --UNUSED-EXPR-IN-HDL--;
  temp2 <= (inp_bit_4 or inp_bit_3);
  b <= inp_bit_1 and inp_bit_4;
  buffer_out_side_effect_2 <= b;
  temp3 <= (inp_bit_2); --UNUSED-EXPR-IN-HDL-2-- None;
  b1 <= (inp_bit_1) and (inp_bit_2);
  buffer_out_side_effect_3 <= b1;
  buffer_out_side_effect_1 <= inp_bit_1;
  temp4 <= (inp_bit_1 xor inp_bit_2); -- None;
  temp5 <= (temp4);
  buffer_out_1 <= temp5;
  buffer_out_2 <= temp4;
  buffer_out_3 <= temp2;
  buffer_out_4 <= temp;
end architecture arch_test_inline_04;