library ieee;
use ieee.std_logic_1164.all;
use ieee.numeric_std.all;


entity test_enum_02 is
  port (
    input_code : in std_logic_vector(1 downto 0);
    output_code : out std_logic_vector(1 downto 0)
    );
end test_enum_02;


architecture arch_test_enum_02 of test_enum_02 is
  function cohdl_bool_to_std_logic(inp: boolean) return std_logic is
  begin
    if inp then
      return('1');
    else
      return('0');
    end if;
  end function cohdl_bool_to_std_logic;
  signal buffer_output_code : std_logic_vector(1 downto 0);
  type MyEnum is (a, b, c, d);
  signal my_enum : MyEnum;
begin
  
  -- CONCURRENT BLOCK (buffer assignment)
  output_code <= buffer_output_code;
  

  logic_select_enum: process(input_code)
  begin
    case input_code is
      when "00" =>
        my_enum <= a;
      when "01" =>
        my_enum <= b;
      when "10" =>
        my_enum <= c;
      when "11" =>
        my_enum <= d;
      when others =>
        my_enum <= a;
    end case;
  end process;
  

  logic_decode_enum: process(my_enum)
  begin
    case my_enum is
      when a =>
        buffer_output_code <= "00";
      when b =>
        buffer_output_code <= "01";
      when c =>
        buffer_output_code <= "10";
      when d =>
        buffer_output_code <= "11";
      when others =>
        buffer_output_code <= "00";
    end case;
  end process;
end architecture arch_test_enum_02;