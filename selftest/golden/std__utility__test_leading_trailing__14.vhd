library ieee;
use ieee.std_logic_1164.all;
use ieee.numeric_std.all;


entity test_leading_trailing is
  port (
    input : in unsigned(1 downto 0);
    leading_0 : out unsigned(1 downto 0);
    leading_1 : out unsigned(1 downto 0);
    trailing_0 : out unsigned(1 downto 0);
    trailing_1 : out unsigned(1 downto 0)
    );
end test_leading_trailing;


architecture arch_test_leading_trailing of test_leading_trailing is
  function cohdl_bool_to_std_logic(inp: boolean) return std_logic is
  begin
    if inp then
      return('1');
    else
      return('0');
    end if;
  end function cohdl_bool_to_std_logic;
  signal buffer_leading_0 : unsigned(1 downto 0);
  signal buffer_leading_1 : unsigned(1 downto 0);
  signal buffer_trailing_0 : unsigned(1 downto 0);
  signal buffer_trailing_1 : unsigned(1 downto 0);
begin
  
  -- CONCURRENT BLOCK (buffer assignment)
  leading_0 <= buffer_leading_0;
  leading_1 <= buffer_leading_1;
  trailing_0 <= buffer_trailing_0;
  trailing_1 <= buffer_trailing_1;
  

  logic_assign: process(input)
    variable seq : std_logic_vector(1 downto 0);
    variable temp : boolean;
    variable temp1 : boolean;
    variable temp2 : unsigned(1 downto 0);
    variable arg : unsigned(1 downto 0);
    variable seq1 : std_logic_vector(1 downto 0);
    variable temp3 : boolean;
    variable temp4 : boolean;
    variable temp5 : unsigned(1 downto 0);
    variable arg1 : unsigned(1 downto 0);
    variable temp6 : boolean;
    variable temp7 : boolean;
    variable temp8 : unsigned(1 downto 0);
    variable arg2 : unsigned(1 downto 0);
    variable temp9 : boolean;
    variable temp10 : boolean;
    variable temp11 : unsigned(1 downto 0);
    variable arg3 : unsigned(1 downto 0);
  begin
    seq := (input(0)) & (input(1));
    temp := (seq(0) /= '0');
    temp1 := (seq(1) /= '0');
    case temp1 is
      when true =>
        temp2 := unsigned'("01");
      when others =>
        temp2 := unsigned'("10");
    end case;
    case temp is
      when true =>
        arg := unsigned'("00");
      when others =>
        arg := temp2;
    end case;
    buffer_leading_0 <= arg;
    seq1 := (input(0)) & (input(1));
    temp3 := (seq1(0) /= '1');
    temp4 := (seq1(1) /= '1');
    case temp4 is
      when true =>
        temp5 := unsigned'("01");
      when others =>
        temp5 := unsigned'("10");
    end case;
    case temp3 is
      when true =>
        arg1 := unsigned'("00");
      when others =>
        arg1 := temp5;
    end case;
    buffer_leading_1 <= arg1;
    temp6 := (input(0) /= '0');
    temp7 := (input(1) /= '0');
    case temp7 is
      when true =>
        temp8 := unsigned'("01");
      when others =>
        temp8 := unsigned'("10");
    end case;
    case temp6 is
      when true =>
        arg2 := unsigned'("00");
      when others =>
        arg2 := temp8;
    end case;
    buffer_trailing_0 <= arg2;
    temp9 := (input(0) /= '1');
    temp10 := (input(1) /= '1');
    case temp10 is
      when true =>
        temp11 := unsigned'("01");
      when others =>
        temp11 := unsigned'("10");
    end case;
    case temp9 is
      when true =>
        arg3 := unsigned'("00");
      when others =>
        arg3 := temp11;
    end case;
    buffer_trailing_1 <= arg3;
  end process;
end architecture arch_test_leading_trailing;