library ieee;
use ieee.std_logic_1164.all;
use ieee.numeric_std.all;


entity test_on_exit_01 is
  port (
    clk : in std_logic;
    inp_a : in std_logic_vector(2 downto 0);
    inp_b : in std_logic_vector(2 downto 0);
    out_a : out std_logic_vector(2 downto 0);
    out_b : out std_logic_vector(2 downto 0)
    );
end test_on_exit_01;


architecture arch_test_on_exit_01 of test_on_exit_01 is
  function cohdl_bool_to_std_logic(inp: boolean) return std_logic is
  begin
    if inp then
      return('1');
    else
      return('0');
    end if;
  end function cohdl_bool_to_std_logic;
  signal buffer_out_a : std_logic_vector(2 downto 0);
  signal buffer_out_b : std_logic_vector(2 downto 0);
begin
  
  -- CONCURRENT BLOCK (buffer assignment)
  out_a <= buffer_out_a;
  out_b <= buffer_out_b;
  
  -- CONCURRENT BLOCK (logic)
  buffer_out_b <= inp_b;
  

  proc: process(inp_a)
  begin
    buffer_out_a <= inp_a;
  end process;
end architecture arch_test_on_exit_01;