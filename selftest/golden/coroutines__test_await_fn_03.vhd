library ieee;
use ieee.std_logic_1164.all;
use ieee.numeric_std.all;


entity test_await_fn_03 is
  port (
    clk : in std_logic;
    a : in std_logic;
    b : in std_logic;
    c : in std_logic;
    d : in std_logic;
    output : out std_logic
    );
end test_await_fn_03;


architecture arch_test_await_fn_03 of test_await_fn_03 is
  function cohdl_bool_to_std_logic(inp: boolean) return std_logic is
  begin
    if inp then
      return('1');
    else
      return('0');
    end if;
  end function cohdl_bool_to_std_logic;
  signal buffer_output : std_logic;
begin
  
  -- CONCURRENT BLOCK (buffer assignment)
  output <= buffer_output;
  

  proc_simple: process(clk)
    variable temp : boolean;
  begin
    if rising_edge(clk) then
      temp := a = '1' or b = '1' or c = '1' or d = '1';
      if temp then
        buffer_output <= a;
      end if;
    end if;
  end process;
end architecture arch_test_await_fn_03;