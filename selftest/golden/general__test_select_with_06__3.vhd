library ieee;
use ieee.std_logic_1164.all;
use ieee.numeric_std.all;


entity test_select_with is
  port (
    sw : in std_logic_vector(3 downto 0);
    sw_u : in unsigned(3 downto 0);
    sw_s : in signed(3 downto 0);
    test_inp : in std_logic_vector(7 downto 0);
    sel_a : out std_logic;
    sel_b : out std_logic_vector(1 downto 0);
    sel_c : out std_logic_vector(3 downto 0);
    sel_d : out unsigned(2 downto 0)
    );
end test_select_with;


architecture arch_test_select_with of test_select_with is
  function cohdl_bool_to_std_logic(inp: boolean) return std_logic is
  begin
    if inp then
      return('1');
    else
      return('0');
    end if;
  end function cohdl_bool_to_std_logic;
  signal buffer_sel_a : std_logic;
  signal buffer_sel_b : std_logic_vector(1 downto 0);
  signal buffer_sel_c : std_logic_vector(3 downto 0);
  signal buffer_sel_d : unsigned(2 downto 0);
begin
  
  -- CONCURRENT BLOCK (buffer assignment)
  sel_a <= buffer_sel_a;
  sel_b <= buffer_sel_b;
  sel_c <= buffer_sel_c;
  sel_d <= buffer_sel_d;
  

  logic_select_with: process(sw, test_inp)
    variable temp : std_logic;
    variable temp1 : std_logic_vector(1 downto 0);
    variable temp2 : std_logic_vector(3 downto 0);
  begin
    case sw(0) is
      when '0' =>
        temp := '1';
      when '1' =>
        temp := '0';
      when others =>
        temp := '0';
    end case;
    buffer_sel_a <= temp;
    case std_logic_vector'(sw(1 downto 0)) is
      when "00" =>
        temp1 := "01";
      when "01" =>
        temp1 := std_logic_vector(test_inp(5 downto 4));
      when "10" =>
        temp1 := "11";
      when others =>
        temp1 := std_logic_vector(test_inp(7 downto 6));
    end case;
    buffer_sel_b <= temp1;
    case sw is
      when "1101" =>
        temp2 := "1111";
      when "0101" =>
        temp2 := "0101";
      when "0001" =>
        temp2 := std_logic_vector(test_inp(7 downto 4));
      when "1111" =>
        temp2 := std_logic_vector(test_inp(5 downto 2));
      when "0111" =>
        temp2 := std_logic_vector(signed(std_logic_vector(test_inp(6 downto 3))));
      when others =>
        temp2 := "1111";
    end case;
    buffer_sel_c <= temp2;
  end process;
end architecture arch_test_select_with;