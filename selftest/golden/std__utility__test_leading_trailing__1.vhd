library ieee;
use ieee.std_logic_1164.all;
use ieee.numeric_std.all;


entity test_leading_trailing is
  port (
    input : in signed(0 downto 0);
    leading_0 : out unsigned(0 downto 0);
    leading_1 : out unsigned(0 downto 0);
    trailing_0 : out unsigned(0 downto 0);
    trailing_1 : out unsigned(0 downto 0)
    );
end test_leading_trailing;


architecture arch_test_leading_trailing of test_leading_trailing is
  function cohdl_bool_to_std_logic(inp: boolean) return std_logic is
  begin
    if inp then
      return('1');
    else
      return('0');
    end if;
  end function cohdl_bool_to_std_logic;
  signal buffer_leading_0 : unsigned(0 downto 0);
  signal buffer_leading_1 : unsigned(0 downto 0);
  signal buffer_trailing_0 : unsigned(0 downto 0);
  signal buffer_trailing_1 : unsigned(0 downto 0);
  signal seq : std_logic_vector(1 downto 0);
  signal temp : boolean;
  signal temp1 : boolean;
  signal arg : unsigned(0 downto 0);
  signal seq1 : std_logic_vector(1 downto 0);
  signal temp2 : boolean;
  signal temp3 : boolean;
  signal arg1 : unsigned(0 downto 0);
  signal temp4 : boolean;
  signal temp5 : boolean;
  signal arg2 : unsigned(0 downto 0);
  signal temp6 : boolean;
  signal temp7 : boolean;
  signal arg3 : unsigned(0 downto 0);
begin
  
  -- CONCURRENT BLOCK (buffer assignment)
  leading_0 <= buffer_leading_0;
  leading_1 <= buffer_leading_1;
  trailing_0 <= buffer_trailing_0;
  trailing_1 <= buffer_trailing_1;
  
  -- CONCURRENT BLOCK (logic_assign)
  seq <= (input(0)) & (input(0));
  temp <= (seq(0) /= '0');
  temp1 <= temp;
  with temp1 select arg <=
    unsigned'("0") when true,
    unsigned'("1") when others;
  buffer_leading_0 <= arg;
  seq1 <= (input(0)) & (input(0));
  temp2 <= (seq1(0) /= '1');
  temp3 <= temp2;
  with temp3 select arg1 <=
    unsigned'("0") when true,
    unsigned'("1") when others;
  buffer_leading_1 <= arg1;
  temp4 <= (input(0) /= '0');
  temp5 <= temp4;
  with temp5 select arg2 <=
    unsigned'("0") when true,
    unsigned'("1") when others;
  buffer_trailing_0 <= arg2;
  temp6 <= (input(0) /= '1');
  temp7 <= temp6;
  with temp7 select arg3 <=
    unsigned'("0") when true,
    unsigned'("1") when others;
  buffer_trailing_1 <= arg3;
end architecture arch_test_leading_trailing;