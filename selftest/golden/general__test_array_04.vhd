library ieee;
use ieee.std_logic_1164.all;
use ieee.numeric_std.all;


entity test_array_04 is
  port (
    clk : in std_logic;
    reset : in std_logic;
    choose_option : in std_logic;
    rd_addr : in unsigned(1 downto 0);
    rd_data : out std_logic_vector(3 downto 0)
    );
end test_array_04;


architecture arch_test_array_04 of test_array_04 is
  function cohdl_bool_to_std_logic(inp: boolean) return std_logic is
  begin
    if inp then
      return('1');
    else
      return('0');
    end if;
  end function cohdl_bool_to_std_logic;
  signal buffer_rd_data : std_logic_vector(3 downto 0);
  signal temp : unsigned(1 downto 0);
  type array_type is array(0 to 3) of std_logic_vector(3 downto 0);
  signal mem : array_type := ( 0 => "0000", 1 => "0000", 2 => "1111", 3 => "1111" );
begin
  
  -- CONCURRENT BLOCK (buffer assignment)
  rd_data <= buffer_rd_data;
  
  -- CONCURRENT BLOCK (logic)
  temp <= rd_addr;
  buffer_rd_data <= mem(to_integer(temp));
  

  proc: process(clk)
    variable temp1 : boolean;
    variable temp2 : boolean;
  begin
    if rising_edge(clk) then
      temp1 := reset = '1';
      if temp1 then
        mem <= ( 0 => "0000", 1 => "0000", 2 => "1111", 3 => "1111" );
      else
        temp2 := choose_option = '1';
        if temp2 then
          mem <= ( 0 => "1100", 1 => "0011", 2 => "1001", 3 => "0110" );
        else
          mem <= ( 0 => "1111", 1 => "1111", 2 => "0000", 3 => "0000" );
        end if;
      end if;
    end if;
  end process;
end architecture arch_test_array_04;