library ieee;
use ieee.std_logic_1164.all;
use ieee.numeric_std.all;


entity test_comp_01 is
  port (
    inp_a : in std_logic;
    inp_b : in std_logic;
    inp_c : in std_logic;
    inp_selector : in unsigned(3 downto 0);
    out_selected : out std_logic;
    inp_wide : in std_logic_vector(3 downto 0);
    out_narrow : out std_logic_vector(1 downto 0)
    );
end test_comp_01;


architecture arch_test_comp_01 of test_comp_01 is
  function cohdl_bool_to_std_logic(inp: boolean) return std_logic is
  begin
    if inp then
      return('1');
    else
      return('0');
    end if;
  end function cohdl_bool_to_std_logic;
  signal buffer_out_selected : std_logic;
  signal buffer_out_narrow : std_logic_vector(1 downto 0);
  signal temp : std_logic;
begin
  
  -- CONCURRENT BLOCK (buffer assignment)
  out_selected <= buffer_out_selected;
  out_narrow <= buffer_out_narrow;
  
  -- CONCURRENT BLOCK (logic)
  with inp_selector select temp <=
    inp_a when unsigned'("0000"),
    inp_b when unsigned'("0001"),
    inp_c when unsigned'("0010"),
    '0' when others;
  buffer_out_selected <= temp;
  buffer_out_narrow(0) <= inp_wide(0);
  buffer_out_narrow(1) <= inp_wide(2);
end architecture arch_test_comp_01;