library ieee;
use ieee.std_logic_1164.all;
use ieee.numeric_std.all;


entity test_array_03 is
  port (
    clk : in std_logic;
    rd_addr : in unsigned(1 downto 0);
    rd_data : out std_logic_vector(3 downto 0)
    );
end test_array_03;


architecture arch_test_array_03 of test_array_03 is
  function cohdl_bool_to_std_logic(inp: boolean) return std_logic is
  begin
    if inp then
      return('1');
    else
      return('0');
    end if;
  end function cohdl_bool_to_std_logic;
  signal buffer_rd_data : std_logic_vector(3 downto 0);
  signal temp : unsigned(1 downto 0);
  type array_type is array(0 to 3) of std_logic_vector(3 downto 0);
  signal mem : array_type := ( 0 => "0000", 1 => "0110", 2 => "1010", 3 => "1100" );
begin
  
  -- CONCURRENT BLOCK (buffer assignment)
  rd_data <= buffer_rd_data;
  
  -- CONCURRENT BLOCK (proc)
  temp <= rd_addr;
  buffer_rd_data <= mem(to_integer(temp));
end architecture arch_test_array_03;