library ieee;
use ieee.std_logic_1164.all;
use ieee.numeric_std.all;


entity test_roll is
  port (
    inp_a : in std_logic_vector(0 downto 0);
    inp_b : in std_logic_vector(1 downto 0);
    inp_c : in std_logic_vector(2 downto 0);
    inp_d : in std_logic_vector(7 downto 0);
    rol_1_0 : out std_logic_vector(0 downto 0);
    ror_1_0 : out std_logic_vector(0 downto 0);
    rol_1_1 : out std_logic_vector(0 downto 0);
    ror_1_1 : out std_logic_vector(0 downto 0);
    rol_2_0 : out std_logic_vector(1 downto 0);
    ror_2_0 : out std_logic_vector(1 downto 0);
    rol_2_1 : out std_logic_vector(1 downto 0);
    ror_2_1 : out std_logic_vector(1 downto 0);
    rol_2_2 : out std_logic_vector(1 downto 0);
    ror_2_2 : out std_logic_vector(1 downto 0);
    rol_3_0 : out std_logic_vector(2 downto 0);
    ror_3_0 : out std_logic_vector(2 downto 0);
    rol_3_1 : out std_logic_vector(2 downto 0);
    ror_3_1 : out std_logic_vector(2 downto 0);
    rol_3_2 : out std_logic_vector(2 downto 0);
    ror_3_2 : out std_logic_vector(2 downto 0);
    rol_3_3 : out std_logic_vector(2 downto 0);
    ror_3_3 : out std_logic_vector(2 downto 0);
    rol_8_0 : out std_logic_vector(7 downto 0);
    ror_8_0 : out std_logic_vector(7 downto 0);
    rol_8_1 : out std_logic_vector(7 downto 0);
    ror_8_1 : out std_logic_vector(7 downto 0);
    rol_8_2 : out std_logic_vector(7 downto 0);
    ror_8_2 : out std_logic_vector(7 downto 0);
    rol_8_3 : out std_logic_vector(7 downto 0);
    ror_8_3 : out std_logic_vector(7 downto 0);
    rol_8_4 : out std_logic_vector(7 downto 0);
    ror_8_4 : out std_logic_vector(7 downto 0);
    rol_8_5 : out std_logic_vector(7 downto 0);
    ror_8_5 : out std_logic_vector(7 downto 0);
    rol_8_6 : out std_logic_vector(7 downto 0);
    ror_8_6 : out std_logic_vector(7 downto 0);
    rol_8_7 : out std_logic_vector(7 downto 0);
    ror_8_7 : out std_logic_vector(7 downto 0);
    rol_8_8 : out std_logic_vector(7 downto 0);
    ror_8_8 : out std_logic_vector(7 downto 0)
    );
end test_roll;


architecture arch_test_roll of test_roll is
  function cohdl_bool_to_std_logic(inp: boolean) return std_logic is
  begin
    if inp then
      return('1');
    else
      return('0');
    end if;
  end function cohdl_bool_to_std_logic;
  signal buffer_rol_1_0 : std_logic_vector(0 downto 0);
  signal buffer_ror_1_0 : std_logic_vector(0 downto 0);
  signal buffer_rol_1_1 : std_logic_vector(0 downto 0);
  signal buffer_ror_1_1 : std_logic_vector(0 downto 0);
  signal buffer_rol_2_0 : std_logic_vector(1 downto 0);
  signal buffer_ror_2_0 : std_logic_vector(1 downto 0);
  signal buffer_rol_2_1 : std_logic_vector(1 downto 0);
  signal buffer_ror_2_1 : std_logic_vector(1 downto 0);
  signal buffer_rol_2_2 : std_logic_vector(1 downto 0);
  signal buffer_ror_2_2 : std_logic_vector(1 downto 0);
  signal buffer_rol_3_0 : std_logic_vector(2 downto 0);
  signal buffer_ror_3_0 : std_logic_vector(2 downto 0);
  signal buffer_rol_3_1 : std_logic_vector(2 downto 0);
  signal buffer_ror_3_1 : std_logic_vector(2 downto 0);
  signal buffer_rol_3_2 : std_logic_vector(2 downto 0);
  signal buffer_ror_3_2 : std_logic_vector(2 downto 0);
  signal buffer_rol_3_3 : std_logic_vector(2 downto 0);
  signal buffer_ror_3_3 : std_logic_vector(2 downto 0);
  signal buffer_rol_8_0 : std_logic_vector(7 downto 0);
  signal buffer_ror_8_0 : std_logic_vector(7 downto 0);
  signal buffer_rol_8_1 : std_logic_vector(7 downto 0);
  signal buffer_ror_8_1 : std_logic_vector(7 downto 0);
  signal buffer_rol_8_2 : std_logic_vector(7 downto 0);
  signal buffer_ror_8_2 : std_logic_vector(7 downto 0);
  signal buffer_rol_8_3 : std_logic_vector(7 downto 0);
  signal buffer_ror_8_3 : std_logic_vector(7 downto 0);
  signal buffer_rol_8_4 : std_logic_vector(7 downto 0);
  signal buffer_ror_8_4 : std_logic_vector(7 downto 0);
  signal buffer_rol_8_5 : std_logic_vector(7 downto 0);
  signal buffer_ror_8_5 : std_logic_vector(7 downto 0);
  signal buffer_rol_8_6 : std_logic_vector(7 downto 0);
  signal buffer_ror_8_6 : std_logic_vector(7 downto 0);
  signal buffer_rol_8_7 : std_logic_vector(7 downto 0);
  signal buffer_ror_8_7 : std_logic_vector(7 downto 0);
  signal buffer_rol_8_8 : std_logic_vector(7 downto 0);
  signal buffer_ror_8_8 : std_logic_vector(7 downto 0);
  signal temp : std_logic_vector(0 downto 0);
  signal temp1 : std_logic_vector(0 downto 0);
  signal temp2 : std_logic_vector(0 downto 0);
  signal temp3 : std_logic_vector(0 downto 0);
  signal temp4 : std_logic_vector(1 downto 0);
  signal temp5 : std_logic_vector(1 downto 0);
  signal temp6 : std_logic_vector(1 downto 0);
  signal temp7 : std_logic_vector(1 downto 0);
  signal temp8 : std_logic_vector(1 downto 0);
  signal temp9 : std_logic_vector(1 downto 0);
  signal temp10 : std_logic_vector(2 downto 0);
  signal temp11 : std_logic_vector(2 downto 0);
  signal temp12 : std_logic_vector(2 downto 0);
  signal temp13 : std_logic_vector(2 downto 0);
  signal temp14 : std_logic_vector(2 downto 0);
  signal temp15 : std_logic_vector(2 downto 0);
  signal temp16 : std_logic_vector(2 downto 0);
  signal temp17 : std_logic_vector(2 downto 0);
  signal temp18 : std_logic_vector(7 downto 0);
  signal temp19 : std_logic_vector(7 downto 0);
  signal temp20 : std_logic_vector(7 downto 0);
  signal temp21 : std_logic_vector(7 downto 0);
  signal temp22 : std_logic_vector(7 downto 0);
  signal temp23 : std_logic_vector(7 downto 0);
  signal temp24 : std_logic_vector(7 downto 0);
  signal temp25 : std_logic_vector(7 downto 0);
  signal temp26 : std_logic_vector(7 downto 0);
  signal temp27 : std_logic_vector(7 downto 0);
  signal temp28 : std_logic_vector(7 downto 0);
  signal temp29 : std_logic_vector(7 downto 0);
  signal temp30 : std_logic_vector(7 downto 0);
  signal temp31 : std_logic_vector(7 downto 0);
  signal temp32 : std_logic_vector(7 downto 0);
  signal temp33 : std_logic_vector(7 downto 0);
  signal temp34 : std_logic_vector(7 downto 0);
  signal temp35 : std_logic_vector(7 downto 0);
begin
  
  -- CONCURRENT BLOCK (buffer assignment)
  rol_1_0 <= buffer_rol_1_0;
  ror_1_0 <= buffer_ror_1_0;
  rol_1_1 <= buffer_rol_1_1;
  ror_1_1 <= buffer_ror_1_1;
  rol_2_0 <= buffer_rol_2_0;
  ror_2_0 <= buffer_ror_2_0;
  rol_2_1 <= buffer_rol_2_1;
  ror_2_1 <= buffer_ror_2_1;
  rol_2_2 <= buffer_rol_2_2;
  ror_2_2 <= buffer_ror_2_2;
  rol_3_0 <= buffer_rol_3_0;
  ror_3_0 <= buffer_ror_3_0;
  rol_3_1 <= buffer_rol_3_1;
  ror_3_1 <= buffer_ror_3_1;
  rol_3_2 <= buffer_rol_3_2;
  ror_3_2 <= buffer_ror_3_2;
  rol_3_3 <= buffer_rol_3_3;
  ror_3_3 <= buffer_ror_3_3;
  rol_8_0 <= buffer_rol_8_0;
  ror_8_0 <= buffer_ror_8_0;
  rol_8_1 <= buffer_rol_8_1;
  ror_8_1 <= buffer_ror_8_1;
  rol_8_2 <= buffer_rol_8_2;
  ror_8_2 <= buffer_ror_8_2;
  rol_8_3 <= buffer_rol_8_3;
  ror_8_3 <= buffer_ror_8_3;
  rol_8_4 <= buffer_rol_8_4;
  ror_8_4 <= buffer_ror_8_4;
  rol_8_5 <= buffer_rol_8_5;
  ror_8_5 <= buffer_ror_8_5;
  rol_8_6 <= buffer_rol_8_6;
  ror_8_6 <= buffer_ror_8_6;
  rol_8_7 <= buffer_rol_8_7;
  ror_8_7 <= buffer_ror_8_7;
  rol_8_8 <= buffer_rol_8_8;
  ror_8_8 <= buffer_ror_8_8;
  
  -- CONCURRENT BLOCK (logic)
  temp <= inp_a;
  buffer_rol_1_0 <= temp;
  temp1 <= inp_a;
  buffer_ror_1_0 <= temp1;
  
  -- CONCURRENT BLOCK (logic)
  temp2 <= inp_a;
  buffer_rol_1_1 <= temp2;
  temp3 <= inp_a;
  buffer_ror_1_1 <= temp3;
  
  -- CONCURRENT BLOCK (logic)
  temp4 <= inp_b;
  buffer_rol_2_0 <= temp4;
  temp5 <= inp_b;
  buffer_ror_2_0 <= temp5;
  
  -- CONCURRENT BLOCK (logic)
  temp6 <= (std_logic_vector(inp_b(0 downto 0))) & (std_logic_vector(inp_b(1 downto 1)));
  buffer_rol_2_1 <= temp6;
  temp7 <= (std_logic_vector(inp_b(0 downto 0))) & (std_logic_vector(inp_b(1 downto 1)));
  buffer_ror_2_1 <= temp7;
  
  -- CONCURRENT BLOCK (logic)
  temp8 <= inp_b;
  buffer_rol_2_2 <= temp8;
  temp9 <= inp_b;
  buffer_ror_2_2 <= temp9;
  
  -- CONCURRENT BLOCK (logic)
  temp10 <= inp_c;
  buffer_rol_3_0 <= temp10;
  temp11 <= inp_c;
  buffer_ror_3_0 <= temp11;
  
  -- CONCURRENT BLOCK (logic)
  temp12 <= (std_logic_vector(inp_c(1 downto 0))) & (std_logic_vector(inp_c(2 downto 2)));
  buffer_rol_3_1 <= temp12;
  temp13 <= (std_logic_vector(inp_c(0 downto 0))) & (std_logic_vector(inp_c(2 downto 1)));
  buffer_ror_3_1 <= temp13;
  
  -- CONCURRENT BLOCK (logic)
  temp14 <= (std_logic_vector(inp_c(0 downto 0))) & (std_logic_vector(inp_c(2 downto 1)));
  buffer_rol_3_2 <= temp14;
  temp15 <= (std_logic_vector(inp_c(1 downto 0))) & (std_logic_vector(inp_c(2 downto 2)));
  buffer_ror_3_2 <= temp15;
  
  -- CONCURRENT BLOCK (logic)
  temp16 <= inp_c;
  buffer_rol_3_3 <= temp16;
  temp17 <= inp_c;
  buffer_ror_3_3 <= temp17;
  
  -- CONCURRENT BLOCK (logic)
  temp18 <= inp_d;
  buffer_rol_8_0 <= temp18;
  temp19 <= inp_d;
  buffer_ror_8_0 <= temp19;
  
  -- CONCURRENT BLOCK (logic)
  temp20 <= (std_logic_vector(inp_d(6 downto 0))) & (std_logic_vector(inp_d(7 downto 7)));
  buffer_rol_8_1 <= temp20;
  temp21 <= (std_logic_vector(inp_d(0 downto 0))) & (std_logic_vector(inp_d(7 downto 1)));
  buffer_ror_8_1 <= temp21;
  
  -- CONCURRENT BLOCK (logic)
  temp22 <= (std_logic_vector(inp_d(5 downto 0))) & (std_logic_vector(inp_d(7 downto 6)));
  buffer_rol_8_2 <= temp22;
  temp23 <= (std_logic_vector(inp_d(1 downto 0))) & (std_logic_vector(inp_d(7 downto 2)));
  buffer_ror_8_2 <= temp23;
  
  -- CONCURRENT BLOCK (logic)
  temp24 <= (std_logic_vector(inp_d(4 downto 0))) & (std_logic_vector(inp_d(7 downto 5)));
  buffer_rol_8_3 <= temp24;
  temp25 <= (std_logic_vector(inp_d(2 downto 0))) & (std_logic_vector(inp_d(7 downto 3)));
  buffer_ror_8_3 <= temp25;
  
  -- CONCURRENT BLOCK (logic)
  temp26 <= (std_logic_vector(inp_d(3 downto 0))) & (std_logic_vector(inp_d(7 downto 4)));
  buffer_rol_8_4 <= temp26;
  temp27 <= (std_logic_vector(inp_d(3 downto 0))) & (std_logic_vector(inp_d(7 downto 4)));
  buffer_ror_8_4 <= temp27;
  
  -- CONCURRENT BLOCK (logic)
  temp28 <= (std_logic_vector(inp_d(2 downto 0))) & (std_logic_vector(inp_d(7 downto 3)));
  buffer_rol_8_5 <= temp28;
  temp29 <= (std_logic_vector(inp_d(4 downto 0))) & (std_logic_vector(inp_d(7 downto 5)));
  buffer_ror_8_5 <= temp29;
  
  -- CONCURRENT BLOCK (logic)
  temp30 <= (std_logic_vector(inp_d(1 downto 0))) & (std_logic_vector(inp_d(7 downto 2)));
  buffer_rol_8_6 <= temp30;
  temp31 <= (std_logic_vector(inp_d(5 downto 0))) & (std_logic_vector(inp_d(7 downto 6)));
  buffer_ror_8_6 <= temp31;
  
  -- CONCURRENT BLOCK (logic)
  temp32 <= (std_logic_vector(inp_d(0 downto 0))) & (std_logic_vector(inp_d(7 downto 1)));
  buffer_rol_8_7 <= temp32;
  temp33 <= (std_logic_vector(inp_d(6 downto 0))) & (std_logic_vector(inp_d(7 downto 7)));
  buffer_ror_8_7 <= temp33;
  
  -- CONCURRENT BLOCK (logic)
  temp34 <= inp_d;
  buffer_rol_8_8 <= temp34;
  temp35 <= inp_d;
  buffer_ror_8_8 <= temp35;
end architecture arch_test_roll;