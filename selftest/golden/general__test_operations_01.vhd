library ieee;
use ieee.std_logic_1164.all;
use ieee.numeric_std.all;


entity simple is
  port (
    sw : in std_logic_vector(15 downto 0);
    led : out std_logic_vector(15 downto 0);
    lsb : out std_logic;
    lsb_4 : out std_logic_vector(3 downto 0);
    lsb_rest_4 : out std_logic_vector(11 downto 0);
    msb : out std_logic;
    msb_4 : out std_logic_vector(3 downto 0);
    msb_rest_4 : out std_logic_vector(11 downto 0);
    a : in unsigned(15 downto 0);
    b : in unsigned(15 downto 0);
    sum : out unsigned(15 downto 0);
    dif : out unsigned(15 downto 0);
    prod : out unsigned(31 downto 0);
    prod_wide : out unsigned(39 downto 0);
    select_arg : in std_logic;
    selected : out unsigned(15 downto 0);
    if_selected : out unsigned(15 downto 0);
    field_15_0 : out std_logic_vector(15 downto 0);
    field_11_4 : out std_logic_vector(7 downto 0);
    field_15_12 : out std_logic_vector(3 downto 0);
    field_3_0 : out std_logic_vector(3 downto 0)
    );
end simple;


architecture arch_simple of simple is
  function cohdl_bool_to_std_logic(inp: boolean) return std_logic is
  begin
    if inp then
      return('1');
    else
      return('0');
    end if;
  end function cohdl_bool_to_std_logic;
  signal buffer_led : std_logic_vector(15 downto 0);
  signal buffer_lsb : std_logic;
  signal buffer_lsb_4 : std_logic_vector(3 downto 0);
  signal buffer_lsb_rest_4 : std_logic_vector(11 downto 0);
  signal buffer_msb : std_logic;
  signal buffer_msb_4 : std_logic_vector(3 downto 0);
  signal buffer_msb_rest_4 : std_logic_vector(11 downto 0);
  signal buffer_sum : unsigned(15 downto 0);
  signal buffer_dif : unsigned(15 downto 0);
  signal buffer_prod : unsigned(31 downto 0);
  signal buffer_prod_wide : unsigned(39 downto 0);
  signal buffer_selected : unsigned(15 downto 0);
  signal buffer_if_selected : unsigned(15 downto 0);
  signal buffer_field_15_0 : std_logic_vector(15 downto 0);
  signal buffer_field_11_4 : std_logic_vector(7 downto 0);
  signal buffer_field_15_12 : std_logic_vector(3 downto 0);
  signal buffer_field_3_0 : std_logic_vector(3 downto 0);
  signal temp : unsigned(15 downto 0);
  signal temp1 : unsigned(15 downto 0);
  signal temp2 : unsigned(31 downto 0);
  signal temp3 : unsigned(31 downto 0);
  signal temp4 : unsigned(15 downto 0);
  signal temp5 : boolean;
  signal temp6 : unsigned(15 downto 0);
begin
  
  -- CONCURRENT BLOCK (buffer assignment)
  led <= buffer_led;
  lsb <= buffer_lsb;
  lsb_4 <= buffer_lsb_4;
  lsb_rest_4 <= buffer_lsb_rest_4;
  msb <= buffer_msb;
  msb_4 <= buffer_msb_4;
  msb_rest_4 <= buffer_msb_rest_4;
  sum <= buffer_sum;
  dif <= buffer_dif;
  prod <= buffer_prod;
  prod_wide <= buffer_prod_wide;
  selected <= buffer_selected;
  if_selected <= buffer_if_selected;
  field_15_0 <= buffer_field_15_0;
  field_11_4 <= buffer_field_11_4;
  field_15_12 <= buffer_field_15_12;
  field_3_0 <= buffer_field_3_0;
  
  -- CONCURRENT BLOCK (logic)
  buffer_led(0) <= sw(0);
  buffer_lsb <= sw(0);
  buffer_lsb_4 <= std_logic_vector(sw(3 downto 0));
  buffer_lsb_rest_4 <= std_logic_vector(sw(11 downto 0));
  buffer_msb <= sw(15);
  buffer_msb_4 <= std_logic_vector(sw(15 downto 12));
  buffer_msb_rest_4 <= std_logic_vector(sw(15 downto 4));
  buffer_field_15_0 <= std_logic_vector(sw(15 downto 0));
  buffer_field_11_4 <= std_logic_vector(sw(11 downto 4));
  buffer_field_15_12 <= std_logic_vector(sw(15 downto 12));
  buffer_field_3_0 <= std_logic_vector(sw(3 downto 0));
  buffer_led <= sw;
  temp <= (a) + (b);
  buffer_sum <= temp;
  temp1 <= (b) - (a);
  buffer_dif <= temp1;
  temp2 <= (a) * (b);
  buffer_prod <= temp2;
  temp3 <= (a) * (b);
  buffer_prod_wide <= resize(temp3, 40);
  with select_arg select temp4 <=
    a when '0',
    b when '1',
    unsigned'("0000000000000000") when others;
  buffer_selected <= temp4;
  temp5 <= select_arg = '1';
  with temp5 select temp6 <=
    a when true,
    b when others;
  buffer_if_selected <= temp6;
end architecture arch_simple;