library ieee;
use ieee.std_logic_1164.all;
use ieee.numeric_std.all;


entity test_assignable_type is
  port (
    port_in_x : in unsigned(7 downto 0);
    port_in_y : in unsigned(7 downto 0);
    port_out_xa : out unsigned(7 downto 0);
    port_out_ya : out unsigned(7 downto 0);
    port_out_xb : out unsigned(7 downto 0);
    port_out_yb : out unsigned(7 downto 0);
    port_out_xc : out unsigned(7 downto 0);
    port_out_yc : out unsigned(7 downto 0);
    port_out_xd : out unsigned(7 downto 0);
    port_out_yd : out unsigned(7 downto 0);
    port_out_xe : out unsigned(7 downto 0);
    port_out_ye : out unsigned(7 downto 0)
    );
end test_assignable_type;


architecture arch_test_assignable_type of test_assignable_type is
  function cohdl_bool_to_std_logic(inp: boolean) return std_logic is
  begin
    if inp then
      return('1');
    else
      return('0');
    end if;
  end function cohdl_bool_to_std_logic;
  signal buffer_port_out_xa : unsigned(7 downto 0);
  signal buffer_port_out_ya : unsigned(7 downto 0);
  signal buffer_port_out_xb : unsigned(7 downto 0);
  signal buffer_port_out_yb : unsigned(7 downto 0);
  signal buffer_port_out_xc : unsigned(7 downto 0);
  signal buffer_port_out_yc : unsigned(7 downto 0);
  signal buffer_port_out_xd : unsigned(7 downto 0);
  signal buffer_port_out_yd : unsigned(7 downto 0);
  signal buffer_port_out_xe : unsigned(7 downto 0);
  signal buffer_port_out_ye : unsigned(7 downto 0);
  signal sig : unsigned(7 downto 0) := unsigned'("00000000");
  signal sig1 : unsigned(7 downto 0) := unsigned'("00000000");
  signal sig2 : unsigned(7 downto 0);
  signal sig3 : unsigned(7 downto 0);
begin
  
  -- CONCURRENT BLOCK (buffer assignment)
  port_out_xa <= buffer_port_out_xa;
  port_out_ya <= buffer_port_out_ya;
  port_out_xb <= buffer_port_out_xb;
  port_out_yb <= buffer_port_out_yb;
  port_out_xc <= buffer_port_out_xc;
  port_out_yc <= buffer_port_out_yc;
  port_out_xd <= buffer_port_out_xd;
  port_out_yd <= buffer_port_out_yd;
  port_out_xe <= buffer_port_out_xe;
  port_out_ye <= buffer_port_out_ye;
  
  -- CONCURRENT BLOCK (logic)
  buffer_port_out_xa <= port_in_x;
  buffer_port_out_ya <= port_in_y;
  buffer_port_out_xb <= port_in_x;
  buffer_port_out_yb <= port_in_y;
  sig <= port_in_x;
  sig1 <= port_in_y;
  buffer_port_out_xc <= sig;
  buffer_port_out_yc <= sig1;
  sig2 <= port_in_x;
  sig3 <= port_in_y;
  buffer_port_out_xd <= sig2;
  buffer_port_out_yd <= sig3;
  

  proc: process(port_in_x, port_in_y)
    variable var : unsigned(7 downto 0);
    variable var1 : unsigned(7 downto 0);
  begin
    var := port_in_x;
    var1 := port_in_y;
    buffer_port_out_xe <= var;
    buffer_port_out_ye <= var1;
  end process;
end architecture arch_test_assignable_type;