library ieee;
use ieee.std_logic_1164.all;
use ieee.numeric_std.all;


entity test_while_break_continue_03 is
  port (
    clk : in std_logic;
    reset : in std_logic;
    state : out unsigned(2 downto 0);
    step : in std_logic;
    do_continue : in unsigned(1 downto 0)
    );
end test_while_break_continue_03;


architecture arch_test_while_break_continue_03 of test_while_break_continue_03 is
  function cohdl_bool_to_std_logic(inp: boolean) return std_logic is
  begin
    if inp then
      return('1');
    else
      return('0');
    end if;
  end function cohdl_bool_to_std_logic;
  signal buffer_state : unsigned(2 downto 0) := unsigned'("000");
  type state_proc is (state_0, state_1, state_2, state_3);
  signal s_proc : state_proc := state_0;
begin
  
  -- CONCURRENT BLOCK (buffer assignment)
  state <= buffer_state;
  

  proc: process(clk)
    variable temp : boolean;
    variable cnt : unsigned(2 downto 0) := unsigned'("111");
    variable temp1 : unsigned(2 downto 0);
    variable temp2 : unsigned(2 downto 0);
    variable temp3 : boolean;
    variable temp4 : boolean;
    variable temp5 : boolean;
  begin
    if rising_edge(clk) then
      temp := reset = '1';
      if temp then
        s_proc <= state_0;
        buffer_state <= unsigned'("000");
        cnt := unsigned'("111");
      else
        case s_proc is
          when state_0 =>
            s_proc <= state_1;
            temp1 := (cnt) + (1);
            buffer_state <= temp1;
          when state_1 =>
            s_proc <= state_2;
            temp2 := (cnt) - (1);
            cnt := temp2;
            buffer_state <= cnt;
          when state_2 =>
            if step = '1' then
              temp3 := (do_continue = 0);
              if temp3 then
                s_proc <= state_2;
                temp2 := (cnt) - (1);
                cnt := temp2;
                buffer_state <= cnt;
              else
                temp4 := (do_continue = 1);
                if temp4 then
                  s_proc <= state_2;
                  temp2 := (cnt) - (1);
                  cnt := temp2;
                  buffer_state <= cnt;
                else
                  temp5 := (do_continue = 2);
                  if temp5 then
                    s_proc <= state_3;
                    buffer_state <= unsigned'("111");
                  else
                    s_proc <= state_3;
                    buffer_state <= unsigned'("111");
                  end if;
                end if;
              end if;
            end if;
          when state_3 =>
            if step = '1' then
              s_proc <= state_0;
            end if;
          when others =>
            null;
        end case;
      end if;
    end if;
  end process;
end architecture arch_test_while_break_continue_03;