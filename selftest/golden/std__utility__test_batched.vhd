library ieee;
use ieee.std_logic_1164.all;
use ieee.numeric_std.all;


entity test_batched is
  port (
    input : in std_logic_vector(5 downto 0);
    output_1 : out std_logic_vector(5 downto 0);
    output_2 : out std_logic_vector(5 downto 0);
    output_6 : out std_logic_vector(5 downto 0);
    output_5 : out std_logic_vector(5 downto 0);
    selector_1 : in std_logic_vector(5 downto 0);
    selector_2 : in std_logic_vector(2 downto 0);
    selector_6 : in std_logic_vector(0 downto 0);
    selected_1 : out std_logic_vector(0 downto 0);
    selected_2 : out std_logic_vector(1 downto 0);
    selected_6 : out std_logic_vector(5 downto 0)
    );
end test_batched;


architecture arch_test_batched of test_batched is
  function cohdl_bool_to_std_logic(inp: boolean) return std_logic is
  begin
    if inp then
      return('1');
    else
      return('0');
    end if;
  end function cohdl_bool_to_std_logic;
  signal buffer_output_1 : std_logic_vector(5 downto 0);
  signal buffer_output_2 : std_logic_vector(5 downto 0);
  signal buffer_output_6 : std_logic_vector(5 downto 0);
  signal buffer_output_5 : std_logic_vector(5 downto 0);
  signal buffer_selected_1 : std_logic_vector(0 downto 0);
  signal buffer_selected_2 : std_logic_vector(1 downto 0);
  signal buffer_selected_6 : std_logic_vector(5 downto 0);
  signal temp : std_logic_vector(5 downto 0);
  signal input1 : std_logic_vector(5 downto 0);
  signal a : std_logic_vector(0 downto 0);
  signal b : std_logic_vector(0 downto 0);
  signal b1 : std_logic_vector(0 downto 0);
  signal a1 : std_logic_vector(0 downto 0);
  signal temp1 : std_logic_vector(0 downto 0);
  signal first : std_logic_vector(1 downto 0);
  signal first1 : std_logic_vector(1 downto 0);
  signal first2 : std_logic_vector(1 downto 0);
  signal a2 : std_logic_vector(3 downto 0);
  signal temp2 : std_logic_vector(5 downto 0);
  signal input2 : std_logic_vector(5 downto 0);
  signal a3 : std_logic_vector(1 downto 0);
  signal temp3 : std_logic_vector(1 downto 0);
  signal first3 : std_logic_vector(1 downto 0);
  signal b2 : std_logic_vector(3 downto 0);
  signal first4 : std_logic_vector(5 downto 0);
  signal input3 : std_logic_vector(5 downto 0);
begin
  
  -- CONCURRENT BLOCK (buffer assignment)
  output_1 <= buffer_output_1;
  output_2 <= buffer_output_2;
  output_6 <= buffer_output_6;
  output_5 <= buffer_output_5;
  selected_1 <= buffer_selected_1;
  selected_2 <= buffer_selected_2;
  selected_6 <= buffer_selected_6;
  
  -- CONCURRENT BLOCK (logic)
  buffer_output_1(0 downto 0) <= std_logic_vector(input(0 downto 0));
  buffer_output_1(1 downto 1) <= std_logic_vector(input(1 downto 1));
  buffer_output_1(2 downto 2) <= std_logic_vector(input(2 downto 2));
  buffer_output_1(3 downto 3) <= std_logic_vector(input(3 downto 3));
  buffer_output_1(4 downto 4) <= std_logic_vector(input(4 downto 4));
  buffer_output_1(5 downto 5) <= std_logic_vector(input(5 downto 5));
  buffer_output_2(1 downto 0) <= std_logic_vector(input(1 downto 0));
  buffer_output_2(3 downto 2) <= std_logic_vector(input(3 downto 2));
  buffer_output_2(5 downto 4) <= std_logic_vector(input(5 downto 4));
  buffer_output_6(5 downto 0) <= std_logic_vector(input(5 downto 0));
  buffer_output_5(4 downto 0) <= std_logic_vector(input(4 downto 0));
  buffer_output_5(5 downto 5) <= std_logic_vector(input(5 downto 5));
  temp <= selector_1;
  input1 <= (input) and (temp);
  a <= (std_logic_vector(input1(0 downto 0))) or (std_logic_vector(input1(1 downto 1)));
  b <= (std_logic_vector(input1(2 downto 2))) or (std_logic_vector(input1(3 downto 3)));
  b1 <= (std_logic_vector(input1(4 downto 4))) or (std_logic_vector(input1(5 downto 5)));
  a1 <= (a) or (b);
  temp1 <= (a1) or (b1);
  buffer_selected_1 <= temp1;
  first <= (selector_2(0)) & (selector_2(0));
  first1 <= (selector_2(1)) & (selector_2(1));
  first2 <= (selector_2(2)) & (selector_2(2));
  a2 <= (first2) & (first1);
  temp2 <= (a2) & (first);
  input2 <= (input) and (temp2);
  a3 <= (std_logic_vector(input2(1 downto 0))) or (std_logic_vector(input2(3 downto 2)));
  temp3 <= (a3) or (std_logic_vector(input2(5 downto 4)));
  buffer_selected_2 <= temp3;
  first3 <= (selector_6(0)) & (selector_6(0));
  b2 <= (first3) & (first3);
  first4 <= (first3) & (b2);
  input3 <= (input) and (first4);
  buffer_selected_6 <= std_logic_vector(input3(5 downto 0));
end architecture arch_test_batched;