library ieee;
use ieee.std_logic_1164.all;
use ieee.numeric_std.all;


entity test_stack_02 is
  port (
    clk : in std_logic;
    reset : in std_logic;
    inp_a : in std_logic;
    inp_b0 : in std_logic;
    inp_b1 : in std_logic;
    inp_b2 : in std_logic;
    inp_push : in std_logic;
    inp_pop : in std_logic;
    inp_reset : in std_logic;
    out_empty : out std_logic;
    out_full : out std_logic;
    out_size : out unsigned(3 downto 0);
    out_a : out std_logic;
    out_b0 : out std_logic;
    out_b1 : out std_logic;
    out_b2 : out std_logic;
    out_front_a : out std_logic;
    out_front_b0 : out std_logic;
    out_front_b1 : out std_logic;
    out_front_b2 : out std_logic
    );
end test_stack_02;


architecture arch_test_stack_02 of test_stack_02 is
  function cohdl_bool_to_std_logic(inp: boolean) return std_logic is
  begin
    if inp then
      return('1');
    else
      return('0');
    end if;
  end function cohdl_bool_to_std_logic;
  signal buffer_out_empty : std_logic := '1';
  signal buffer_out_full : std_logic := '0';
  signal buffer_out_size : unsigned(3 downto 0) := unsigned'("0000");
  signal buffer_out_a : std_logic := '0';
  signal buffer_out_b0 : std_logic := '0';
  signal buffer_out_b1 : std_logic := '0';
  signal buffer_out_b2 : std_logic := '0';
  signal buffer_out_front_a : std_logic := '0';
  signal buffer_out_front_b0 : std_logic := '0';
  signal buffer_out_front_b1 : std_logic := '0';
  signal buffer_out_front_b2 : std_logic := '0';
  signal stack_cnt : unsigned(2 downto 0) := unsigned'("000");
  signal stack_index : unsigned(2 downto 0) := unsigned'("000");
  type array_type is array(0 to 4) of std_logic_vector(3 downto 0);
  signal stack_stack_mem : array_type;
  type array_type1 is array(0 to 2) of std_logic_vector(0 downto 0);
begin
  
  -- CONCURRENT BLOCK (buffer assignment)
  out_empty <= buffer_out_empty;
  out_full <= buffer_out_full;
  out_size <= buffer_out_size;
  out_a <= buffer_out_a;
  out_b0 <= buffer_out_b0;
  out_b1 <= buffer_out_b1;
  out_b2 <= buffer_out_b2;
  out_front_a <= buffer_out_front_a;
  out_front_b0 <= buffer_out_front_b0;
  out_front_b1 <= buffer_out_front_b1;
  out_front_b2 <= buffer_out_front_b2;
  

  logic: process(stack_cnt, stack_index, stack_stack_mem)
    variable temp : boolean;
    variable temp1 : boolean;
    variable temp2 : unsigned(2 downto 0);
    variable temp3 : unsigned(2 downto 0);
    variable temp4 : boolean;
    variable index : unsigned(2 downto 0);
    variable temp5 : unsigned(2 downto 0);
    variable temp6 : std_logic;
    variable inp : std_logic;
    variable inp1 : std_logic;
    variable inp2 : std_logic;
    variable temp7 : std_logic_vector(1 downto 0);
    variable temp8 : std_logic_vector(1 downto 0);
    variable temp9 : std_logic_vector(1 downto 0);
    variable temp10 : array_type1;
  begin
    temp := (stack_cnt = 0);
    buffer_out_empty <= cohdl_bool_to_std_logic(temp);
    temp1 := (stack_cnt = 5);
    buffer_out_full <= cohdl_bool_to_std_logic(temp1);
    temp2 := stack_cnt;
    buffer_out_size <= resize(temp2, 4);
    temp3 := (stack_index) - (1);
    temp4 := (stack_index = 0);
    case temp4 is
      when true =>
        index := unsigned'("100");
      when others =>
        index := temp3;
    end case;
    temp5 := index;
    temp6 := stack_stack_mem(to_integer(temp5))(0);
    inp := stack_stack_mem(to_integer(temp5))(1);
    inp1 := stack_stack_mem(to_integer(temp5))(2);
    inp2 := stack_stack_mem(to_integer(temp5))(3);
    temp7 := (inp) & (inp);
    temp8 := (inp1) & (inp1);
    temp9 := (inp2) & (inp2);
    temp10 := ( 0 => std_logic_vector(temp7(0 downto 0)), 1 => std_logic_vector(temp8(0 downto 0)), 2 => std_logic_vector(temp9(0 downto 0)) );
    buffer_out_front_a <= temp6;
    buffer_out_front_b0 <= temp10(0)(0);
    buffer_out_front_b1 <= temp10(1)(0);
    buffer_out_front_b2 <= temp10(2)(0);
  end process;
  

  proc_stack_02: process(clk)
    variable temp : boolean;
    variable temp1 : boolean;
    variable inp : std_logic;
    variable inp1 : std_logic;
    variable inp2 : std_logic;
    variable inp3 : std_logic;
    variable temp2 : std_logic_vector(1 downto 0);
    variable temp3 : std_logic_vector(1 downto 0);
    variable temp4 : std_logic_vector(1 downto 0);
    variable inp4 : array_type1;
    variable temp5 : std_logic_vector(1 downto 0);
    variable temp6 : std_logic_vector(1 downto 0);
    variable temp7 : std_logic_vector(1 downto 0);
    variable inp5 : array_type1;
    variable b : std_logic_vector(0 downto 0);
    variable b1 : std_logic_vector(0 downto 0);
    variable first : std_logic_vector(0 downto 0);
    variable a : std_logic_vector(1 downto 0);
    variable first1 : std_logic_vector(2 downto 0);
    variable b2 : std_logic_vector(1 downto 0);
    variable temp8 : std_logic_vector(3 downto 0);
    variable temp9 : unsigned(2 downto 0);
    variable temp10 : unsigned(2 downto 0);
    variable temp11 : boolean;
    variable temp12 : unsigned(2 downto 0);
    variable temp13 : unsigned(2 downto 0);
    variable temp14 : boolean;
    variable temp15 : unsigned(2 downto 0);
    variable temp16 : boolean;
    variable temp17 : boolean;
    variable temp18 : unsigned(2 downto 0);
    variable temp19 : unsigned(2 downto 0);
    variable temp20 : boolean;
    variable index : unsigned(2 downto 0);
    variable temp21 : unsigned(2 downto 0);
    variable temp22 : std_logic;
    variable inp6 : std_logic;
    variable inp7 : std_logic;
    variable inp8 : std_logic;
    variable temp23 : std_logic_vector(1 downto 0);
    variable temp24 : std_logic_vector(1 downto 0);
    variable temp25 : std_logic_vector(1 downto 0);
    variable bits : array_type1;
    variable temp26 : boolean;
  begin
    if rising_edge(clk) then
      temp := reset = '1';
      if temp then
        stack_cnt <= unsigned'("000");
        stack_index <= unsigned'("000");
        buffer_out_a <= '0';
        buffer_out_b0 <= '0';
        buffer_out_b1 <= '0';
        buffer_out_b2 <= '0';
      else
        temp1 := inp_push = '1';
        if temp1 then
          inp := inp_a;
          inp1 := inp_b0;
          inp2 := inp_b1;
          inp3 := inp_b2;
          temp2 := (inp1) & (inp1);
          temp3 := (inp2) & (inp2);
          temp4 := (inp3) & (inp3);
          inp4 := ( 0 => std_logic_vector(temp2(0 downto 0)), 1 => std_logic_vector(temp3(0 downto 0)), 2 => std_logic_vector(temp4(0 downto 0)) );
          temp5 := (inp4(0)(0)) & (inp4(0)(0));
          temp6 := (inp4(1)(0)) & (inp4(1)(0));
          temp7 := (inp4(2)(0)) & (inp4(2)(0));
          inp5 := ( 0 => std_logic_vector(temp5(0 downto 0)), 1 => std_logic_vector(temp6(0 downto 0)), 2 => std_logic_vector(temp7(0 downto 0)) );
          b := inp5(0);
          b1 := inp5(1);
          first := inp5(2);
          a := (first) & (b1);
          first1 := (a) & (b);
          b2 := (inp) & (inp);
          temp8 := (first1) & (std_logic_vector(b2(0 downto 0)));
          temp9 := stack_index;
          stack_stack_mem(to_integer(temp9)) <= temp8;
          temp10 := (stack_cnt) + (1);
          temp11 := (stack_cnt = 5);
          case temp11 is
            when true =>
              temp12 := unsigned'("101");
            when others =>
              temp12 := temp10;
          end case;
          stack_cnt <= temp12;
          temp13 := (stack_index) + (1);
          temp14 := (stack_index /= 4);
          case temp14 is
            when true =>
              temp15 := temp13;
            when others =>
              temp15 := unsigned'("000");
          end case;
          stack_index <= temp15;
        end if;
        temp16 := inp_pop = '1';
        if temp16 then
          temp17 := (stack_cnt /= 0);
          assert temp17 report "pop from empty stack";
          temp18 := (stack_cnt) - (1);
          stack_cnt <= temp18;
          temp19 := (stack_index) - (1);
          temp20 := (stack_index = 0);
          case temp20 is
            when true =>
              index := unsigned'("100");
            when others =>
              index := temp19;
          end case;
          stack_index <= index;
          temp21 := index;
          temp22 := stack_stack_mem(to_integer(temp21))(0);
          inp6 := stack_stack_mem(to_integer(temp21))(1);
          inp7 := stack_stack_mem(to_integer(temp21))(2);
          inp8 := stack_stack_mem(to_integer(temp21))(3);
          temp23 := (inp6) & (inp6);
          temp24 := (inp7) & (inp7);
          temp25 := (inp8) & (inp8);
          bits := ( 0 => std_logic_vector(temp23(0 downto 0)), 1 => std_logic_vector(temp24(0 downto 0)), 2 => std_logic_vector(temp25(0 downto 0)) );
          buffer_out_a <= temp22;
          buffer_out_b0 <= bits(0)(0);
          buffer_out_b1 <= bits(1)(0);
          buffer_out_b2 <= bits(2)(0);
        end if;
        temp26 := inp_reset = '1';
        if temp26 then
          stack_index <= unsigned'("000");
          stack_cnt <= unsigned'("000");
        end if;
      end if;
    end if;
  end process;
end architecture arch_test_stack_02;