library ieee;
use ieee.std_logic_1164.all;
use ieee.numeric_std.all;


entity test_always_01 is
  port (
    clk : in std_logic;
    enable : in std_logic;
    inp1 : in std_logic_vector(3 downto 0);
    inp2 : in std_logic_vector(3 downto 0);
    output : out std_logic_vector(3 downto 0)
    );
end test_always_01;


architecture arch_test_always_01 of test_always_01 is
  function cohdl_bool_to_std_logic(inp: boolean) return std_logic is
  begin
    if inp then
      return('1');
    else
      return('0');
    end if;
  end function cohdl_bool_to_std_logic;
  signal buffer_output : std_logic_vector(3 downto 0);
  signal sig : std_logic_vector(3 downto 0);
begin
  
  -- CONCURRENT BLOCK (buffer assignment)
  output <= buffer_output;
  
  -- CONCURRENT BLOCK (always - proc)
  sig <= (inp1) or (inp2);
  

  proc: process(clk)
  begin
    if rising_edge(clk) then
      if enable = '1' then
        buffer_output <= sig;
      end if;
    end if;
  end process;
  

end architecture arch_test_always_01;