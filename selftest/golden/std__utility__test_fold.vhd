library ieee;
use ieee.std_logic_1164.all;
use ieee.numeric_std.all;


entity test_fold is
  port (
    val_a : in unsigned(7 downto 0);
    val_b : in unsigned(7 downto 0);
    val_c : in unsigned(7 downto 0);
    val_d : in unsigned(7 downto 0);
    val_e : in unsigned(7 downto 0);
    min_1 : out unsigned(7 downto 0);
    idx_1 : out unsigned(2 downto 0);
    min_2 : out unsigned(7 downto 0);
    idx_2 : out unsigned(2 downto 0)
    );
end test_fold;


architecture arch_test_fold of test_fold is
  function cohdl_bool_to_std_logic(inp: boolean) return std_logic is
  begin
    if inp then
      return('1');
    else
      return('0');
    end if;
  end function cohdl_bool_to_std_logic;
  signal buffer_min_1 : unsigned(7 downto 0);
  signal buffer_idx_1 : unsigned(2 downto 0);
  signal buffer_min_2 : unsigned(7 downto 0);
  signal buffer_idx_2 : unsigned(2 downto 0);
  signal temp : boolean;
  signal temp1 : boolean;
  signal temp2 : unsigned(7 downto 0);
  signal temp3 : unsigned(2 downto 0);
  signal temp4 : boolean;
  signal temp5 : boolean;
  signal temp6 : unsigned(7 downto 0);
  signal temp7 : unsigned(2 downto 0);
  signal temp8 : unsigned(7 downto 0);
  signal temp9 : boolean;
  signal temp10 : boolean;
  signal temp11 : unsigned(7 downto 0);
  signal temp12 : unsigned(2 downto 0);
  signal temp13 : boolean;
  signal temp14 : boolean;
  signal temp15 : unsigned(7 downto 0);
  signal temp16 : unsigned(2 downto 0);
  signal temp17 : boolean;
  signal temp18 : boolean;
  signal temp19 : unsigned(7 downto 0);
  signal temp20 : unsigned(2 downto 0);
  signal temp21 : boolean;
  signal temp22 : boolean;
  signal temp23 : unsigned(7 downto 0);
  signal temp24 : unsigned(2 downto 0);
  signal temp25 : boolean;
  signal temp26 : boolean;
  signal temp27 : unsigned(7 downto 0);
  signal temp28 : unsigned(2 downto 0);
begin
  
  -- CONCURRENT BLOCK (buffer assignment)
  min_1 <= buffer_min_1;
  idx_1 <= buffer_idx_1;
  min_2 <= buffer_min_2;
  idx_2 <= buffer_idx_2;
  
  -- CONCURRENT BLOCK (logic)
  temp <= (val_a < val_b);
  temp1 <= temp;
  with temp1 select temp2 <=
    val_a when true,
    val_b when others;
  with temp1 select temp3 <=
    unsigned'("000") when true,
    unsigned'("001") when others;
  temp4 <= (val_c < val_d);
  temp5 <= temp4;
  with temp5 select temp6 <=
    val_c when true,
    val_d when others;
  with temp5 select temp7 <=
    unsigned'("010") when true,
    unsigned'("011") when others;
  temp8 <= val_e;
  temp9 <= (temp2 < temp6);
  temp10 <= temp9;
  with temp10 select temp11 <=
    temp2 when true,
    temp6 when others;
  with temp10 select temp12 <=
    temp3 when true,
    temp7 when others;
  temp13 <= (temp11 < temp8);
  temp14 <= temp13;
  with temp14 select temp15 <=
    temp11 when true,
    temp8 when others;
  with temp14 select temp16 <=
    temp12 when true,
    unsigned'("100") when others;
  temp17 <= (val_a < val_b);
  temp18 <= temp17;
  with temp18 select temp19 <=
    val_a when true,
    val_b when others;
  with temp18 select temp20 <=
    unsigned'("000") when true,
    unsigned'("001") when others;
  temp21 <= (val_c < val_d);
  temp22 <= temp21;
  with temp22 select temp23 <=
    val_c when true,
    val_d when others;
  with temp22 select temp24 <=
    unsigned'("010") when true,
    unsigned'("011") when others;
  temp25 <= (temp19 < temp23);
  temp26 <= temp25;
  with temp26 select temp27 <=
    temp19 when true,
    temp23 when others;
  with temp26 select temp28 <=
    temp20 when true,
    temp24 when others;
  buffer_min_1 <= temp15;
  buffer_idx_1 <= temp16;
  buffer_min_2 <= temp27;
  buffer_idx_2 <= temp28;
end architecture arch_test_fold;