library ieee;
use ieee.std_logic_1164.all;
use ieee.numeric_std.all;


entity test_executor_02 is
  port (
    clk : in std_logic;
    reset : in std_logic;
    start : in std_logic;
    inp_value : in unsigned(31 downto 0);
    result_parallel : out unsigned(31 downto 0);
    result_before : out unsigned(31 downto 0);
    result_after : out unsigned(31 downto 0);
    is_ready : out std_logic
    );
end test_executor_02;


architecture arch_test_executor_02 of test_executor_02 is
  function cohdl_bool_to_std_logic(inp: boolean) return std_logic is
  begin
    if inp then
      return('1');
    else
      return('0');
    end if;
  end function cohdl_bool_to_std_logic;
  signal buffer_result_parallel : unsigned(31 downto 0);
  signal buffer_result_before : unsigned(31 downto 0);
  signal buffer_result_after : unsigned(31 downto 0);
  signal buffer_is_ready : std_logic;
  type state_proc is (state_0, state_1);
  signal s_proc : state_proc := state_0;
  signal executor_process_ready : std_logic := '0';
  signal executor_start : std_logic := '0';
  signal sig : unsigned(31 downto 0);
  signal sig1 : unsigned(3 downto 0);
  signal self : unsigned(31 downto 0);
  signal temp : boolean;
  signal temp1 : boolean;
  signal temp2 : boolean;
  signal temp3 : boolean;
  signal temp4 : boolean;
  type state_proc_parallel is (state_0, state_1, state_2, state_3);
  signal s_proc_parallel : state_proc_parallel := state_0;
  type state_proc_after is (state_0, state_1, state_2, state_3);
  signal s_proc_after : state_proc_after := state_0;
  type state_executor_statemachine is (state_0, state_1);
  signal s_executor_statemachine : state_executor_statemachine := state_0;
  signal sig2 : unsigned(31 downto 0);
  signal sig3 : unsigned(3 downto 0);
  type state_executor_statemachine1 is (state_0, state_1);
  signal s_executor_statemachine1 : state_executor_statemachine1 := state_0;
  type state_proc_before is (state_0, state_1, state_2, state_3);
  signal s_proc_before : state_proc_before := state_0;
  signal sig4 : unsigned(31 downto 0);
  signal sig5 : unsigned(3 downto 0);
begin
  
  -- CONCURRENT BLOCK (buffer assignment)
  result_parallel <= buffer_result_parallel;
  result_before <= buffer_result_before;
  result_after <= buffer_result_after;
  is_ready <= buffer_is_ready;
  

  proc: process(clk)
    variable temp5 : boolean;
    variable temp6 : boolean;
    variable temp7 : boolean;
    variable temp8 : unsigned(3 downto 0);
    variable temp9 : unsigned(31 downto 0);
    variable temp10 : boolean;
  begin
    if rising_edge(clk) then
      temp5 := reset = '1';
      if temp5 then
        s_proc <= state_0;
        executor_process_ready <= '0';
      else
        case s_proc is
          when state_0 =>
            temp6 := executor_start = '1';
            temp7 := not (temp6);
            if temp7 then
              s_proc <= state_0;
              executor_process_ready <= '1';
            else
              s_proc <= state_1;
              executor_process_ready <= '0';
              sig <= unsigned'("00000000000000000000000000000000");
              sig1 <= unsigned'("1100");
            end if;
          when state_1 =>
            temp8 := (sig1) - (1);
            sig1 <= temp8;
            temp9 := (sig) + (inp_value);
            sig <= temp9;
            temp10 := (sig1 = 1);
            if temp10 then
              s_proc <= state_0;
              self <= sig;
              executor_process_ready <= '1';
            else
              s_proc <= state_1;
            end if;
          when others =>
            null;
        end case;
      end if;
    end if;
  end process;
  
  -- CONCURRENT BLOCK (logic)
  temp <= executor_start = '1';
  temp1 <= not (temp);
  temp2 <= executor_process_ready = '1';
  temp3 <= temp1;
  temp4 <= temp2 and temp3;
  buffer_is_ready <= cohdl_bool_to_std_logic(temp4);
  

  proc_parallel: process(clk)
    variable temp5 : boolean;
    variable temp6 : boolean;
    variable temp7 : boolean;
    variable temp8 : boolean;
    variable temp9 : boolean;
    variable temp10 : boolean;
    variable temp11 : boolean;
    variable temp12 : boolean;
    variable temp13 : boolean;
    variable temp14 : boolean;
    variable temp15 : boolean;
    variable temp16 : boolean;
    variable temp17 : boolean;
    variable temp18 : unsigned(31 downto 0);
    variable temp19 : boolean;
    variable temp20 : boolean;
    variable temp21 : boolean;
    variable temp22 : boolean;
    variable temp23 : boolean;
    variable temp24 : boolean;
    variable temp25 : boolean;
    variable temp26 : boolean;
    variable temp27 : boolean;
    variable temp28 : boolean;
    variable temp29 : boolean;
    variable temp30 : boolean;
    variable temp31 : unsigned(31 downto 0);
  begin
    if rising_edge(clk) then
      temp5 := reset = '1';
      if temp5 then
        s_proc_parallel <= state_0;
        executor_start <= '0';
      else
        executor_start <= '0';
        case s_proc_parallel is
          when state_0 =>
            if start = '1' then
              s_proc_parallel <= state_1;
              temp6 := executor_start = '1';
              temp7 := not (temp6);
              temp8 := executor_process_ready = '1';
              temp9 := temp8 and temp7;
              assert temp9;
              executor_start <= '1';
            end if;
          when state_1 =>
            temp10 := executor_start = '1';
            temp11 := not (temp10);
            temp12 := executor_process_ready = '1';
            temp13 := temp12 and temp11;
            if temp13 then
              s_proc_parallel <= state_2;
              temp14 := executor_start = '1';
              temp15 := not (temp14);
              temp16 := executor_process_ready = '1';
              temp17 := temp16 and temp15;
              assert temp17;
              temp18 := self;
              buffer_result_parallel <= temp18;
            end if;
          when state_2 =>
            if start = '1' then
              s_proc_parallel <= state_3;
              temp19 := executor_start = '1';
              temp20 := not (temp19);
              temp21 := executor_process_ready = '1';
              temp22 := temp21 and temp20;
              assert temp22;
              temp23 := executor_start = '1';
              temp24 := not (temp23);
              temp25 := executor_process_ready = '1';
              temp26 := temp25 and temp24;
              assert temp26;
              executor_start <= '1';
            end if;
          when state_3 =>
            temp27 := executor_start = '1';
            temp28 := not (temp27);
            temp29 := executor_process_ready = '1';
            temp30 := temp29 and temp28;
            if temp30 then
              s_proc_parallel <= state_0;
              temp31 := self;
              buffer_result_parallel <= temp31;
            end if;
          when others =>
            null;
        end case;
      end if;
    end if;
  end process;
  

  proc_after: process(clk)
    variable temp5 : boolean;
    variable executor_start1 : std_logic := '0';
    variable executor_process_ready1 : std_logic := '0';
    variable temp6 : boolean;
    variable temp7 : boolean;
    variable temp8 : boolean;
    variable temp9 : boolean;
    variable temp10 : boolean;
    variable temp11 : boolean;
    variable temp12 : boolean;
    variable temp13 : boolean;
    variable temp14 : boolean;
    variable temp15 : boolean;
    variable temp16 : boolean;
    variable temp17 : boolean;
    variable temp18 : unsigned(31 downto 0);
    variable self1 : unsigned(31 downto 0);
    variable temp19 : boolean;
    variable temp20 : boolean;
    variable temp21 : boolean;
    variable temp22 : boolean;
    variable temp23 : boolean;
    variable temp24 : boolean;
    variable temp25 : boolean;
    variable temp26 : boolean;
    variable temp27 : boolean;
    variable temp28 : boolean;
    variable temp29 : boolean;
    variable temp30 : boolean;
    variable temp31 : unsigned(31 downto 0);
    variable temp32 : boolean;
    variable temp33 : boolean;
    variable temp34 : unsigned(3 downto 0);
    variable temp35 : unsigned(31 downto 0);
    variable temp36 : boolean;
  begin
    if rising_edge(clk) then
      temp5 := reset = '1';
      if temp5 then
        s_proc_after <= state_0;
        executor_start1 := '0';
        s_executor_statemachine <= state_0;
        executor_process_ready1 := '0';
      else
        case s_proc_after is
          when state_0 =>
            if start = '1' then
              s_proc_after <= state_1;
              temp6 := executor_start1 = '1';
              temp7 := not (temp6);
              temp8 := executor_process_ready1 = '1';
              temp9 := temp8 and temp7;
              assert temp9;
              executor_start1 := '1';
            end if;
          when state_1 =>
            temp10 := executor_start1 = '1';
            temp11 := not (temp10);
            temp12 := executor_process_ready1 = '1';
            temp13 := temp12 and temp11;
            if temp13 then
              s_proc_after <= state_2;
              temp14 := executor_start1 = '1';
              temp15 := not (temp14);
              temp16 := executor_process_ready1 = '1';
              temp17 := temp16 and temp15;
              assert temp17;
              temp18 := self1;
              buffer_result_after <= temp18;
            end if;
          when state_2 =>
            if start = '1' then
              s_proc_after <= state_3;
              temp19 := executor_start1 = '1';
              temp20 := not (temp19);
              temp21 := executor_process_ready1 = '1';
              temp22 := temp21 and temp20;
              assert temp22;
              temp23 := executor_start1 = '1';
              temp24 := not (temp23);
              temp25 := executor_process_ready1 = '1';
              temp26 := temp25 and temp24;
              assert temp26;
              executor_start1 := '1';
            end if;
          when state_3 =>
            temp27 := executor_start1 = '1';
            temp28 := not (temp27);
            temp29 := executor_process_ready1 = '1';
            temp30 := temp29 and temp28;
            if temp30 then
              s_proc_after <= state_0;
              temp31 := self1;
              buffer_result_after <= temp31;
            end if;
          when others =>
            null;
        end case;
        case s_executor_statemachine is
          when state_0 =>
            temp32 := executor_start1 = '1';
            temp33 := not (temp32);
            if temp33 then
              s_executor_statemachine <= state_0;
              executor_process_ready1 := '1';
            else
              s_executor_statemachine <= state_1;
              executor_process_ready1 := '0';
              sig2 <= unsigned'("00000000000000000000000000000000");
              sig3 <= unsigned'("1100");
            end if;
          when state_1 =>
            temp34 := (sig3) - (1);
            sig3 <= temp34;
            temp35 := (sig2) + (inp_value);
            sig2 <= temp35;
            temp36 := (sig3 = 1);
            if temp36 then
              s_executor_statemachine <= state_0;
              self1 := sig2;
              executor_process_ready1 := '1';
            else
              s_executor_statemachine <= state_1;
            end if;
          when others =>
            null;
        end case;
        executor_start1 := '0';
      end if;
    end if;
  end process;
  

  proc_before: process(clk)
    variable temp5 : boolean;
    variable executor_process_ready1 : std_logic := '0';
    variable executor_start1 : std_logic := '0';
    variable temp6 : boolean;
    variable temp7 : boolean;
    variable temp8 : unsigned(3 downto 0);
    variable temp9 : unsigned(31 downto 0);
    variable temp10 : boolean;
    variable self1 : unsigned(31 downto 0);
    variable temp11 : boolean;
    variable temp12 : boolean;
    variable temp13 : boolean;
    variable temp14 : boolean;
    variable temp15 : boolean;
    variable temp16 : boolean;
    variable temp17 : boolean;
    variable temp18 : boolean;
    variable temp19 : boolean;
    variable temp20 : boolean;
    variable temp21 : boolean;
    variable temp22 : boolean;
    variable temp23 : unsigned(31 downto 0);
    variable temp24 : boolean;
    variable temp25 : boolean;
    variable temp26 : boolean;
    variable temp27 : boolean;
    variable temp28 : boolean;
    variable temp29 : boolean;
    variable temp30 : boolean;
    variable temp31 : boolean;
    variable temp32 : boolean;
    variable temp33 : boolean;
    variable temp34 : boolean;
    variable temp35 : boolean;
    variable temp36 : unsigned(31 downto 0);
  begin
    if rising_edge(clk) then
      temp5 := reset = '1';
      if temp5 then
        s_executor_statemachine1 <= state_0;
        executor_process_ready1 := '0';
        executor_start1 := '0';
        s_proc_before <= state_0;
      else
        case s_executor_statemachine1 is
          when state_0 =>
            temp6 := executor_start1 = '1';
            temp7 := not (temp6);
            if temp7 then
              s_executor_statemachine1 <= state_0;
              executor_process_ready1 := '1';
            else
              s_executor_statemachine1 <= state_1;
              executor_process_ready1 := '0';
              sig4 <= unsigned'("00000000000000000000000000000000");
              sig5 <= unsigned'("1100");
            end if;
          when state_1 =>
            temp8 := (sig5) - (1);
            sig5 <= temp8;
            temp9 := (sig4) + (inp_value);
            sig4 <= temp9;
            temp10 := (sig5 = 1);
            if temp10 then
              s_executor_statemachine1 <= state_0;
              self1 := sig4;
              executor_process_ready1 := '1';
            else
              s_executor_statemachine1 <= state_1;
            end if;
          when others =>
            null;
        end case;
        executor_start1 := '0';
        case s_proc_before is
          when state_0 =>
            if start = '1' then
              s_proc_before <= state_1;
              temp11 := executor_start1 = '1';
              temp12 := not (temp11);
              temp13 := executor_process_ready1 = '1';
              temp14 := temp13 and temp12;
              assert temp14;
              executor_start1 := '1';
            end if;
          when state_1 =>
            temp15 := executor_start1 = '1';
            temp16 := not (temp15);
            temp17 := executor_process_ready1 = '1';
            temp18 := temp17 and temp16;
            if temp18 then
              s_proc_before <= state_2;
              temp19 := executor_start1 = '1';
              temp20 := not (temp19);
              temp21 := executor_process_ready1 = '1';
              temp22 := temp21 and temp20;
              assert temp22;
              temp23 := self1;
              buffer_result_before <= temp23;
            end if;
          when state_2 =>
            if start = '1' then
              s_proc_before <= state_3;
              temp24 := executor_start1 = '1';
              temp25 := not (temp24);
              temp26 := executor_process_ready1 = '1';
              temp27 := temp26 and temp25;
              assert temp27;
              temp28 := executor_start1 = '1';
              temp29 := not (temp28);
              temp30 := executor_process_ready1 = '1';
              temp31 := temp30 and temp29;
              assert temp31;
              executor_start1 := '1';
            end if;
          when state_3 =>
            temp32 := executor_start1 = '1';
            temp33 := not (temp32);
            temp34 := executor_process_ready1 = '1';
            temp35 := temp34 and temp33;
            if temp35 then
              s_proc_before <= state_0;
              temp36 := self1;
              buffer_result_before <= temp36;
            end if;
          when others =>
            null;
        end case;
      end if;
    end if;
  end process;
end architecture arch_test_executor_02;