library ieee;
use ieee.std_logic_1164.all;
use ieee.numeric_std.all;


entity test_concurrent_wrappers_01 is
  port (
    port_a : in std_logic_vector(3 downto 0);
    port_b : in std_logic_vector(3 downto 0);
    port_out_assign : out std_logic_vector(3 downto 0);
    port_out_eval_or : out std_logic_vector(3 downto 0);
    port_out_call_or : out std_logic_vector(3 downto 0);
    port_out_eval_and : out std_logic_vector(3 downto 0);
    port_out_call_and : out std_logic_vector(3 downto 0);
    port_out_eval_xor : out std_logic_vector(3 downto 0);
    port_out_call_xor : out std_logic_vector(3 downto 0)
    );
end test_concurrent_wrappers_01;


architecture arch_test_concurrent_wrappers_01 of test_concurrent_wrappers_01 is
  function cohdl_bool_to_std_logic(inp: boolean) return std_logic is
  begin
    if inp then
      return('1');
    else
      return('0');
    end if;
  end function cohdl_bool_to_std_logic;
  signal buffer_port_out_assign : std_logic_vector(3 downto 0);
  signal buffer_port_out_eval_or : std_logic_vector(3 downto 0);
  signal buffer_port_out_call_or : std_logic_vector(3 downto 0);
  signal buffer_port_out_eval_and : std_logic_vector(3 downto 0);
  signal buffer_port_out_call_and : std_logic_vector(3 downto 0);
  signal buffer_port_out_eval_xor : std_logic_vector(3 downto 0);
  signal buffer_port_out_call_xor : std_logic_vector(3 downto 0);
  signal temp : std_logic_vector(3 downto 0);
  signal temp1 : std_logic_vector(3 downto 0);
  signal temp2 : std_logic_vector(3 downto 0);
  signal temp3 : std_logic_vector(3 downto 0);
  signal temp4 : std_logic_vector(3 downto 0);
  signal temp5 : std_logic_vector(3 downto 0);
begin
  
  -- CONCURRENT BLOCK (buffer assignment)
  port_out_assign <= buffer_port_out_assign;
  port_out_eval_or <= buffer_port_out_eval_or;
  port_out_call_or <= buffer_port_out_call_or;
  port_out_eval_and <= buffer_port_out_eval_and;
  port_out_call_and <= buffer_port_out_call_and;
  port_out_eval_xor <= buffer_port_out_eval_xor;
  port_out_call_xor <= buffer_port_out_call_xor;
  
  -- CONCURRENT BLOCK (logic)
  buffer_port_out_assign <= port_a;
  
  -- CONCURRENT BLOCK (logic)
  temp <= (port_a) or (port_b);
  buffer_port_out_eval_or <= temp;
  
  -- CONCURRENT BLOCK (logic)
  temp1 <= (port_a) and (port_b);
  buffer_port_out_eval_and <= temp1;
  
  -- CONCURRENT BLOCK (logic)
  temp2 <= (port_a) xor (port_b);
  buffer_port_out_eval_xor <= temp2;
  
  -- CONCURRENT BLOCK (logic)
  temp3 <= (port_a) or (port_b);
  buffer_port_out_call_or <= temp3;
  
  -- CONCURRENT BLOCK (logic)
  temp4 <= (port_a) and (port_b);
  buffer_port_out_call_and <= temp4;
  
  -- CONCURRENT BLOCK (logic)
  temp5 <= (port_a) xor (port_b);
  buffer_port_out_call_xor <= temp5;
end architecture arch_test_concurrent_wrappers_01;