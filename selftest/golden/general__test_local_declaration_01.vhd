library ieee;
use ieee.std_logic_1164.all;
use ieee.numeric_std.all;


entity test_local_declaration_01 is
  port (
    inp1 : in std_logic;
    inp2 : in std_logic_vector(3 downto 0);
    inp3 : in unsigned(3 downto 0);
    inp4 : in signed(3 downto 0);
    out1 : out std_logic;
    out2 : out std_logic_vector(3 downto 0);
    out3 : out unsigned(3 downto 0);
    out4 : out signed(3 downto 0)
    );
end test_local_declaration_01;


architecture arch_test_local_declaration_01 of test_local_declaration_01 is
  function cohdl_bool_to_std_logic(inp: boolean) return std_logic is
  begin
    if inp then
      return('1');
    else
      return('0');
    end if;
  end function cohdl_bool_to_std_logic;
  signal buffer_out1 : std_logic;
  signal buffer_out2 : std_logic_vector(3 downto 0);
  signal buffer_out3 : unsigned(3 downto 0);
  signal buffer_out4 : signed(3 downto 0);
  signal sig : std_logic;
  signal sig1 : std_logic_vector(3 downto 0);
  signal sig2 : unsigned(3 downto 0);
  signal sig3 : signed(3 downto 0);
begin
  
  -- CONCURRENT BLOCK (buffer assignment)
  out1 <= buffer_out1;
  out2 <= buffer_out2;
  out3 <= buffer_out3;
  out4 <= buffer_out4;
  
  -- CONCURRENT BLOCK (logic)
  sig <= inp1;
  sig1 <= inp2;
  sig2 <= inp3;
  sig3 <= inp4;
  buffer_out1 <= sig;
  buffer_out2 <= sig1;
  buffer_out3 <= sig2;
  buffer_out4 <= sig3;
end architecture arch_test_local_declaration_01;