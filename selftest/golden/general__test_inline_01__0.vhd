library ieee;
use ieee.std_logic_1164.all;
use ieee.numeric_std.all;


entity test_inline_01 is
  port (
    inp_1 : in std_logic;
    inp_2 : in std_logic_vector(3 downto 0);
    out_1 : out std_logic;
    out_2 : out std_logic_vector(3 downto 0);
    out_3 : out std_logic;
    out_4 : out std_logic_vector(3 downto 0)
    );
end test_inline_01;


architecture arch_test_inline_01 of test_inline_01 is
  function cohdl_bool_to_std_logic(inp: boolean) return std_logic is
  begin
    if inp then
      return('1');
    else
      return('0');
    end if;
  end function cohdl_bool_to_std_logic;
  signal buffer_out_1 : std_logic;
  signal buffer_out_2 : std_logic_vector(3 downto 0);
  signal buffer_out_3 : std_logic;
  signal buffer_out_4 : std_logic_vector(3 downto 0);
begin
  
  -- CONCURRENT BLOCK (buffer assignment)
  out_1 <= buffer_out_1;
  out_2 <= buffer_out_2;
  out_3 <= buffer_out_3;
  out_4 <= buffer_out_4;
  
  -- CONCURRENT BLOCK (logic)
  buffer_out_1 <= inp_1;
  buffer_out_2 <= inp_2;
  buffer_out_3 <= inp_2(0);
  buffer_out_4(0) <= inp_2(0);
  buffer_out_4(1) <= inp_2(1);
  buffer_out_4(2) <= inp_2(2);
  buffer_out_4(3) <= inp_2(3);
end architecture arch_test_inline_01;