library ieee;
use ieee.std_logic_1164.all;
use ieee.numeric_std.all;


entity test_count_elements is
  port (
    input : in std_logic_vector(7 downto 0);
    inp_until_0 : out unsigned(3 downto 0);
    list_until_1 : out unsigned(3 downto 0);
    inp_until_not0 : out unsigned(3 downto 0);
    list_until_not1 : out unsigned(3 downto 0);
    inp_while_0 : out unsigned(3 downto 0);
    list_while_1 : out unsigned(3 downto 0);
    inp_while_not0 : out unsigned(3 downto 0);
    list_while_not1 : out unsigned(3 downto 0);
    empty_until_val : out unsigned(0 downto 0);
    empty_until_cond : out unsigned(0 downto 0);
    empty_while_val : out unsigned(0 downto 0);
    empty_while_cond : out unsigned(0 downto 0)
    );
end test_count_elements;


architecture arch_test_count_elements of test_count_elements is
  function cohdl_bool_to_std_logic(inp: boolean) return std_logic is
  begin
    if inp then
      return('1');
    else
      return('0');
    end if;
  end function cohdl_bool_to_std_logic;
  signal buffer_inp_until_0 : unsigned(3 downto 0);
  signal buffer_list_until_1 : unsigned(3 downto 0);
  signal buffer_inp_until_not0 : unsigned(3 downto 0);
  signal buffer_list_until_not1 : unsigned(3 downto 0);
  signal buffer_inp_while_0 : unsigned(3 downto 0);
  signal buffer_list_while_1 : unsigned(3 downto 0);
  signal buffer_inp_while_not0 : unsigned(3 downto 0);
  signal buffer_list_while_not1 : unsigned(3 downto 0);
  signal buffer_empty_until_val : unsigned(0 downto 0);
  signal buffer_empty_until_cond : unsigned(0 downto 0);
  signal buffer_empty_while_val : unsigned(0 downto 0);
  signal buffer_empty_while_cond : unsigned(0 downto 0);
  signal temp : boolean;
  signal temp1 : boolean;
  signal temp2 : boolean;
  signal temp3 : boolean;
  signal temp4 : boolean;
  signal temp5 : boolean;
  signal temp6 : boolean;
  signal temp7 : boolean;
  signal temp8 : boolean;
  signal temp9 : unsigned(3 downto 0);
  signal temp10 : boolean;
  signal temp11 : unsigned(3 downto 0);
  signal temp12 : boolean;
  signal temp13 : unsigned(3 downto 0);
  signal temp14 : boolean;
  signal temp15 : unsigned(3 downto 0);
  signal temp16 : boolean;
  signal temp17 : unsigned(3 downto 0);
  signal temp18 : boolean;
  signal temp19 : unsigned(3 downto 0);
  signal temp20 : boolean;
  signal temp21 : unsigned(3 downto 0);
  signal temp22 : boolean;
  signal arg : unsigned(3 downto 0);
  signal temp23 : boolean;
  signal temp24 : boolean;
  signal temp25 : boolean;
  signal temp26 : boolean;
  signal temp27 : boolean;
  signal temp28 : boolean;
  signal temp29 : boolean;
  signal temp30 : boolean;
  signal temp31 : boolean;
  signal temp32 : unsigned(3 downto 0);
  signal temp33 : boolean;
  signal temp34 : unsigned(3 downto 0);
  signal temp35 : boolean;
  signal temp36 : unsigned(3 downto 0);
  signal temp37 : boolean;
  signal temp38 : unsigned(3 downto 0);
  signal temp39 : boolean;
  signal temp40 : unsigned(3 downto 0);
  signal temp41 : boolean;
  signal temp42 : unsigned(3 downto 0);
  signal temp43 : boolean;
  signal temp44 : unsigned(3 downto 0);
  signal temp45 : boolean;
  signal arg1 : unsigned(3 downto 0);
  signal temp46 : boolean;
  signal temp47 : boolean;
  signal temp48 : boolean;
  signal temp49 : boolean;
  signal temp50 : boolean;
  signal temp51 : boolean;
  signal temp52 : boolean;
  signal temp53 : boolean;
  signal temp54 : boolean;
  signal temp55 : unsigned(3 downto 0);
  signal temp56 : boolean;
  signal temp57 : unsigned(3 downto 0);
  signal temp58 : boolean;
  signal temp59 : unsigned(3 downto 0);
  signal temp60 : boolean;
  signal temp61 : unsigned(3 downto 0);
  signal temp62 : boolean;
  signal temp63 : unsigned(3 downto 0);
  signal temp64 : boolean;
  signal temp65 : unsigned(3 downto 0);
  signal temp66 : boolean;
  signal temp67 : unsigned(3 downto 0);
  signal temp68 : boolean;
  signal arg2 : unsigned(3 downto 0);
  signal temp69 : boolean;
  signal temp70 : boolean;
  signal temp71 : boolean;
  signal temp72 : boolean;
  signal temp73 : boolean;
  signal temp74 : boolean;
  signal temp75 : boolean;
  signal temp76 : boolean;
  signal temp77 : boolean;
  signal temp78 : unsigned(3 downto 0);
  signal temp79 : boolean;
  signal temp80 : unsigned(3 downto 0);
  signal temp81 : boolean;
  signal temp82 : unsigned(3 downto 0);
  signal temp83 : boolean;
  signal temp84 : unsigned(3 downto 0);
  signal temp85 : boolean;
  signal temp86 : unsigned(3 downto 0);
  signal temp87 : boolean;
  signal temp88 : unsigned(3 downto 0);
  signal temp89 : boolean;
  signal temp90 : unsigned(3 downto 0);
  signal temp91 : boolean;
  signal arg3 : unsigned(3 downto 0);
  signal temp92 : boolean;
  signal temp93 : boolean;
  signal temp94 : boolean;
  signal temp95 : boolean;
  signal temp96 : boolean;
  signal temp97 : boolean;
  signal temp98 : boolean;
  signal temp99 : boolean;
  signal temp100 : boolean;
  signal temp101 : unsigned(3 downto 0);
  signal temp102 : boolean;
  signal temp103 : unsigned(3 downto 0);
  signal temp104 : boolean;
  signal temp105 : unsigned(3 downto 0);
  signal temp106 : boolean;
  signal temp107 : unsigned(3 downto 0);
  signal temp108 : boolean;
  signal temp109 : unsigned(3 downto 0);
  signal temp110 : boolean;
  signal temp111 : unsigned(3 downto 0);
  signal temp112 : boolean;
  signal temp113 : unsigned(3 downto 0);
  signal temp114 : boolean;
  signal arg4 : unsigned(3 downto 0);
  signal temp115 : boolean;
  signal temp116 : boolean;
  signal temp117 : boolean;
  signal temp118 : boolean;
  signal temp119 : boolean;
  signal temp120 : boolean;
  signal temp121 : boolean;
  signal temp122 : boolean;
  signal temp123 : boolean;
  signal temp124 : unsigned(3 downto 0);
  signal temp125 : boolean;
  signal temp126 : unsigned(3 downto 0);
  signal temp127 : boolean;
  signal temp128 : unsigned(3 downto 0);
  signal temp129 : boolean;
  signal temp130 : unsigned(3 downto 0);
  signal temp131 : boolean;
  signal temp132 : unsigned(3 downto 0);
  signal temp133 : boolean;
  signal temp134 : unsigned(3 downto 0);
  signal temp135 : boolean;
  signal temp136 : unsigned(3 downto 0);
  signal temp137 : boolean;
  signal arg5 : unsigned(3 downto 0);
  signal temp138 : boolean;
  signal temp139 : boolean;
  signal temp140 : boolean;
  signal temp141 : boolean;
  signal temp142 : boolean;
  signal temp143 : boolean;
  signal temp144 : boolean;
  signal temp145 : boolean;
  signal temp146 : boolean;
  signal temp147 : boolean;
  signal temp148 : boolean;
  signal temp149 : boolean;
  signal temp150 : boolean;
  signal temp151 : boolean;
  signal temp152 : boolean;
  signal temp153 : boolean;
  signal temp154 : boolean;
  signal temp155 : boolean;
  signal temp156 : boolean;
  signal temp157 : boolean;
  signal temp158 : boolean;
  signal temp159 : boolean;
  signal temp160 : boolean;
  signal temp161 : boolean;
  signal temp162 : boolean;
  signal temp163 : unsigned(3 downto 0);
  signal temp164 : boolean;
  signal temp165 : unsigned(3 downto 0);
  signal temp166 : boolean;
  signal temp167 : unsigned(3 downto 0);
  signal temp168 : boolean;
  signal temp169 : unsigned(3 downto 0);
  signal temp170 : boolean;
  signal temp171 : unsigned(3 downto 0);
  signal temp172 : boolean;
  signal temp173 : unsigned(3 downto 0);
  signal temp174 : boolean;
  signal temp175 : unsigned(3 downto 0);
  signal temp176 : boolean;
  signal arg6 : unsigned(3 downto 0);
  signal temp177 : boolean;
  signal temp178 : boolean;
  signal temp179 : boolean;
  signal temp180 : boolean;
  signal temp181 : boolean;
  signal temp182 : boolean;
  signal temp183 : boolean;
  signal temp184 : boolean;
  signal temp185 : boolean;
  signal temp186 : boolean;
  signal temp187 : boolean;
  signal temp188 : boolean;
  signal temp189 : boolean;
  signal temp190 : boolean;
  signal temp191 : boolean;
  signal temp192 : boolean;
  signal temp193 : boolean;
  signal temp194 : boolean;
  signal temp195 : boolean;
  signal temp196 : boolean;
  signal temp197 : boolean;
  signal temp198 : boolean;
  signal temp199 : boolean;
  signal temp200 : boolean;
  signal temp201 : boolean;
  signal temp202 : unsigned(3 downto 0);
  signal temp203 : boolean;
  signal temp204 : unsigned(3 downto 0);
  signal temp205 : boolean;
  signal temp206 : unsigned(3 downto 0);
  signal temp207 : boolean;
  signal temp208 : unsigned(3 downto 0);
  signal temp209 : boolean;
  signal temp210 : unsigned(3 downto 0);
  signal temp211 : boolean;
  signal temp212 : unsigned(3 downto 0);
  signal temp213 : boolean;
  signal temp214 : unsigned(3 downto 0);
  signal temp215 : boolean;
  signal arg7 : unsigned(3 downto 0);
begin
  
  -- CONCURRENT BLOCK (buffer assignment)
  inp_until_0 <= buffer_inp_until_0;
  list_until_1 <= buffer_list_until_1;
  inp_until_not0 <= buffer_inp_until_not0;
  list_until_not1 <= buffer_list_until_not1;
  inp_while_0 <= buffer_inp_while_0;
  list_while_1 <= buffer_list_while_1;
  inp_while_not0 <= buffer_inp_while_not0;
  list_while_not1 <= buffer_list_while_not1;
  empty_until_val <= buffer_empty_until_val;
  empty_until_cond <= buffer_empty_until_cond;
  empty_while_val <= buffer_empty_while_val;
  empty_while_cond <= buffer_empty_while_cond;
  
  -- CONCURRENT BLOCK (logic_assign)
  temp <= (input(0) = '0');
  temp1 <= (input(1) = '0');
  temp2 <= (input(2) = '0');
  temp3 <= (input(3) = '0');
  temp4 <= (input(4) = '0');
  temp5 <= (input(5) = '0');
  temp6 <= (input(6) = '0');
  temp7 <= (input(7) = '0');
  temp8 <= temp7;
  with temp8 select temp9 <=
    unsigned'("0111") when true,
    unsigned'("1000") when others;
  temp10 <= temp6;
  with temp10 select temp11 <=
    unsigned'("0110") when true,
    temp9 when others;
  temp12 <= temp5;
  with temp12 select temp13 <=
    unsigned'("0101") when true,
    temp11 when others;
  temp14 <= temp4;
  with temp14 select temp15 <=
    unsigned'("0100") when true,
    temp13 when others;
  temp16 <= temp3;
  with temp16 select temp17 <=
    unsigned'("0011") when true,
    temp15 when others;
  temp18 <= temp2;
  with temp18 select temp19 <=
    unsigned'("0010") when true,
    temp17 when others;
  temp20 <= temp1;
  with temp20 select temp21 <=
    unsigned'("0001") when true,
    temp19 when others;
  temp22 <= temp;
  with temp22 select arg <=
    unsigned'("0000") when true,
    temp21 when others;
  buffer_inp_until_0 <= arg;
  temp23 <= (input(0) = '1');
  temp24 <= (input(1) = '1');
  temp25 <= (input(2) = '1');
  temp26 <= (input(3) = '1');
  temp27 <= (input(4) = '1');
  temp28 <= (input(5) = '1');
  temp29 <= (input(6) = '1');
  temp30 <= (input(7) = '1');
  temp31 <= temp30;
  with temp31 select temp32 <=
    unsigned'("0111") when true,
    unsigned'("1000") when others;
  temp33 <= temp29;
  with temp33 select temp34 <=
    unsigned'("0110") when true,
    temp32 when others;
  temp35 <= temp28;
  with temp35 select temp36 <=
    unsigned'("0101") when true,
    temp34 when others;
  temp37 <= temp27;
  with temp37 select temp38 <=
    unsigned'("0100") when true,
    temp36 when others;
  temp39 <= temp26;
  with temp39 select temp40 <=
    unsigned'("0011") when true,
    temp38 when others;
  temp41 <= temp25;
  with temp41 select temp42 <=
    unsigned'("0010") when true,
    temp40 when others;
  temp43 <= temp24;
  with temp43 select temp44 <=
    unsigned'("0001") when true,
    temp42 when others;
  temp45 <= temp23;
  with temp45 select arg1 <=
    unsigned'("0000") when true,
    temp44 when others;
  buffer_list_until_1 <= arg1;
  temp46 <= (input(0) /= '0');
  temp47 <= (input(1) /= '0');
  temp48 <= (input(2) /= '0');
  temp49 <= (input(3) /= '0');
  temp50 <= (input(4) /= '0');
  temp51 <= (input(5) /= '0');
  temp52 <= (input(6) /= '0');
  temp53 <= (input(7) /= '0');
  temp54 <= temp53;
  with temp54 select temp55 <=
    unsigned'("0111") when true,
    unsigned'("1000") when others;
  temp56 <= temp52;
  with temp56 select temp57 <=
    unsigned'("0110") when true,
    temp55 when others;
  temp58 <= temp51;
  with temp58 select temp59 <=
    unsigned'("0101") when true,
    temp57 when others;
  temp60 <= temp50;
  with temp60 select temp61 <=
    unsigned'("0100") when true,
    temp59 when others;
  temp62 <= temp49;
  with temp62 select temp63 <=
    unsigned'("0011") when true,
    temp61 when others;
  temp64 <= temp48;
  with temp64 select temp65 <=
    unsigned'("0010") when true,
    temp63 when others;
  temp66 <= temp47;
  with temp66 select temp67 <=
    unsigned'("0001") when true,
    temp65 when others;
  temp68 <= temp46;
  with temp68 select arg2 <=
    unsigned'("0000") when true,
    temp67 when others;
  buffer_inp_until_not0 <= arg2;
  temp69 <= (input(0) /= '1');
  temp70 <= (input(1) /= '1');
  temp71 <= (input(2) /= '1');
  temp72 <= (input(3) /= '1');
  temp73 <= (input(4) /= '1');
  temp74 <= (input(5) /= '1');
  temp75 <= (input(6) /= '1');
  temp76 <= (input(7) /= '1');
  temp77 <= temp76;
  with temp77 select temp78 <=
    unsigned'("0111") when true,
    unsigned'("1000") when others;
  temp79 <= temp75;
  with temp79 select temp80 <=
    unsigned'("0110") when true,
    temp78 when others;
  temp81 <= temp74;
  with temp81 select temp82 <=
    unsigned'("0101") when true,
    temp80 when others;
  temp83 <= temp73;
  with temp83 select temp84 <=
    unsigned'("0100") when true,
    temp82 when others;
  temp85 <= temp72;
  with temp85 select temp86 <=
    unsigned'("0011") when true,
    temp84 when others;
  temp87 <= temp71;
  with temp87 select temp88 <=
    unsigned'("0010") when true,
    temp86 when others;
  temp89 <= temp70;
  with temp89 select temp90 <=
    unsigned'("0001") when true,
    temp88 when others;
  temp91 <= temp69;
  with temp91 select arg3 <=
    unsigned'("0000") when true,
    temp90 when others;
  buffer_list_until_not1 <= arg3;
  temp92 <= (input(0) /= '0');
  temp93 <= (input(1) /= '0');
  temp94 <= (input(2) /= '0');
  temp95 <= (input(3) /= '0');
  temp96 <= (input(4) /= '0');
  temp97 <= (input(5) /= '0');
  temp98 <= (input(6) /= '0');
  temp99 <= (input(7) /= '0');
  temp100 <= temp99;
  with temp100 select temp101 <=
    unsigned'("0111") when true,
    unsigned'("1000") when others;
  temp102 <= temp98;
  with temp102 select temp103 <=
    unsigned'("0110") when true,
    temp101 when others;
  temp104 <= temp97;
  with temp104 select temp105 <=
    unsigned'("0101") when true,
    temp103 when others;
  temp106 <= temp96;
  with temp106 select temp107 <=
    unsigned'("0100") when true,
    temp105 when others;
  temp108 <= temp95;
  with temp108 select temp109 <=
    unsigned'("0011") when true,
    temp107 when others;
  temp110 <= temp94;
  with temp110 select temp111 <=
    unsigned'("0010") when true,
    temp109 when others;
  temp112 <= temp93;
  with temp112 select temp113 <=
    unsigned'("0001") when true,
    temp111 when others;
  temp114 <= temp92;
  with temp114 select arg4 <=
    unsigned'("0000") when true,
    temp113 when others;
  buffer_inp_while_0 <= arg4;
  temp115 <= (input(0) /= '1');
  temp116 <= (input(1) /= '1');
  temp117 <= (input(2) /= '1');
  temp118 <= (input(3) /= '1');
  temp119 <= (input(4) /= '1');
  temp120 <= (input(5) /= '1');
  temp121 <= (input(6) /= '1');
  temp122 <= (input(7) /= '1');
  temp123 <= temp122;
  with temp123 select temp124 <=
    unsigned'("0111") when true,
    unsigned'("1000") when others;
  temp125 <= temp121;
  with temp125 select temp126 <=
    unsigned'("0110") when true,
    temp124 when others;
  temp127 <= temp120;
  with temp127 select temp128 <=
    unsigned'("0101") when true,
    temp126 when others;
  temp129 <= temp119;
  with temp129 select temp130 <=
    unsigned'("0100") when true,
    temp128 when others;
  temp131 <= temp118;
  with temp131 select temp132 <=
    unsigned'("0011") when true,
    temp130 when others;
  temp133 <= temp117;
  with temp133 select temp134 <=
    unsigned'("0010") when true,
    temp132 when others;
  temp135 <= temp116;
  with temp135 select temp136 <=
    unsigned'("0001") when true,
    temp134 when others;
  temp137 <= temp115;
  with temp137 select arg5 <=
    unsigned'("0000") when true,
    temp136 when others;
  buffer_list_while_1 <= arg5;
  temp138 <= (input(0) /= '0');
  temp139 <= temp138;
  temp140 <= not (temp139);
  temp141 <= (input(1) /= '0');
  temp142 <= temp141;
  temp143 <= not (temp142);
  temp144 <= (input(2) /= '0');
  temp145 <= temp144;
  temp146 <= not (temp145);
  temp147 <= (input(3) /= '0');
  temp148 <= temp147;
  temp149 <= not (temp148);
  temp150 <= (input(4) /= '0');
  temp151 <= temp150;
  temp152 <= not (temp151);
  temp153 <= (input(5) /= '0');
  temp154 <= temp153;
  temp155 <= not (temp154);
  temp156 <= (input(6) /= '0');
  temp157 <= temp156;
  temp158 <= not (temp157);
  temp159 <= (input(7) /= '0');
  temp160 <= temp159;
  temp161 <= not (temp160);
  temp162 <= temp161;
  with temp162 select temp163 <=
    unsigned'("0111") when true,
    unsigned'("1000") when others;
  temp164 <= temp158;
  with temp164 select temp165 <=
    unsigned'("0110") when true,
    temp163 when others;
  temp166 <= temp155;
  with temp166 select temp167 <=
    unsigned'("0101") when true,
    temp165 when others;
  temp168 <= temp152;
  with temp168 select temp169 <=
    unsigned'("0100") when true,
    temp167 when others;
  temp170 <= temp149;
  with temp170 select temp171 <=
    unsigned'("0011") when true,
    temp169 when others;
  temp172 <= temp146;
  with temp172 select temp173 <=
    unsigned'("0010") when true,
    temp171 when others;
  temp174 <= temp143;
  with temp174 select temp175 <=
    unsigned'("0001") when true,
    temp173 when others;
  temp176 <= temp140;
  with temp176 select arg6 <=
    unsigned'("0000") when true,
    temp175 when others;
  buffer_inp_while_not0 <= arg6;
  temp177 <= (input(0) /= '1');
  temp178 <= temp177;
  temp179 <= not (temp178);
  temp180 <= (input(1) /= '1');
  temp181 <= temp180;
  temp182 <= not (temp181);
  temp183 <= (input(2) /= '1');
  temp184 <= temp183;
  temp185 <= not (temp184);
  temp186 <= (input(3) /= '1');
  temp187 <= temp186;
  temp188 <= not (temp187);
  temp189 <= (input(4) /= '1');
  temp190 <= temp189;
  temp191 <= not (temp190);
  temp192 <= (input(5) /= '1');
  temp193 <= temp192;
  temp194 <= not (temp193);
  temp195 <= (input(6) /= '1');
  temp196 <= temp195;
  temp197 <= not (temp196);
  temp198 <= (input(7) /= '1');
  temp199 <= temp198;
  temp200 <= not (temp199);
  temp201 <= temp200;
  with temp201 select temp202 <=
    unsigned'("0111") when true,
    unsigned'("1000") when others;
  temp203 <= temp197;
  with temp203 select temp204 <=
    unsigned'("0110") when true,
    temp202 when others;
  temp205 <= temp194;
  with temp205 select temp206 <=
    unsigned'("0101") when true,
    temp204 when others;
  temp207 <= temp191;
  with temp207 select temp208 <=
    unsigned'("0100") when true,
    temp206 when others;
  temp209 <= temp188;
  with temp209 select temp210 <=
    unsigned'("0011") when true,
    temp208 when others;
  temp211 <= temp185;
  with temp211 select temp212 <=
    unsigned'("0010") when true,
    temp210 when others;
  temp213 <= temp182;
  with temp213 select temp214 <=
    unsigned'("0001") when true,
    temp212 when others;
  temp215 <= temp179;
  with temp215 select arg7 <=
    unsigned'("0000") when true,
    temp214 when others;
  buffer_list_while_not1 <= arg7;
  buffer_empty_until_val <= unsigned'("0");
  buffer_empty_until_cond <= unsigned'("0");
  buffer_empty_while_val <= unsigned'("0");
  buffer_empty_while_cond <= unsigned'("0");
end architecture arch_test_count_elements;