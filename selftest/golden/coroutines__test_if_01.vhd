library ieee;
use ieee.std_logic_1164.all;
use ieee.numeric_std.all;


entity test_if_01 is
  port (
    clk : in std_logic;
    step : in std_logic;
    inp1 : in std_logic;
    inp2 : in std_logic_vector(3 downto 0);
    inp3 : in unsigned(3 downto 0);
    out1 : out std_logic;
    out2 : out std_logic_vector(3 downto 0);
    out3 : out unsigned(3 downto 0);
    state : out unsigned(2 downto 0)
    );
end test_if_01;


architecture arch_test_if_01 of test_if_01 is
  function cohdl_bool_to_std_logic(inp: boolean) return std_logic is
  begin
    if inp then
      return('1');
    else
      return('0');
    end if;
  end function cohdl_bool_to_std_logic;
  signal buffer_out1 : std_logic := '0';
  signal buffer_out2 : std_logic_vector(3 downto 0) := "0000";
  signal buffer_out3 : unsigned(3 downto 0) := unsigned'("0000");
  signal buffer_state : unsigned(2 downto 0) := unsigned'("000");
  type state_proc is (state_0, state_1, state_2, state_3);
  signal s_proc : state_proc := state_0;
begin
  
  -- CONCURRENT BLOCK (buffer assignment)
  out1 <= buffer_out1;
  out2 <= buffer_out2;
  out3 <= buffer_out3;
  state <= buffer_state;
  

  proc: process(clk)
    variable temp : boolean;
  begin
    if rising_edge(clk) then
      case s_proc is
        when state_0 =>
          s_proc <= state_1;
          buffer_state <= unsigned'("001");
        when state_1 =>
          if step = '1' then
            s_proc <= state_2;
            buffer_out1 <= inp1;
            buffer_state <= unsigned'("010");
          end if;
        when state_2 =>
          if step = '1' then
            s_proc <= state_3;
            temp := inp1 = '1';
            if temp then
              buffer_out2 <= inp2;
            else
              buffer_out2 <= "0000";
            end if;
            buffer_state <= unsigned'("011");
          end if;
        when state_3 =>
          if step = '1' then
            s_proc <= state_0;
            buffer_out3 <= inp3;
            buffer_state <= unsigned'("100");
          end if;
        when others =>
          null;
      end case;
    end if;
  end process;
end architecture arch_test_if_01;