library ieee;
use ieee.std_logic_1164.all;
use ieee.numeric_std.all;


entity OrEntity is
  port (
    a : in std_logic;
    b : in std_logic;
    result : out std_logic
    );
end OrEntity;


architecture arch_OrEntity of OrEntity is
  function cohdl_bool_to_std_logic(inp: boolean) return std_logic is
  begin
    if inp then
      return('1');
    else
      return('0');
    end if;
  end function cohdl_bool_to_std_logic;
  signal buffer_result : std_logic;
  signal temp : std_logic;
begin
  
  -- CONCURRENT BLOCK (buffer assignment)
  result <= buffer_result;
  
  -- CONCURRENT BLOCK (logic)
  temp <= (a) or (b);
  buffer_result <= temp;
end architecture arch_OrEntity;
library ieee;
use ieee.std_logic_1164.all;
use ieee.numeric_std.all;


entity AndEntity is
  port (
    a : in std_logic;
    b : in std_logic;
    result : out std_logic
    );
end AndEntity;


architecture arch_AndEntity of AndEntity is
  function cohdl_bool_to_std_logic(inp: boolean) return std_logic is
  begin
    if inp then
      return('1');
    else
      return('0');
    end if;
  end function cohdl_bool_to_std_logic;
  signal buffer_result : std_logic;
  signal temp : std_logic;
begin
  
  -- CONCURRENT BLOCK (buffer assignment)
  result <= buffer_result;
  
  -- CONCURRENT BLOCK (logic)
  temp <= (a) and (b);
  buffer_result <= temp;
end architecture arch_AndEntity;
library ieee;
use ieee.std_logic_1164.all;
use ieee.numeric_std.all;


entity XorEntity is
  port (
    a : in std_logic;
    b : in std_logic;
    result : out std_logic
    );
end XorEntity;


architecture arch_XorEntity of XorEntity is
  function cohdl_bool_to_std_logic(inp: boolean) return std_logic is
  begin
    if inp then
      return('1');
    else
      return('0');
    end if;
  end function cohdl_bool_to_std_logic;
  signal buffer_result : std_logic;
  signal temp : std_logic;
begin
  
  -- CONCURRENT BLOCK (buffer assignment)
  result <= buffer_result;
  
  -- CONCURRENT BLOCK (logic)
  temp <= (a) xor (b);
  buffer_result <= temp;
end architecture arch_XorEntity;
library ieee;
use ieee.std_logic_1164.all;
use ieee.numeric_std.all;


entity test_entities_01 is
  port (
    a : in std_logic;
    b : in std_logic;
    result_and : out std_logic;
    result_or : out std_logic;
    result_xor : out std_logic
    );
end test_entities_01;


architecture arch_test_entities_01 of test_entities_01 is
  function cohdl_bool_to_std_logic(inp: boolean) return std_logic is
  begin
    if inp then
      return('1');
    else
      return('0');
    end if;
  end function cohdl_bool_to_std_logic;
  signal buffer_result_and : std_logic;
  signal buffer_result_or : std_logic;
  signal buffer_result_xor : std_logic;
begin
  
  -- CONCURRENT BLOCK (buffer assignment)
  result_and <= buffer_result_and;
  result_or <= buffer_result_or;
  result_xor <= buffer_result_xor;
  comp_OrEntity: entity work.OrEntity(arch_OrEntity)
    port map(
    a => a,
    b => b,
    result => buffer_result_or
    );
  comp_AndEntity: entity work.AndEntity(arch_AndEntity)
    port map(
    a => a,
    b => b,
    result => buffer_result_and
    );
  comp_XorEntity: entity work.XorEntity(arch_XorEntity)
    port map(
    a => a,
    b => b,
    result => buffer_result_xor
    );
end architecture arch_test_entities_01;