library ieee;
use ieee.std_logic_1164.all;
use ieee.numeric_std.all;


entity test_boolean_03 is
  port (
    clk : in std_logic;
    cnt_1_rising : out unsigned(7 downto 0);
    cnt_1_falling : out unsigned(7 downto 0);
    cnt_1_both : out unsigned(7 downto 0);
    cnt_2_rising : out unsigned(7 downto 0);
    cnt_2_falling : out unsigned(7 downto 0);
    cnt_2_both : out unsigned(7 downto 0)
    );
end test_boolean_03;


architecture arch_test_boolean_03 of test_boolean_03 is
  function cohdl_bool_to_std_logic(inp: boolean) return std_logic is
  begin
    if inp then
      return('1');
    else
      return('0');
    end if;
  end function cohdl_bool_to_std_logic;
  signal buffer_cnt_1_rising : unsigned(7 downto 0) := unsigned'("00000000");
  signal buffer_cnt_1_falling : unsigned(7 downto 0) := unsigned'("00000000");
  signal buffer_cnt_1_both : unsigned(7 downto 0) := unsigned'("00000000");
  signal buffer_cnt_2_rising : unsigned(7 downto 0) := unsigned'("00000000");
  signal buffer_cnt_2_falling : unsigned(7 downto 0) := unsigned'("00000000");
  signal buffer_cnt_2_both : unsigned(7 downto 0) := unsigned'("00000000");
begin
  
  -- CONCURRENT BLOCK (buffer assignment)
  cnt_1_rising <= buffer_cnt_1_rising;
  cnt_1_falling <= buffer_cnt_1_falling;
  cnt_1_both <= buffer_cnt_1_both;
  cnt_2_rising <= buffer_cnt_2_rising;
  cnt_2_falling <= buffer_cnt_2_falling;
  cnt_2_both <= buffer_cnt_2_both;
  

  proc_rising_1: process(clk, buffer_cnt_1_rising)
    variable temp : unsigned(7 downto 0);
  begin
    if rising_edge(clk) then
      temp := (buffer_cnt_1_rising) + (1);
      buffer_cnt_1_rising <= temp;
    end if;
  end process;
  

  proc_falling_1: process(clk, buffer_cnt_1_falling)
    variable temp : unsigned(7 downto 0);
  begin
    if falling_edge(clk) then
      temp := (buffer_cnt_1_falling) + (1);
      buffer_cnt_1_falling <= temp;
    end if;
  end process;
  

  proc_both_1: process(clk, buffer_cnt_1_both)
    variable temp : unsigned(7 downto 0);
  begin
    if rising_edge(clk) or falling_edge(clk) then
      temp := (buffer_cnt_1_both) + (1);
      buffer_cnt_1_both <= temp;
    end if;
  end process;
  

  proc_rising_2: process(clk)
    variable temp : unsigned(7 downto 0);
  begin
    if rising_edge(clk) then
      temp := (buffer_cnt_2_rising) + (1);
      buffer_cnt_2_rising <= temp;
    end if;
  end process;
  

  proc_falling_2: process(clk)
    variable temp : unsigned(7 downto 0);
  begin
    if falling_edge(clk) then
      temp := (buffer_cnt_2_falling) + (1);
      buffer_cnt_2_falling <= temp;
    end if;
  end process;
  

  proc_both_2: process(clk)
    variable temp : unsigned(7 downto 0);
  begin
    if rising_edge(clk) or falling_edge(clk) then
      temp := (buffer_cnt_2_both) + (1);
      buffer_cnt_2_both <= temp;
    end if;
  end process;
end architecture arch_test_boolean_03;