library ieee;
use ieee.std_logic_1164.all;
use ieee.numeric_std.all;


entity test_sync_flag_01 is
  port (
    clk : in std_logic;
    reset : in std_logic;
    start_sender : in std_logic;
    start_receiver : in std_logic;
    received_flag : out std_logic;
    received_clear : out std_logic;
    is_set : out std_logic;
    is_clear : out std_logic
    );
end test_sync_flag_01;


architecture arch_test_sync_flag_01 of test_sync_flag_01 is
  function cohdl_bool_to_std_logic(inp: boolean) return std_logic is
  begin
    if inp then
      return('1');
    else
      return('0');
    end if;
  end function cohdl_bool_to_std_logic;
  signal buffer_received_flag : std_logic := '0';
  signal buffer_received_clear : std_logic := '0';
  signal buffer_is_set : std_logic;
  signal buffer_is_clear : std_logic;
  signal sync_flag_tx : std_logic := '0';
  signal sync_flag_rx : std_logic := '0';
  signal temp : boolean;
  signal temp1 : boolean;
  type state_set_sync is (state_0, state_1);
  signal s_set_sync : state_set_sync := state_0;
  type state_clear_sync is (state_0, state_1);
  signal s_clear_sync : state_clear_sync := state_0;
begin
  
  -- CONCURRENT BLOCK (buffer assignment)
  received_flag <= buffer_received_flag;
  received_clear <= buffer_received_clear;
  is_set <= buffer_is_set;
  is_clear <= buffer_is_clear;
  
  -- CONCURRENT BLOCK (logic)
  temp <= (sync_flag_tx /= sync_flag_rx);
  buffer_is_set <= cohdl_bool_to_std_logic(temp);
  temp1 <= (sync_flag_tx = sync_flag_rx);
  buffer_is_clear <= cohdl_bool_to_std_logic(temp1);
  

  set_sync: process(clk)
    variable temp2 : boolean;
    variable temp3 : std_logic;
    variable temp4 : boolean;
  begin
    if rising_edge(clk) then
      temp2 := reset = '1';
      if temp2 then
        s_set_sync <= state_0;
        sync_flag_tx <= '0';
        buffer_received_clear <= '0';
      else
        buffer_received_clear <= '0';
        case s_set_sync is
          when state_0 =>
            if start_sender = '1' then
              s_set_sync <= state_1;
              temp3 := not (sync_flag_rx);
              sync_flag_tx <= temp3;
            end if;
          when state_1 =>
            temp4 := (sync_flag_tx = sync_flag_rx);
            if temp4 then
              s_set_sync <= state_0;
              buffer_received_clear <= '1';
            end if;
          when others =>
            null;
        end case;
      end if;
    end if;
  end process;
  

  clear_sync: process(clk)
    variable temp2 : boolean;
    variable temp3 : boolean;
  begin
    if rising_edge(clk) then
      temp2 := reset = '1';
      if temp2 then
        s_clear_sync <= state_0;
        sync_flag_rx <= '0';
        buffer_received_flag <= '0';
      else
        buffer_received_flag <= '0';
        case s_clear_sync is
          when state_0 =>
            if start_receiver = '1' then
              s_clear_sync <= state_1;
            end if;
          when state_1 =>
            temp3 := (sync_flag_tx /= sync_flag_rx);
            if temp3 then
              s_clear_sync <= state_0;
              sync_flag_rx <= sync_flag_tx;
              buffer_received_flag <= '1';
            end if;
          when others =>
            null;
        end case;
      end if;
    end if;
  end process;
end architecture arch_test_sync_flag_01;