library ieee;
use ieee.std_logic_1164.all;
use ieee.numeric_std.all;


entity test_match_02 is
  port (
    clk : in std_logic;
    op : in std_logic_vector(1 downto 0);
    inp_vec_a : in std_logic_vector(2 downto 0);
    inp_vec_b : in std_logic_vector(2 downto 0);
    out_vec : out std_logic_vector(2 downto 0);
    inp_bit_a : in std_logic;
    inp_bit_b : in std_logic;
    out_bit : out std_logic
    );
end test_match_02;


architecture arch_test_match_02 of test_match_02 is
  function cohdl_bool_to_std_logic(inp: boolean) return std_logic is
  begin
    if inp then
      return('1');
    else
      return('0');
    end if;
  end function cohdl_bool_to_std_logic;
  signal buffer_out_vec : std_logic_vector(2 downto 0);
  signal buffer_out_bit : std_logic;
begin
  
  -- CONCURRENT BLOCK (buffer assignment)
  out_vec <= buffer_out_vec;
  out_bit <= buffer_out_bit;
  

  proc_simple: process(clk)
    variable temp : std_logic_vector(2 downto 0);
    variable temp1 : std_logic;
    variable temp2 : std_logic_vector(2 downto 0);
    variable temp3 : std_logic;
    variable temp4 : std_logic_vector(2 downto 0);
    variable temp5 : std_logic;
  begin
    if rising_edge(clk) then
      case op is
        when "00" =>
          temp := (inp_vec_a) and (inp_vec_b);
          buffer_out_vec <= temp;
          temp1 := (inp_bit_a) and (inp_bit_b);
          buffer_out_bit <= temp1;
        when "01" =>
          temp2 := (inp_vec_a) or (inp_vec_b);
          buffer_out_vec <= temp2;
          temp3 := (inp_bit_a) or (inp_bit_b);
          buffer_out_bit <= temp3;
        when "10" =>
          temp4 := (inp_vec_a) xor (inp_vec_b);
          buffer_out_vec <= temp4;
          temp5 := (inp_bit_a) xor (inp_bit_b);
          buffer_out_bit <= temp5;
        when "11" =>
          buffer_out_vec <= "111";
          buffer_out_bit <= '0';
        when others =>
      end case;
    end if;
  end process;
end architecture arch_test_match_02;