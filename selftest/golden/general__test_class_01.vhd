library ieee;
use ieee.std_logic_1164.all;
use ieee.numeric_std.all;


entity test_class_01 is
  port (
    inp1 : in std_logic_vector(3 downto 0);
    inp2 : in std_logic_vector(3 downto 0);
    inp3 : in std_logic_vector(3 downto 0);
    out1 : out std_logic_vector(3 downto 0);
    out2 : out std_logic_vector(3 downto 0);
    out3 : out std_logic_vector(3 downto 0)
    );
end test_class_01;


architecture arch_test_class_01 of test_class_01 is
  function cohdl_bool_to_std_logic(inp: boolean) return std_logic is
  begin
    if inp then
      return('1');
    else
      return('0');
    end if;
  end function cohdl_bool_to_std_logic;
  signal buffer_out1 : std_logic_vector(3 downto 0);
  signal buffer_out2 : std_logic_vector(3 downto 0);
  signal buffer_out3 : std_logic_vector(3 downto 0);
  signal temp : std_logic_vector(3 downto 0);
  signal temp1 : std_logic_vector(3 downto 0);
  signal temp2 : std_logic_vector(3 downto 0);
  signal temp3 : std_logic_vector(3 downto 0);
  signal temp4 : std_logic_vector(3 downto 0);
  signal temp5 : std_logic_vector(3 downto 0);
begin
  
  -- CONCURRENT BLOCK (buffer assignment)
  out1 <= buffer_out1;
  out2 <= buffer_out2;
  out3 <= buffer_out3;
  
  -- CONCURRENT BLOCK (logic)
  temp <= (inp1) and (inp2);
  temp1 <= (temp) and (inp3);
  buffer_out1 <= temp1;
  temp2 <= (inp1) or (inp2);
  temp3 <= (temp2) or (inp3);
  buffer_out2 <= temp3;
  temp4 <= (inp1) xor (inp2);
  temp5 <= (temp4) xor (inp3);
  buffer_out3 <= temp5;
end architecture arch_test_class_01;