library ieee;
use ieee.std_logic_1164.all;
use ieee.numeric_std.all;


entity test_await_fn_01 is
  port (
    clk : in std_logic;
    enable : in std_logic;
    input : in std_logic;
    output : out std_logic
    );
end test_await_fn_01;


architecture arch_test_await_fn_01 of test_await_fn_01 is
  function cohdl_bool_to_std_logic(inp: boolean) return std_logic is
  begin
    if inp then
      return('1');
    else
      return('0');
    end if;
  end function cohdl_bool_to_std_logic;
  signal buffer_output : std_logic;
begin
  
  -- CONCURRENT BLOCK (buffer assignment)
  output <= buffer_output;
  

  proc_simple: process(clk)
  begin
    if rising_edge(clk) then
      if enable = '1' then
        buffer_output <= input;
      end if;
    end if;
  end process;
end architecture arch_test_await_fn_01;